#!/bin/sh
# Build the fact dumper (one libTooling tool). Offline; needs clang-14 / llvm-14 as installed in the image.
set -e
cd "$(dirname "$0")"
mkdir -p .cache/bin evidence/violations
if [ ! -x .cache/bin/rsfacts ] || [ tools/rsfacts.cc -nt .cache/bin/rsfacts ]; then
	clang++ $(llvm-config-14 --cxxflags) -fno-rtti -O1 tools/rsfacts.cc -o .cache/bin/rsfacts.tmp \
		/usr/lib/llvm-14/lib/libclang-cpp.so.14 /usr/lib/llvm-14/lib/libLLVM-14.so
	mv .cache/bin/rsfacts.tmp .cache/bin/rsfacts
fi
echo "rsfacts ready"
