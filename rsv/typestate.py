"""F3 — ownership typestate for message buffers (struct lp_msg *).

Path-sensitive forward dataflow over clang's CFG.  A path state maps every tracked pointer variable to one of
  P  parameter / borrowed value, as received        O  owned: obtained from an acquiring call in this function
  D  released (msg_allocator_free, mm_free, ...)     G  handed to the at-GVT deferred-free list
  E  escaped to another owner (queue, history, heap, early-anti list, any store to non-local memory)
  N  known to be NULL
and carries the truth value of the conditional-summary calls and branch conditions met on the path, so that
`if(unlikely(a && b && consumes_iff_true(m))) return;` is followed correctly through the join that
__builtin_expect introduces.  Callee summaries (effect on each pointer parameter, split by a constant boolean return
value) are computed bottom-up and applied at call sites.

Findings: use-after-release (dereference or argument use of a D/G pointer), double release, release while still
reachable (E then D), leak (O at a function exit).
"""
from . import expr as X

RELEASE = {"msg_allocator_free": "D", "mm_free": "D", "free": "D", "msg_allocator_free_at_gvt": "G"}
TRANSFER = {"msg_queue_insert": "E"}
ACQUIRE = {"msg_queue_extract", "msg_allocator_alloc", "msg_allocator_pack"}
MAX_STATES = 4000


def is_msg_ptr_type(t):
    return bool(t) and "struct lp_msg *" in t and "**" not in t.replace("* *", "**")


def root_var(n):
    """The variable a pointer expression is derived from through casts, tag arithmetic and parentheses."""
    n = X.strip(n)
    seen = 0
    while n is not None and seen < 20:
        seen += 1
        if n.k == "DeclRefExpr" and n.d.get("dk") == "var":
            return n
        if n.k == "BinaryOperator" and n.op in ("&", "|", "-", "+", "^"):
            l, r = X.strip(n.children[0]), X.strip(n.children[1])
            if X.const_int(r) is not None:
                n = l
                continue
            if X.const_int(l) is not None:
                n = r
                continue
            return None
        return None
    return None


TOP_READ = ("heap_min", "array_peek")        # macros that read, without removing it, the element the next extraction removes
TOP_TAKE = ("heap_extract", "array_pop")


def _container_of(n):
    """Text of the container argument of a heap_min / array_peek / heap_extract / array_pop expansion rooted at n."""
    mc = n.d.get("mcall")
    if mc and "(" in mc:
        inner = mc[mc.index("(") + 1:]
        depth, out = 0, ""
        for ch in inner:
            if ch in "([":
                depth += 1
            elif ch in ")]":
                if depth == 0:
                    break
                depth -= 1
            elif ch == "," and depth == 0:
                break
            out += ch
        return out.replace(" ", "")
    for x in n.walk():
        if not x.macros and x.k in ("DeclRefExpr", "MemberExpr", "ArraySubscriptExpr"):
            return X.show(x).replace(" ", "")
    return None


def _top_macro(n, names):
    """n (casts stripped) if it is the expansion of one of `names` as a whole, else None."""
    cur = n
    for _ in range(8):
        if cur is None:
            return None
        if cur.macros and cur.macros[-1] in names:
            return cur
        if cur.k in ("ImplicitCastExpr", "ParenExpr", "CStyleCastExpr") and cur.children:
            cur = cur.children[0]
            continue
        if cur.k == "UnaryOperator" and cur.op == "__extension__" and cur.children:
            cur = cur.children[0]
            continue
        if cur.k == "MemberExpr" and not cur.arrow and cur.children:
            cur = cur.children[0]      # heap_extract(q, cmp).m
            continue
        return None
    return None


class Finding:
    def __init__(self, kind, fn, node, var, detail):
        self.kind, self.fn, self.node, self.var, self.detail = kind, fn, node, var, detail

    @property
    def key(self):
        return "%s:%s:%s" % (self.kind, self.fn.name, self.var)

    def __repr__(self):
        return "<%s %s %s at %s: %s>" % (self.kind, self.fn.name, self.var, self.node.where, self.detail)


class Engine:
    def __init__(self, prog, extra_release=None):
        self.P = prog
        self.summaries = {}      # fn name -> {param index: {"T": set(states), "F": set(states)}}
        self._in_progress = set()
        self.release = dict(RELEASE)
        if extra_release:
            self.release.update(extra_release)

    # -------------------------------------------------------------------------------------------
    def summary(self, fname):
        if fname in self.summaries:
            return self.summaries[fname]
        F = self.P.fn_opt(fname)
        if F is None or fname in self._in_progress or not F.d.get("cfg"):
            return None
        if not any(is_msg_ptr_type(p.get("t")) for p in F.params):
            self.summaries[fname] = {}
            return {}
        self._in_progress.add(fname)
        try:
            res = self.analyse(F)
        finally:
            self._in_progress.discard(fname)
        summ = {}
        for i, p in enumerate(F.params):
            if not is_msg_ptr_type(p.get("t")):
                continue
            T, Fs = set(), set()
            for truth, st in res["exits"]:
                s = st.get(p["did"], "P")
                if truth is not False:
                    T.add(s)
                if truth is not True:
                    Fs.add(s)
            summ[i] = {"T": T or {"P"}, "F": Fs or {"P"}}
        self.summaries[fname] = summ
        return summ

    # -------------------------------------------------------------------------------------------
    def analyse(self, F):
        """Returns {"findings": [...], "exits": [(ret_truth, {did: state})], "complete": bool}."""
        g = F.cfg
        tracked = {}
        for p in F.params:
            if is_msg_ptr_type(p.get("t")):
                tracked[p["did"]] = p["name"]
        for n in F.walk():
            if n.k == "VarDecl" and is_msg_ptr_type(n.t) and n.sc == "local":
                tracked[n.did] = n.name
        findings = {}
        exits = []
        init = (tuple(sorted((d, "P") for d in tracked if any(p["did"] == d for p in F.params))), ())
        seen = {}
        work = [(g.entry, init)]
        n_states = 0
        complete = True

        def add_finding(kind, node, did, detail):
            f = Finding(kind, F, node, tracked.get(did, "?"), detail)
            findings.setdefault((kind, did, node.id), f)

        while work:
            b, st = work.pop()
            key = (b, st)
            if key in seen:
                continue
            seen[key] = 1
            n_states += 1
            if n_states > MAX_STATES:
                complete = False
                break
            B = g.blocks[b]
            states = [(dict(st[0]), dict(st[1]))]
            ret_truth = "none"
            for e in B.elems:
                nxt = []
                for vs, val in states:
                    nxt.extend(self._transfer(F, e, vs, val, tracked, add_finding))
                states = nxt
                if e.k == "ReturnStmt":
                    if e.children and e.children[0].k != "Null":
                        c = X.const_int(e.children[0])
                        ret_truth = None if c is None else bool(c)
                    else:
                        ret_truth = None
            if B.abort:
                continue
            succs = [s for s in B.succs if s is not None]
            if b == g.exit or not succs or (len(succs) == 1 and succs[0] == g.exit):
                for vs, val in states:
                    exits.append((None if ret_truth == "none" else ret_truth, dict(vs)))
                    for did, s in vs.items():
                        if s == "O":
                            add_finding("leak", B.elems[-1] if B.elems else F.root, did,
                                        "owned message is neither released nor handed to another owner on a path reaching this exit")
                if b != g.exit and succs:
                    pass
                continue
            for vs, val in states:
                if B.cond is not None and len(B.raw_succs) == 2 and B.termk != "SwitchStmt":
                    t = self._truth(B.cond, val)
                    for side, s in ((True, B.succs[0]), (False, B.succs[1])):
                        if s is None:
                            continue
                        if t is not None and t != side:
                            continue
                        vs2, val2 = dict(vs), dict(val)
                        core, neg = X.strip_bool(B.cond)
                        if core is not None:
                            val2[core.id] = side ^ neg
                            # nullness of a tracked pointer
                            if core.k == "DeclRefExpr" and core.did in tracked and not (side ^ neg):
                                vs2[core.did] = "N"
                            if core.k == "BinaryOperator" and core.op in ("==", "!="):
                                l, r = X.strip(core.children[0]), X.strip(core.children[1])
                                for a, bb in ((l, r), (r, l)):
                                    if a.k == "DeclRefExpr" and a.did in tracked and X.is_null(bb):
                                        isnull = (side ^ neg) == (core.op == "==")
                                        if isnull:
                                            vs2[a.did] = "N"
                        # the logical operator itself, on its short-circuit edge
                        if B.term is not None and B.term.k == "BinaryOperator" and B.term.op in ("&&", "||"):
                            pass
                        work.append((s, (tuple(sorted(vs2.items())), tuple(sorted(val2.items())))))
                else:
                    for s in succs:
                        work.append((s, (tuple(sorted(vs.items())), tuple(sorted(val.items())))))
        return {"findings": list(findings.values()), "exits": exits, "complete": complete, "tracked": tracked}

    # -------------------------------------------------------------------------------------------
    def _truth(self, n, val):
        n = X.strip(n)
        if n is None:
            return None
        if n.id in val:
            return val[n.id]
        if n.k == "UnaryOperator" and n.op == "!":
            t = self._truth(n.children[0], val)
            return None if t is None else (not t)
        if n.k == "BinaryOperator" and n.op == "&&":
            a, b = self._truth(n.children[0], val), self._truth(n.children[1], val)
            if a is False or b is False:
                return False
            if a is True and b is True:
                return True
            return None
        if n.k == "BinaryOperator" and n.op == "||":
            a, b = self._truth(n.children[0], val), self._truth(n.children[1], val)
            if a is True or b is True:
                return True
            if a is False and b is False:
                return False
            return None
        if n.k == "BinaryOperator" and n.op in ("!=", "==") and X.is_zero(n.children[1]):
            t = self._truth(n.children[0], val)
            return None if t is None else (t if n.op == "!=" else not t)
        c = X.const_int(n)
        if c is not None:
            return bool(c)
        return None

    def _use(self, node, rv, vs, tracked, add_finding, what):
        s = vs.get(rv.did)
        if s in ("D", "G"):
            add_finding("use-after-release", node, rv.did, "%s of `%s` after it was %s" % (
                what, rv.name, "released" if s == "D" else "queued for release at the next GVT"))

    def _transfer(self, F, e, vs, val, tracked, add_finding):
        """Apply one CFG element to one path state; returns a list of successor path states."""
        k = e.k
        if k == "VarDecl":
            if e.did in tracked:
                vs = dict(vs)
                vs[e.did] = self._value_state(e.children[0], vs, tracked) if e.children else "U"
                self._alias_top(vs, e.did, e.children[0] if e.children else None)
            elif e.children:
                self._escape_via_store(e.children[0], None, vs, tracked)
            return [(vs, val)]
        if k == "BinaryOperator" and e.op == "=":
            lhs, rhs = X.strip(e.children[0]), e.children[1]
            if lhs.k == "DeclRefExpr" and lhs.did in tracked:
                vs = dict(vs)
                vs[lhs.did] = self._value_state(rhs, vs, tracked, self_did=lhs.did)
                self._alias_top(vs, lhs.did, rhs)
                return [(vs, val)]
            rv = root_var(rhs)
            if rv is not None and rv.did in tracked:
                # stored into memory that outlives the variable (field, array element, global, other local struct)
                if not (lhs.k == "DeclRefExpr" and lhs.d.get("sc") in ("local", "param")):
                    self._use(e, rv, vs, tracked, add_finding, "store")
                    vs = dict(vs)
                    if vs.get(rv.did) in ("P", "O", "U", None):
                        vs[rv.did] = "E"
            return [(vs, val)]
        if k == "MemberExpr" and e.arrow:
            rv = root_var(e.children[0])
            if rv is not None and rv.did in tracked and X.strip(e.children[0]) is rv:
                self._use(e, rv, vs, tracked, add_finding, "dereference (->%s)" % e.name)
            return [(vs, val)]
        if k == "UnaryOperator" and e.op == "*":
            rv = root_var(e.children[0])
            if rv is not None and rv.did in tracked:
                self._use(e, rv, vs, tracked, add_finding, "dereference")
            return [(vs, val)]
        if k == "CallExpr":
            return self._call(F, e, vs, val, tracked, add_finding)
        if k == "ReturnStmt" and e.children and e.children[0].k != "Null":
            rv = root_var(e.children[0])
            if rv is not None and rv.did in tracked:
                self._use(e, rv, vs, tracked, add_finding, "return")
                vs = dict(vs)
                if vs.get(rv.did) in ("O", "P", "U"):
                    vs[rv.did] = "E"      # ownership goes to the caller
            return [(vs, val)]
        if k == "InitListExpr" or k == "CompoundLiteralExpr":
            # struct q_elem qe = {.t = m->dest_t, .m = m}: the pointer is copied into an aggregate; ownership follows the
            # aggregate only when that is stored somewhere (heap_insert) — treated as escape at the store
            return [(vs, val)]
        return [(vs, val)]

    def _top_key(self, text):
        tbl = self.__dict__.setdefault("_tops", {})
        return tbl.setdefault(text, -(len(tbl) + 1))

    def _alias_top(self, vs, did, rhs):
        """v = heap_min(Q) / array_peek(Q): v names the element that the next heap_extract(Q) / array_pop(Q) removes."""
        for key in [k_ for k_, v_ in vs.items() if isinstance(k_, int) and k_ < 0 and v_ == did]:
            del vs[key]
        top = _top_macro(rhs, TOP_READ) if rhs is not None else None
        if top is not None:
            c = _container_of(top)
            if c:
                vs[self._top_key(c)] = did

    def _escape_via_store(self, rhs, lhs, vs, tracked):
        return

    def _value_state(self, rhs, vs, tracked, self_did=None):
        r = X.strip(rhs)
        if r is None:
            return "U"
        if r.k == "CallExpr" and r.callee in ACQUIRE:
            return "O"
        if X.is_null(r):
            return "N"
        rv = root_var(r)
        if rv is not None and rv.did in tracked:
            return vs.get(rv.did, "U")
        return "P"   # loaded from memory / computed: borrowed

    def _call(self, F, e, vs, val, tracked, add_finding):
        callee = e.callee
        args = X.callee_args(e)
        # argument uses
        arg_vars = []
        for i, a in enumerate(args):
            rv = root_var(a)
            if rv is not None and rv.did in tracked:
                arg_vars.append((i, rv))
        if callee in self.release:
            vs = dict(vs)
            for a in args:
                take = _top_macro(a, TOP_TAKE)
                c = _container_of(take) if take is not None else None
                did = vs.get(self._top_key(c)) if c else None
                if did is not None and did in tracked:
                    if vs.get(did) in ("D", "G"):
                        add_finding("double-release", e, did, "`%s` is released twice on a path (second release by %s of the element taken from %s)" % (tracked[did], callee, c))
                    vs[did] = self.release[callee]
                    del vs[self._top_key(c)]
            for i, rv in arg_vars:
                s = vs.get(rv.did)
                if s in ("D", "G"):
                    add_finding("double-release", e, rv.did, "`%s` is released twice on a path (second release by %s)" % (rv.name, callee))
                elif s == "E":
                    add_finding("release-while-reachable", e, rv.did, "`%s` was handed to another owner and is then released by %s" % (rv.name, callee))
                elif s == "N":
                    pass
                vs[rv.did] = self.release[callee]
            return [(vs, val)]
        if callee in TRANSFER:
            vs = dict(vs)
            for i, rv in arg_vars:
                self._use(e, rv, vs, tracked, add_finding, "argument of %s" % callee)
                if vs.get(rv.did) in ("P", "O", "U", "E", None):
                    vs[rv.did] = "E"
            return [(vs, val)]
        for i, rv in arg_vars:
            self._use(e, rv, vs, tracked, add_finding, "argument of %s" % (callee or "an indirect call"))
        summ = self.summary(callee) if callee else None
        if not summ:
            return [(vs, val)]
        # apply the callee's effect; fork on the boolean result when the effect depends on it
        outs = []
        relevant = [(i, rv) for (i, rv) in arg_vars if i in summ]
        if not relevant:
            return [(vs, val)]
        depends = any(summ[i]["T"] != summ[i]["F"] for i, _ in relevant)
        for truth in ((True, False) if depends else (None,)):
            cands = [dict(vs)]
            for i, rv in relevant:
                effs = summ[i]["T"] if truth in (True, None) else summ[i]["F"]
                if truth is None:
                    effs = summ[i]["T"] | summ[i]["F"]
                new = []
                for c in cands:
                    for eff in effs:
                        c2 = dict(c)
                        if eff != "P":
                            cur = c2.get(rv.did)
                            if eff in ("D", "G") and cur in ("D", "G"):
                                add_finding("double-release", e, rv.did, "`%s` is already released when %s releases it" % (rv.name, callee))
                            c2[rv.did] = eff
                        new.append(c2)
                cands = new
            for c in cands:
                v2 = dict(val)
                if truth is not None:
                    v2[e.id] = truth
                outs.append((c, v2))
        return outs
