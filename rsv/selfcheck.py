"""Checker self-validation (thorough tier).

Every rule owns small patches under /verif/mutants/ (catalog.json).  Kind M breaks exactly one instance of a rule while
still compiling: applied to a scratch copy of the *current* tree the rule must fire on the named instance.  Kind B is a
behaviour-preserving edit: the check must stay silent.  A patch that no longer applies is skipped and reported; a patch
that applies but gives the wrong answer makes the run exit 2 (the checker, not the repository, is broken).
"""
import json
import os
import random
import shutil
import subprocess
import tempfile

from . import facts, report

MUT = os.path.join(facts.VERIF, "mutants")


def catalog():
    p = os.path.join(MUT, "catalog.json")
    return json.load(open(p)) if os.path.exists(p) else []


def scratch_copy(repo=facts.REPO):
    tmp = tempfile.mkdtemp(prefix="rsv-mut-")
    dst = os.path.join(tmp, "repo")
    os.makedirs(dst)
    for name in os.listdir(repo):
        if name in ("_build", ".git") or name.startswith("_build"):
            continue
        s = os.path.join(repo, name)
        if os.path.isdir(s):
            shutil.copytree(s, os.path.join(dst, name), symlinks=True)
        else:
            shutil.copy2(s, os.path.join(dst, name))
    return tmp, dst


def changed_files(patch):
    out = set()
    for l in open(patch):
        if l.startswith("+++ ") or l.startswith("--- "):
            f = l[4:].split("\t")[0].strip()
            if f.startswith(("a/", "b/")):
                f = f[2:]
            if f != "/dev/null":
                out.add(f)
    return out


def analyse_tree(mod, prop, repo_dir, scratch, configs=("asbuilt",), base=None, changed=None):
    """Run a property's rules on another tree; returns the Checker (not finished)."""
    reuse = None
    if base is not None and changed is not None:
        reuse = (os.path.dirname(base[0]), changed)
        facts.build_facts(tuple(configs))      # make sure the facts of the unmodified tree exist for these configurations
    d, units = facts.build_facts(tuple(configs), repo=repo_dir, cache_root=os.path.join(scratch, "facts"), cdb_from=base, reuse=reuse)
    progs = {c: facts.Program(d, c) for c in configs}
    ck = report.Checker(prop, "thorough", 0)
    mod.run(ck, progs)
    return ck


def violations_of(ck):
    known = {}
    if os.path.exists(report.KNOWN):
        for k in json.load(open(report.KNOWN)).get("known", []):
            if k["property"] == ck.prop:
                known[k["key"]] = k
    out = []
    for o in ck.obs:
        if o["verdict"] == "violated":
            key = "%s:%s" % (o["rule"], o["instance"])
            if key not in known:
                out.append((key, o))
    return out


def run_one(mod, prop, entry, base):
    """Returns (status, detail): status in ok / stale / WRONG."""
    patch = os.path.join(MUT, entry["file"])
    tmp, dst = scratch_copy()
    try:
        p = subprocess.run(["patch", "-p1", "--no-backup-if-mismatch", "-s", "-f", "-d", dst, "-i", patch],
                           stdout=subprocess.PIPE, stderr=subprocess.STDOUT, text=True)
        if p.returncode != 0:
            return "stale", "patch does not apply to the current tree: " + p.stdout.strip()[:200]
        configs = tuple(entry.get("configs", ["asbuilt"]))
        try:
            ck = analyse_tree(mod, prop, dst, tmp, configs, base, changed_files(patch))
        except facts.AnalysisBroken as e:
            if entry["kind"] == "M" and entry.get("expect") == "BROKEN":
                return "ok", "analysis refuses the mutated tree: %s" % str(e)[:200]
            return "WRONG", "analysis broke on the mutated tree: %s" % str(e)[:300]
        v = violations_of(ck)
        if ck.broken_notes and not v:
            if entry["kind"] == "M" and entry.get("expect") == "BROKEN":
                return "ok", "analysis refuses the mutated tree: %s" % ck.broken_notes[0][:200]
            return "WRONG", "analysis broke on the mutated tree: %s" % ck.broken_notes[0][:300]
        if entry["kind"] == "M":
            hits = [k for k, o in v if k.startswith(entry["expect"])]
            if hits:
                return "ok", "reported %s" % hits[0]
            return "WRONG", "mutant not reported (expected %s; got %s)" % (entry["expect"], [k for k, _ in v][:5])
        else:
            if v:
                return "WRONG", "behaviour-preserving edit raised %s" % [(k, o["detail"][:120]) for k, o in v][:3]
            return "ok", "silent"
    finally:
        shutil.rmtree(tmp, ignore_errors=True)


def _job(args):
    import importlib
    prop, e, base = args
    mod = importlib.import_module("rsv.props." + prop)
    try:
        return run_one(mod, prop, e, base)
    except Exception as ex:     # noqa: BLE001 - a crash of the checker on a mutant is a checker defect
        import traceback
        return "WRONG", "checker crashed: %s" % traceback.format_exc()[-600:]


def run(ck, prop, mod, seed):
    import multiprocessing
    ents = [e for e in catalog() if e["property"] == prop]
    random.Random(seed).shuffle(ents)
    d, _ = facts.build_facts(("asbuilt",))
    base = (os.path.join(d, "cdb"), facts.REPO)
    wrong = []
    with multiprocessing.get_context("fork").Pool(min(8, max(1, len(ents)))) as pool:
        results = pool.map(_job, [(prop, e, base) for e in ents], chunksize=1)
    for e, (st, detail) in zip(ents, results):
        ck.selfcheck.append({"mutant": e["file"], "kind": e["kind"], "expect": e.get("expect"), "status": st, "detail": detail})
        if st == "WRONG":
            wrong.append("%s: %s" % (e["file"], detail))
    ck.meta["self_validation_mutants"] = len(ents)
    if wrong:
        raise facts.AnalysisBroken("checker self-validation failed: " + " | ".join(wrong))
