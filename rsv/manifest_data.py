"""Text of the claims made in MANIFEST.json (one entry per property that has a check)."""

NOTES = ("Technique family: static analysis only. Each check decides the structural clauses listed in its level text on /repo's current "
         "source and states which part of the behaviour it does not decide. Exit 2 (never 1) when the analysis itself cannot be "
         "carried out. Six genuine defects were repaired by 'fix:' commits in /repo and one is a known finding; see "
         "known_findings.json and DESIGN.md section 6.")

TRUST = ("Trusted: clang 14's front end (AST, CFG, layouts, constant folding) on the build's own flags; the rsfacts dumper; the rule tables "
         "(instances confirmed by reading, frozen with reasons in DESIGN.md section 5). Configurations analysed: as built (-DNDEBUG) in the "
         "quick tier, additionally -UNDEBUG in the thorough tier.")

CLAIMED = {
    "C16": {
        "technique": "custom AST lint: comparator-shape recogniser (lexicographic cascade, symmetry, strictness, field whitelist) + who-uses check over all macro expansions",
        "text": ("Sufficient condition, decided on every run: the tie-break is a cascade of symmetric, total key comparisons closed by a strict "
                 "byte comparison whose length an earlier stage equalised; it reads only timestamp, cancellation bit, type, size and payload; "
                 "every heap operation, the straggler test and the matcher expand the canonical comparator (8 sites as built, 10 in the debug "
                 "configuration); no ad-hoc timestamp or payload comparison exists elsewhere. With the lemma that a lexicographic composition of "
                 "strict weak orders is one, this gives the property for all triples of events. Not decided: NaN timestamps (invalid model)."),
        "note": TRUST + " The composition lemma is taken on trust.",
    },
}

NOT_APPLICABLE = {}
