"""Text of the claims made in MANIFEST.json (one entry per property that has a check)."""

NOTES = ("Technique family: static analysis only. Each check decides the structural clauses listed in its level text on /repo's current "
         "source and states which part of the behaviour it does not decide. Exit 2 (never 1) when the analysis itself cannot be "
         "carried out. Six genuine defects were repaired by 'fix:' commits in /repo and one is a known finding; see "
         "known_findings.json and DESIGN.md section 6.")

TRUST = ("Trusted: clang 14's front end (AST, CFG, layouts, constant folding) on the build's own flags; the rsfacts dumper; the rule tables "
         "(instances confirmed by reading, frozen with reasons in DESIGN.md section 5). Configurations analysed: as built (-DNDEBUG) in the "
         "quick tier, additionally -UNDEBUG in the thorough tier.")

CLAIMED = {
    "C16": {
        "technique": "custom AST lint: comparator-shape recogniser (lexicographic cascade, symmetry, strictness, field whitelist) + who-uses check over all macro expansions",
        "text": ("Sufficient condition, decided on every run: the tie-break is a cascade of symmetric, total key comparisons closed by a strict "
                 "byte comparison whose length an earlier stage equalised (a size-specific fast path must compare exactly the payload size and be "
                 "selected by already-equalised keys only); it reads only timestamp, cancellation bit, type, size and payload; "
                 "every heap operation, the straggler test and the matcher expand the canonical comparator (8 sites as built, 10 in the debug "
                 "configuration); no ad-hoc timestamp or payload comparison exists elsewhere; the six sift loops of the event heaps have the "
                 "operand roles and polarity of a min-heap, examine the sibling whenever it exists, update hole and candidate in step, and "
                 "extract's child index and insert's parent index are inverse for all positions below 1024. With the lemma that a lexicographic composition of "
                 "strict weak orders is one, this gives the property for all triples of events. Not decided: NaN timestamps (invalid model)."),
        "note": TRUST + " The composition lemma is taken on trust.",
    },
}

CLAIMED["C06"] = {
    "technique": "path-sensitive ownership typestate over the clang CFG with callee summaries; atomic RMW-decides rule (dataflow from the RMW result to the guard, polarity table); finite-domain evaluation of the flag dispatch; who-may-write table",
    "text": ("Decided on every run, for all CFG paths: (1) the sender-cancel, receiver-undo and receiver-extract updates of the per-message flag "
             "word are single atomic RMWs, the value each returns is the only flag value the following decision reads, and the guard has the "
             "bit and polarity the protocol needs; handle_anti_msg, evaluated over the three classes of previous values, frees / rolls back then "
             "frees / hands to the remote matcher exactly as required; (2) every owned message is released or handed over exactly once on every "
             "path of every function (typestate with boolean-result-dependent callee summaries); (3) no dereference or argument use after a "
             "release anywhere; (4) fossil collection and LP shutdown release history entries per the ownership table; (5) only the protocol's "
             "functions touch the flag word; (6) the remote matcher marks the cancelled event before rolling back; (7) remotely cancelled buffers "
             "are released only through the at-GVT list. NOT decided: what each RMW returns under all interleavings of sender and receiver "
             "(the race between the RMWs themselves) — that needs schedules, which this technique does not explore."),
    "note": TRUST,
}

CLAIMED["C15"] = {
    "technique": "atomic-discipline lint over AtomicExpr (memory-order floors, single-exchange take, CAS operand roles) + CFG dominance (drain before read) + who-may-touch table for the list head",
    "text": ("Decided on every run: the publishing CAS is >= release and the consumer's take is one atomic exchange with NULL that is >= acquire; "
             "the CAS's expected operand is &msg->next of the pushed node, desired is the node, and msg->next is loaded from the head before the "
             "loop and never written after; extract and peek call the drain before any use of the heap on every path; the drain loop inserts "
             "every node once per iteration with key = that node's timestamp and reads the successor from the node; the head is touched only by "
             "the four queue functions with their permitted access kinds; the buffer index is lid_to_rid(msg->dest); extract removes the event it "
             "hands out and peek only reads the heap. NOT decided: "
             "linearizability / loss-freedom of the CAS retry against the swap over all interleavings."),
    "note": TRUST + " Memory-order floors are argued from the plain data each operation publishes, not copied from today's orders.",
}
CLAIMED["C17"] = {
    "technique": "finite-domain abstract evaluation of the barrier's phase automaton (all 4 phase values through the CFG) + atomic-order floors + leader/spin-loop shape recognisers",
    "text": ("Decided on every run: the phase variable is thread-local and advanced on every path; evaluating the function for each phase value "
             "shows consecutive uses take different counters, the two uses of a counter alternate direction and the automaton returns to phase 0 "
             "after 4 uses; both arrival RMWs are >= acq_rel; the leader flag is an equality test of the RMW result with 0 (up) / 1 (down); each "
             "spin loop reloads the counter atomically and exits only at the thread count (up) or 0 (down); an exit condition of another form "
             "is evaluated for 1..64 threads over the values the counter takes, and a definite early exit or stuck loop is a violation. A different "
             "barrier algorithm is reported inconclusive by those shape rules, but whatever the algorithm the body is interpreted one arrival at a time "
             "over 10 consecutive uses for 1, 2, 3, 5, 8 threads (one leader per use; waits at every intermediate counter value; passes at the "
             "final one; a counter whose rest value grows is taken across 2^32). NOT decided: 'nobody passes early' over all interleavings "
             "(a fast thread re-entering while slow ones are still leaving)."),
    "note": TRUST,
}

CLAIMED["C07"] = {
    "technique": "finite order-type evaluation of the three termination writers over the CFG (conservation of the per-thread counter against the runtime's own not-terminated test) + must-follow path rule + truth-table over the vote guard's order atoms + who-may-broadcast / who-may-write tables",
    "text": ("Decided on every run: (1) for every ordering of (stored marker, event time) relative to the constants the code compares with — including "
             "timestamp 0 and SIMTIME_MAX — the counter of LPs still to end moves exactly with the marker's not-terminated status in init, forward "
             "event and rollback; a newly terminated LP records exactly the event time; a rollback at or before that time un-terminates, a later one "
             "does not; (2) each of the 3 do_rollback sites is followed on every path by the termination undo with the causing message's timestamp; "
             "(3) over all models of the vote guard's atoms a thread votes only if (counter == 0 and max time strictly below GVT) or GVT >= "
             "termination time; (4) the termination message is broadcast only under fetch_sub(thr_to_end) == 1 or by RootsimStop, the node counter "
             "has two writers, and the worker loop re-reads it atomically; (5) a vote is cast once (termination_on_gvt interpreted twice in a row). NOT decided: that the recorded predicate value was computed on a committed state."),
    "note": TRUST + " Valid event timestamps are taken to lie in [0, SIMTIME_MAX].",
}

CLAIMED["C03"] = {
    "technique": "path-condition relation analysis (order relations allowed on every CFG path to the reclaiming call), value-flow equality (returned frontier = loop bound = truncation amount), index-loop shape recogniser, ownership table by path conditions",
    "text": ("Decided on every run: on every path to the reclaiming calls the entry's timestamp is STRICTLY below the round's GVT (fossil scan and "
             "deferred message release), and the frontier variable is written only from the round's value; the freeing loop visits every index "
             "below the allocator's returned frontier exactly once, before the history is truncated by that same value; the allocator is told "
             "'newest committed index + 1'; local-sent entries are never freed by the LP that sent them. NOT decided: that the committed events "
             "equal, in order and content, a prefix of the sequential history — that is a fact about schedules and runtime values."),
    "note": TRUST,
}
CLAIMED["C04"] = {
    "technique": "CFG dominance (accumulate-before-use), order-type evaluation of the accumulator, fold-shape recogniser for the two peeks, atomic memory-order floors keyed by switch case, must-count path rules on MPI send/receive, elected-caller rule on RMW results",
    "text": ("Decided on every run: gvt_on_msg_extraction(msg->dest_t) dominates every later operation of process_msg and is a running minimum "
             "for all order types; both per-round minima fold a fresh msg_queue_time_peek() with the accumulator, which is reset only at round "
             "start; the five consumers run once per completed round under value != 0 with the single value gvt_phase_run returned; each MPI_Isend "
             "of a message buffer is dominated by the matching stamp-and-count helper for the same destination and each MPI_Mrecv is followed by "
             "exactly one receive count of the matching kind on every path; five memory-order floors on c_b / c_c; reclamation is strictly below "
             "GVT; both collectives are entered only on the equality side of an RMW-result test; the reduction across ranks is MPI_MIN over one "
             "MPI_DOUBLE per rank and the message count is MPI_SUM over one MPI_UINT32_T per rank, with the C types of the buffers, separate "
             "non-automatic buffers, and each *_done sibling testing the request its reduction started; for 1..8 threads the node-level minimum "
             "equals the smallest local minimum wherever it sits, and for 1..8 ranks the send counts are accumulated for every rank; the node-level "
             "bookkeeping balances (snapshot of the send counters covers every rank, +1 per thread and -(expected + threads) on the received counter, "
             "the elected thread waits for all, the last state resets both automata, successor states by enumerator value). NOT decided: monotonicity and safety of the "
             "computed value under all interleavings of the reduction with message traffic, nor its equality across ranks."),
    "note": TRUST + " Floors are derived from the plain data each counter publishes; relaxed counters have no floor.",
}
CLAIMED["C13"] = {
    "technique": "shape recognisers + path-condition relation analysis + value-flow equality over the checkpoint-log functions (unknown shapes are inconclusive)",
    "text": ("Decided on every run: in the checkpoint-log collection the scan can only stop at ref_i <= frontier, the returned value always mirrors "
             "logs[kept].ref_i, every kept entry is re-based by exactly that value, the log is truncated by the kept index and only older "
             "checkpoints are freed; the history side passes 'newest committed index + 1', scans strictly below GVT and truncates by the returned "
             "value; restore starts from the newest entry, can only stop at ref_i <= target, returns that entry's own ref_i, frees only newer "
             "entries and cuts the log right after it; the frontier scan reads a history element's timestamp only when the element is proven a processed message (both tag bits clear) or is the last one. NOT decided: the state actually obtained by a rollback after a collection."),
    "note": TRUST,
}

CLAIMED["C01"] = {
    "technique": "CFG dominance / must-pass path rules on the rollback pipeline, abstract walk over CFG paths with a tag-status domain for the rollback index, who-may-write table for the history, comparator-site recogniser",
    "text": ("The equivalence with the sequential execution is NOT decided: it ranges over models, configurations and interleavings and hinges on "
             "runtime values. Decided on every run are necessary structural conditions of the rollback machinery: do_rollback runs cancel -> "
             "restore -> coast forward in that order on every path with one unmodified index and coasts forward from the position the restore "
             "returned, re-dispatching the history entries' own fields; every index handed to do_rollback (5 producers) is 0 or one past an "
             "untagged history entry that is not the cancelled event itself (an abstract walk over all CFG paths; undoing one valid event too "
             "many is accepted as safe); the straggler matcher and test use the canonical order with the straggler as first operand; the history "
             "has six writers, the processed event is appended untagged after its handler and sent messages are recorded tagged; silent "
             "re-execution cannot emit."),
    "note": TRUST + " These are necessary, not sufficient, conditions of C01.",
}
CLAIMED["C05"] = {
    "technique": "path-condition rule (emission only with the silent flag clear), set/reset pairing on the CFG, sibling-agreement recogniser for checkpoint take/restore, per-writer conservation checks of the checkpoint-size account, edge-sensitive must-pass rule on the NULL edge of restore",
    "text": ("Decided on every run: every emission step of ScheduleNewEvent (allocation, remote send, queue insert, both history pushes) is "
             "reachable only with the thread-local silent flag clear, and silent_execution sets it before and resets it after the re-execution "
             "loop on every path; the generator state is allocated by rs_malloc/rs_calloc and reached through current_lp only; checkpoint take and "
             "restore copy the whole tree in opposite directions, walk the same tree (restore loads the saved one first), copy the same lengths to/"
             "from the advancing cursor and record/verify arena identity; arenas unknown to the restored checkpoint are re-initialised and charged "
             "their header on the NULL edge only; every writer of the checkpoint-size account conserves it and checkpoint_take allocates and "
             "records exactly that amount; rollback pipeline as in C01. NOT decided: byte equality of the restored state over operation histories, "
             "nor the buddy tree arithmetic."),
    "note": TRUST,
}

CLAIMED["C11"] = {
    "technique": "path-sensitive ownership typestate (use-after-release, double release) over all functions; exact interval evaluation with branch refinement for shift amounts; conservation checks of the checkpoint-size account; who-may-write table and linear-form comparison of send/receive size arithmetic; overflow-guard truth table; small-domain evaluation of the dynamic array's grow/shrink decisions at every macro expansion and operand-shape check of its memmoves",
    "text": ("Memory safety of the whole runtime is NOT decided (no sound whole-program analyser is available here). Decided on every run are the "
             "memory-safety clauses that are structural: no message buffer is dereferenced, passed on or released again after its release on any "
             "path of any function; every shift whose amount is an exact expression of bounded inputs (51 of 60 today; loop-variable amounts are "
             "listed as inconclusive) stays below its operand width for all inputs, including all 2^64 raw generator outputs; the checkpoint "
             "buffer account is conserved by all writers and checkpoint_take allocates exactly it; lp_msg.pl_size, which selects free-list vs "
             "free(), is written only by the allocator and the anti-message receive path with the allocated size, and the event receive buffer "
             "arithmetic is the inverse of the sender's; rs_calloc's size product is overflow-checked; at each of the 11 expansions of the dynamic "
             "array's grow step (history, checkpoint log, heaps, free lists, arenas) the decision, evaluated for all count <= capacity <= 12, leaves "
             "room for the element(s) written next and the block is reallocated to the updated capacity * sizeof(element); array_push checks before "
             "it stores; the memmoves of array_truncate_first (fossil collection) and array_add_at cover exactly the elements that move; the share of "
             "total_sent[] a thread zeroes stays inside the array for rank counts up to MAX_NODES; rs_realloc copies min(requested, old block) bytes "
             "and the old block size it is told is 1 << the order found by climbing the tree from the block; a history element is dereferenced "
             "(directly or by a callee) only when proven untagged or last; the serial loop does not use the event after releasing the heap's "
             "top (heap_min / heap_extract of one heap name the same element); a worker releases its LPs' histories and its queue only after a "
             "thread barrier that follows the main loop."),
    "note": TRUST + " Doubles are treated as reals in interval reasoning.",
}
CLAIMED["C12"] = {
    "technique": "effect-free-failure path rule (no mutating element can reach a return NULL), overflow-guard truth table, value-flow equality (zeroed length = requested size), dominance (copy before free, free only after success)",
    "text": ("Decided on every run: no store or mutating call can precede any return NULL of rs_malloc / rs_calloc / rs_realloc; zero-size requests and "
             "block orders above the arena size take such a path (the limit is compared with the arena's real size from the record layout); "
             "rs_calloc computes nmemb * size only when, in every model of its guard, the divisor is zero or the quotient test excludes overflow, "
             "zeroes exactly the requested length at the returned pointer on the non-NULL edge; rs_realloc copies min(requested, original) into "
             "the new block before freeing the old one and frees it only when the new allocation succeeded; rs_free(NULL) touches nothing; the "
             "buddy tree's bookkeeping on small order values: every node starts with order total - depth, the search goes right exactly when the "
             "left subtree cannot hold the request, every ancestor gets the larger of its children's values, freeing sets a parent to order + 1 "
             "only when both halves are wholly free, and the size reported for a freed block is 1 << its order; the requested size reaches the "
             "size-class computation at full width (no narrowing conversion of the size itself); a new arena is inserted into the sorted arena "
             "table at the index equal to the number of lower addresses (interpreted for 0..5 arenas). NOT "
             "decided: that blocks are inside allocator memory, aligned, disjoint and stable over whole operation histories (the rules above are "
             "the local steps such an argument would use, not the argument)."),
    "note": TRUST,
}
CLAIMED["C18"] = {
    "technique": "exact interval evaluation over the AST with reaching definitions, branch refinement (including rejection-loop exit conditions), loop-carried fixpoints, endpoint attainability tests; evaluation of two return expressions in IEEE double arithmetic at the extreme draws; effect analysis for generator isolation",
    "text": ("Decided on every run, for ALL generator states (the raw output ranges over [0, 2^64-1]): Random() returns 0.0 for the zero draw and "
             "otherwise assembles a bit pattern whose biased exponent is within 959..1022 and whose mantissa stays below 2^52, i.e. a value in "
             "(0,1); every shift amount in the library is below its operand width; floating divisors exclude 0, log arguments are strictly "
             "positive and sqrt arguments non-negative wherever the operands derive from the generator only (Normal, Gamma's small-ia branch, "
             "Gamma's v2/v1, Poisson), a violating endpoint being reported only when every test on the way admits it; Poisson() is finite and "
             ">= 0; RandomRange stays in [min,max] on representative argument pairs, both by the interval argument and evaluated in IEEE double "
             "arithmetic at the two extreme draws of Random(); a double is converted to an integer only behind an upper-bound test of it or when "
             "its value at the extreme draws (sampled arguments) is in the type's range; the library writes only locals and the calling LP's "
             "generator, has no static or file-scope mutable state, and draws only through RandomU64(). Operands that depend on caller-supplied "
             "arguments (Zipf, Gamma's large-ia rejection loop) are listed inconclusive. NOT decided: distribution quality and argument domains."),
    "note": TRUST + " In the interval argument doubles are treated as reals (rounding and underflow ignored); only the two double-arithmetic evaluations named above look at rounding.",
}

CLAIMED["C08"] = {
    "technique": "SPMD uniformity analysis by control dependence over the CFG (barriers vs thread-varying data), per-iteration must-pass path rules on the worker and drain loops, switch/table exhaustiveness, order-type conservation of the vote counter",
    "text": ("Decided on every run: none of the 7 thread-barrier call sites (nor any caller of a function containing one) is control-dependent on "
             "rid, a thread-local, a barrier's result or per-LP data, so every thread reaches every barrier the same number of times; the node "
             "barrier (3 sites) is entered only by the thread a thread barrier elected (or thread 0); every iteration of the worker loop runs "
             "mpi_remote_msg_handle and gvt_phase_run, both wait loops of gvt_msg_drain step the GVT automaton, the last also drains MPI, and "
             "the thread's open round is completed before the first shutdown barrier; control_msg_process and ctrl_msgs[] cover every control "
             "code with the right handler; LP_FINI is dispatched exactly once per LP; the counter votes depend on is conserved (C07.1); for 1..8 "
             "ranks the control-message broadcast sends one notice to every rank, and for 1..8 threads one worker is started per thread id and all are "
             "joined before the global finalisation; for 1..8 ranks x 1..8 threads the shares of total_sent[] the threads zero after a message "
             "count cover every rank's entry (a stale entry makes a rank wait forever); lp_global_init, interpreted for 1..12 LPs x 1..8 ranks, leaves no "
             "rank without a worker thread or refuses to start; exactly one thread of one rank opens GVT rounds, only when the previous round was "
             "acknowledged by every rank, and every rank sends its GVT_DONE notice to that rank; the node-level round bookkeeping balances (C04.11). NOT "
             "decided: liveness under all interleavings of the last vote or a stop request with an open GVT round, MPI progress, spin-loop bounds."),
    "note": TRUST,
}
CLAIMED["C10"] = {
    "technique": "per-iteration path rules on the serial main loop (dispatch -> exactly one extract+release), comparator-site recogniser on every heap operation, loop-range recognisers for LP_INIT/LP_FINI, dominance of the serial routing test, path-condition rule on the termination counter",
    "text": ("Decided on every run: the serial main loop dispatches heap_min(queue) and every path from the dispatch back to the loop head passes "
             "exactly one msg_allocator_free(heap_extract(queue, msg_is_before)), paths leaving the loop keep the event queued and the shutdown "
             "code releases every queued event; all 4 heap operations use the canonical comparator; LP_INIT (time 0) and LP_FINI are dispatched "
             "once for each LP of 0..lps, in the order init, run, fini; in serial mode ScheduleNewEvent hands its own arguments to the serial "
             "scheduler and returns before any parallel-path step, and the serial scheduler inserts every message it packs; an LP is counted "
             "down once, only while its marker is negative and its predicate holds; the loop stops on 'no LP pending' or 'termination time "
             "passed'. NOT decided: equality of the dispatch sequence with an independent executor."),
    "note": TRUST,
}
CLAIMED["C14"] = {
    "technique": "syntactic monotonicity calculus over every expansion of the routing macros, structural decoding of partition_start expansions (routing macro, partition id, loop thresholds), who-may-write on ownership bounds, loop-range recognisers",
    "text": ("Decided on every run: lid_to_nid and lid_to_rid are non-decreasing in the LP id at every one of their expansion sites (x - c, x * k, "
             "x / k with positive loop-invariant k; %, ^, & are definite violations); each ownership bound is a partition_start expansion over "
             "the routing macro of its level whose two search loops are the complementary thresholds (down while >=, up while <), the upper "
             "bound being the same expression for partition id + 1, so ranges are contiguous, disjoint and cover; the queue index, the "
             "local/remote decision with its destination rank and the remote anti-message destination are the routing macros applied to the "
             "message destination; lp_init and lp_fini iterate exactly [lid_thread_first, lid_thread_end) running the per-LP init/fini once; both "
             "ends of a partition are searched with the same (parts, start, total); a routing macro of another shape is evaluated on small "
             "numbers and a value outside 0..parts-1, or an end sentinel below parts, is a violation; the LP table holds n_lps_node entries and "
             "is shifted by the first hosted id after allocation and back before release; lp_global_init and the head of lp_init, interpreted for "
             "1..12 LPs x 1..4 ranks x 1..4 threads, give ranges that tile the identifier space, agree with the routing macros and leave no thread without an LP; the product "
             "inside a routing macro is 64 bits wide. NOT "
             "decided: overflow for identifier counts near 2^64 and configurations beyond the interpreted ones (12 LPs, 4 ranks, 4 threads)."),
    "note": TRUST + " Counts (n_nodes, n_threads, lps, n_lps_node) are assumed positive; lps == 0 is confirmed rejected by RootsimInit.",
}

CLAIMED["C19"] = {
    "technique": "effect analysis over the call graph of the topology queries (stores classified through pointer locals and parameters, propagated to the public entry points); switch exhaustiveness and sibling agreement; set comparison of implemented directions, IsNeighbor's loop range and the candidate arrays' initialisers; predicate abstraction of the grid arithmetic (both CountDirections and the per-geometry helper evaluated over the truth assignments of first/last column, first/last row, row parity); counted-loop range normalisation; path conditions",
    "text": ("Decided on every run: every function reachable from GetReceiver / CountDirections / IsNeighbor stores only to its locals (stores through "
             "pointer locals and parameters are followed to what they point to; one that reaches the shared topology or a file-scope array is a "
             "violation), keeps no static state and draws randomness only from the calling LP's generator, so the random choice is a function of that "
             "generator alone; the three queries handle all 8 geometries and GetReceiver / IsNeighbor use the same helper per geometry; the directions "
             "each grid helper implements are all tried by IsNeighbor's loop and are exactly the candidates (with the right count) offered to the "
             "random choice, which probes every one of them and leaves early only with a valid receiver; for hexagon, square and torus "
             "CountDirections equals the number of fixed directions with a valid receiver on all 24 attainable combinations of first/last column, "
             "first/last row and row parity (1xN, Nx1 and 1x1 maps are the combinations where first = last), every move is by one cell and "
             "validated against the map size; ring counts equal the directions their helper answers; star / mesh / graph counts are regions-1 | 1, "
             "regions-1 and the adjacency list's length; the star and mesh random draws are reached only when another region exists; a valid grid "
             "move returns y * width + x, torus coordinates are reduced modulo their own extent, ring answers modulo the number of regions, a star "
             "leaf gets the centre and the mesh draw excludes the asking region. NOT decided: the probabilities of the random choices."),
    "note": TRUST + " The abstraction assumes from < width*height and width, height >= 1 and < 2^32-1.",
}

CLAIMED["C20"] = {
    "technique": "cross-language agreement check (record layouts and write order from the C AST vs unpack formats, divisors and magic numbers from the Python parser's ast), exhaustiveness of the name table, bump/event pairing by dominance within one loop, must-use rule on gvt_phase_run's result",
    "text": ("Decided on every run: sizeof(struct stats_global) / stats_node / stats_thread equal the parser's calcsize formats, divisor and "
             "multiplier; the node record's field order matches 'dQ'; the magic constant and its byte swap are the two values the parser accepts; "
             "the fixed-size header records and the name records are written in the order they are read, with int64 size prefixes; every counter "
             "kind below STATS_COUNT has a name; each of the six event counters is bumped by 1 at exactly one site, paired (by dominance, within "
             "the same loop) with its event; counters are thread-local, written to the thread's file before being zeroed, after the "
             "auto-checkpoint reader; thread 0 alone writes the node record; the per-thread record is written whenever a statistics file was "
             "requested and the node record under the same condition by the thread elected with rid - nothing else (rank, GVT value, log level) "
             "decides either, by classical control dependence, and the node record carries the round's GVT; every loop over the per-thread temporary "
             "files visits every thread, the names loop writes as many names as announced, rank 0 collects from every other rank (headers evaluated "
             "for 1..8 threads / ranks) and each thread opens its own slot of the file table; every call site of gvt_phase_run forwards completed rounds to "
             "stats_on_gvt or lies after the shutdown barrier. NOT decided: truth of timing and memory figures."),
    "note": TRUST + " The Python parser is read with the standard ast module.",
}

CLAIMED["C02"] = {
    "technique": "record-layout facts (both struct layouts) for wire sizes and the anti prefix; finite-domain evaluation of the four identifier helpers through their CFGs over boundary (rank, thread, colour, sequence) values; must-count path rules on MPI send/receive; matcher key extraction; routing-site recognisers",
    "text": ("The equivalence with the sequential execution under arbitrary MPI delays and reordering is NOT decided: it is a property of network "
             "schedules. Decided on every run, in both struct layouts, for code the test suite never executes (it runs one rank): control / anti / "
             "event messages have strictly increasing sizes and the receive paths test exactly those; every lp_msg field the receive side reads is "
             "inside the transmitted anti prefix, initialised on the anti receive path, or guarded by pl_size = 0; every remote send is stamped "
             "and counted once for its destination and every receive counted once by the helper of its kind; through the four stamping helpers, "
             "for boundary ranks/threads (0, 1, MAX-2, MAX-1), both colours and extreme sequence numbers, the colour read is the colour written, "
             "the event and anti words differ exactly by ANTI, the word exceeds ANTI|PROCESSED (remote recognition), distinct senders get distinct "
             "words and counters move by one; both matchers compare (sender word, sequence number), give up only at the end of their list (nothing "
             "but the end-of-list and identity tests decides 'not found') and every remote event is checked against "
             "the early anti-messages before processing; cancelled remote buffers are released at GVT only; routing uses lid_to_nid; every MPI "
             "point-to-point call sends, sizes and receives bytes on MPI_COMM_WORLD, the polling receivers and the blocking data exchange use "
             "separate tags that their senders match, polling accepts any source, and MPI_THREAD_MULTIPLE is requested and tested; an event is sent as "
             "header + payload bytes for every payload size and the receiver derives the payload size by the inverse arithmetic."),
    "note": TRUST + " MPI's non-overtaking and progress guarantees are assumed, not checked.",
}

CLAIMED["C09"] = {
    "technique": "taint-style source/sink analysis over the AST: sources of the seeding (who flows into the generator state), uses of wall-clock / measured values (each use classified as statistics, log, performance state, or other), who-may-read tables for timing-derived state, control dependence of the checkpoint decision",
    "text": ("Equality of outcomes across configurations and repetitions is NOT decided (it compares runs). Decided on every run are the structural "
             "reasons it can hold: the initial generator state is a function of the LP identifier passed in, the configured seed and a constant "
             "key only (no rid, nid, thread-local, timer, address or call result), through a pure mixing function, and both callers pass the "
             "global LP identifier for that LP's own context; the state is allocated by the rollbackable allocator; every use of a timer or "
             "statistics reading (12+ sites) is a statistics update, a log, another timer call, or an update of / comparison with the designated "
             "performance state, which is read only by checkpoint-interval and GVT-initiation code, and the timing-derived checkpoint decision "
             "controls nothing but checkpoint_take; placement values never reach model callbacks; placement itself is the monotone routing of C14."),
    "note": TRUST + " Checkpoint timing and GVT initiation are assumed not to influence committed results (that is C01/C05).",
}

NOT_APPLICABLE = {}
