"""CFG utilities at element granularity on top of clang's CFG (as dumped by rsfacts).

Program points are (block id, element index).  Edges whose condition the compiler folds to a constant are pruned
here (the dumper keeps every edge).  A block that ends in a no-return call (abort, exit, __builtin_unreachable) has
no successors and is flagged `abort`; such exits are *not* function exits for path rules.
"""
from . import expr as X


class Block:
    __slots__ = ("id", "elems", "term", "termk", "cond", "succs", "preds", "label", "abort", "raw_succs")

    def __repr__(self):
        return "<B%d %d elems -> %s>" % (self.id, len(self.elems), self.succs)


class CFG:
    def __init__(self, fn):
        self.fn = fn
        g = fn.d.get("cfg")
        if not g:
            raise ValueError("no CFG for " + fn.name)
        self.blocks = {}
        for b in g["blocks"]:
            B = Block()
            B.id = b["id"]
            B.elems = [fn.nodes[i] for i in b["e"]]
            B.term = fn.nodes[b["term"]] if "term" in b else None
            B.termk = b.get("termk")
            B.cond = fn.nodes[b["cond"]] if "cond" in b else None
            # `if (a || b)`: clang ends the block that evaluates `b` with the IfStmt and reports the whole `a || b` as its
            # condition; the branch is decided by the last operand, the earlier ones have their own blocks.  When the
            # operands are themselves nested logical expressions clang instead builds a *join* block that re-tests the whole
            # value: there the condition stays the whole expression (consumers prune paths with eval3()).
            if B.cond is not None and B.termk in ("IfStmt", "WhileStmt", "ForStmt", "DoStmt", "ConditionalOperator"):
                c = B.cond
                last = B.elems[-1] if B.elems else None
                while True:
                    while c.k == "ParenExpr" and c.children:
                        c = c.children[0]
                    if c.k == "BinaryOperator" and c.op in ("&&", "||"):
                        rhs = c.children[1]
                        if last is not None and (last is rhs or last.is_inside(rhs) or rhs.is_inside(last)) and not (last is c or c.is_inside(last)):
                            c = rhs
                            continue
                    break
                B.cond = c
            B.label = fn.nodes[b["label"]] if "label" in b else None
            B.abort = bool(b.get("noreturn"))
            B.raw_succs = list(b["s"])
            B.succs = list(b["s"])
            B.preds = []
            self.blocks[B.id] = B
        self.entry = g["entry"]
        self.exit = g["exit"]
        for B in self.blocks.values():
            if B.abort:
                B.succs = []
                continue
            # prune edges of constant conditions (while(1), do{}while(0), ...)
            if B.cond is not None and len(B.succs) == 2 and B.termk != "SwitchStmt":
                v = X.const_int(B.cond)
                if v is not None:
                    B.succs = [B.succs[0], None] if v else [None, B.succs[1]]
        self._reachable()
        for B in self.blocks.values():
            for s in B.succs:
                if s is not None and s in self.blocks:
                    self.blocks[s].preds.append(B.id)
        self.pos = {}
        for B in self.blocks.values():
            for i, e in enumerate(B.elems):
                self.pos.setdefault(e.id, (B.id, i))
        self._dom = None
        self._pdom = None

    def _reachable(self):
        seen = set()
        st = [self.entry]
        while st:
            b = st.pop()
            if b in seen or b not in self.blocks:
                continue
            seen.add(b)
            for s in self.blocks[b].succs:
                if s is not None:
                    st.append(s)
        self.reachable = seen

    # ---------------------------------------------------------------------------------------------
    def position(self, node):
        """Program point of a node: its own element, else its first descendant that is an element, else the block
        it terminates."""
        if node.id in self.pos:
            return self.pos[node.id]
        for B in self.blocks.values():
            if B.term is node:
                return (B.id, len(B.elems))
        # last evaluated descendant is the most faithful point for compound expressions; use the *last* element
        best = None
        for d in node.walk():
            if d.id in self.pos:
                p = self.pos[d.id]
                if best is None:
                    best = p
        return best

    def succ_on(self, block_id, truth):
        B = self.blocks[block_id]
        if len(B.raw_succs) != 2:
            return None
        return B.succs[0 if truth else 1]

    def switch_targets(self, block_id):
        """For a block terminated by a switch: list of (case value | 'default' | None(after switch), succ block)."""
        B = self.blocks[block_id]
        out = []
        for s in B.succs:
            if s is None:
                continue
            L = self.blocks[s].label
            if L is not None and L.k == "CaseStmt":
                out.append((L.d.get("val"), s))
            elif L is not None and L.k == "DefaultStmt":
                out.append(("default", s))
            else:
                out.append((None, s))
        return out

    # ---------------------------------------------------------------------------------------------
    def escapes(self, start, barrier_ids, goal="exit", goal_ids=(), start_inclusive=False, through_abort=False):
        """Search a path from program point `start` (exclusive unless start_inclusive) that reaches the goal
        without passing any element whose node id is in barrier_ids.

        goal: 'exit' (normal function exit) and/or any element in goal_ids.  Returns a witness (list of
        (block, first line)) or None."""
        barrier_ids = set(barrier_ids)
        goal_ids = set(goal_ids)
        sb, si = start
        first = si if start_inclusive else si + 1
        seen = set()
        work = [(sb, first, [])]
        while work:
            b, i, path = work.pop()
            B = self.blocks[b]
            blocked = False
            found = False
            for j in range(i, len(B.elems)):
                eid = B.elems[j].id
                if eid in goal_ids:
                    found = True
                    break
                if eid in barrier_ids:
                    blocked = True
                    break
            lines = [e.line for e in B.elems[i:] if e.line]
            npath = path + [(b, lines[0] if lines else 0)]
            if found:
                return npath
            if blocked:
                continue
            if B.abort:
                if through_abort and goal == "exit":
                    return npath
                continue
            if b == self.exit:
                if goal == "exit":
                    return npath
                continue
            for s in B.succs:
                if s is None or s in seen:
                    continue
                seen.add(s)
                work.append((s, 0, npath))
        return None

    def entry_point(self):
        return (self.entry, -1)

    def edge_point(self, succ_block):
        return (succ_block, -1)

    # ---------------------------------------------------------------------------------------------
    def _compute_dom(self):
        ids = [b for b in self.blocks if b in self.reachable]
        allset = set(ids)
        dom = {b: set(allset) for b in ids}
        dom[self.entry] = {self.entry}
        changed = True
        order = self._rpo()
        while changed:
            changed = False
            for b in order:
                if b == self.entry:
                    continue
                preds = [p for p in self.blocks[b].preds if p in self.reachable]
                if preds:
                    new = set.intersection(*(dom[p] for p in preds)) | {b}
                else:
                    new = {b}
                if new != dom[b]:
                    dom[b] = new
                    changed = True
        self._dom = dom

    def _rpo(self):
        seen = set()
        out = []

        def dfs(b):
            seen.add(b)
            for s in self.blocks[b].succs:
                if s is not None and s not in seen and s in self.blocks:
                    dfs(s)
            out.append(b)
        import sys
        sys.setrecursionlimit(10000)
        dfs(self.entry)
        out.reverse()
        return out

    def block_dominates(self, a, b):
        if self._dom is None:
            self._compute_dom()
        return b in self._dom and a in self._dom[b]

    def dominates(self, na, nb):
        """Element-level dominance: every path from entry to nb passes na first."""
        pa, pb = self.position(na), self.position(nb)
        if pa is None or pb is None:
            return False
        if pa[0] == pb[0]:
            return pa[1] < pb[1]
        return self.block_dominates(pa[0], pb[0])

    def back_edges(self):
        out = []
        for b in self.reachable:
            for s in self.blocks[b].succs:
                if s is not None and self.block_dominates(s, b):
                    out.append((b, s))
        return out

    def loop_blocks(self, head):
        """Natural loop of all back edges into head."""
        body = {head}
        st = [b for (b, h) in self.back_edges() if h == head]
        while st:
            b = st.pop()
            if b in body:
                continue
            body.add(b)
            st.extend(p for p in self.blocks[b].preds if p in self.reachable)
        return body

    def loop_of_stmt(self, loop_stmt):
        """Blocks of the loop whose terminator statement is loop_stmt (While/For/Do)."""
        heads = set()
        for (b, h) in self.back_edges():
            heads.add(h)
        best = None
        for h in heads:
            body = self.loop_blocks(h)
            for b in body:
                if self.blocks[b].term is loop_stmt:
                    if best is None or len(body) < len(best[1]):
                        best = (h, body)
        return best

    def reachable_from(self, start, barrier_ids=()):
        """All element node ids reachable from a program point without crossing barriers."""
        barrier_ids = set(barrier_ids)
        sb, si = start
        out = set()
        seen = set()
        work = [(sb, si + 1)]
        while work:
            b, i = work.pop()
            B = self.blocks[b]
            blocked = False
            for j in range(i, len(B.elems)):
                eid = B.elems[j].id
                if eid in barrier_ids:
                    blocked = True
                    break
                out.add(eid)
            if blocked or B.abort:
                continue
            for s in B.succs:
                if s is not None and s not in seen:
                    seen.add(s)
                    work.append((s, 0))
        return out

    # ---------------------------------------------------------------------------------------------
    def controlling_conditions(self, node):
        """Branch conditions that control whether `node` executes: list of (cond_node, truth) such that the block
        of `node` is reachable from the branch only through that side... computed conservatively as: for each
        two-way branch block B, node's block is dominated by exactly one of B's successors (and that successor has
        B as only predecessor)."""
        p = self.position(node)
        if p is None:
            return []
        nb = p[0]
        out = []
        for B in self.blocks.values():
            if B.id not in self.reachable or B.cond is None or len(B.raw_succs) != 2 or B.termk == "SwitchStmt":
                continue
            t, f = B.succs[0], B.succs[1]
            for side, s, o in ((True, t, f), (False, f, t)):
                if s is None or s == o:
                    continue
                if self._edge_dominates(B.id, s, nb):
                    out.append((B.cond, side, B))
        return out

    def _edge_dominates(self, src, dst, target):
        """Does every path from entry to target pass through the edge src->dst?"""
        if target == dst and len([p for p in self.blocks[dst].preds if p in self.reachable]) == 1:
            return True
        # remove the edge and test reachability of target from entry
        seen = set()
        st = [self.entry]
        while st:
            b = st.pop()
            if b in seen:
                continue
            seen.add(b)
            if b == target:
                return False
            for s in self.blocks[b].succs:
                if s is None:
                    continue
                if b == src and s == dst:
                    continue
                st.append(s)
        return True

    def switch_case_of(self, node):
        """If node executes only under particular case labels of a switch in this function, return
        (switch_block, set(case values/'default'))."""
        p = self.position(node)
        if p is None:
            return None
        nb = p[0]
        for B in self.blocks.values():
            if B.termk != "SwitchStmt" or B.id not in self.reachable:
                continue
            tg = self.switch_targets(B.id)
            vals = set()
            for v, s in tg:
                if self._reaches_within(s, nb, stop=B.id):
                    vals.add(v)
            if vals and len(vals) < len(tg):
                return (B, vals)
        return None

    def _reaches_within(self, a, b, stop=None):
        seen = set()
        st = [a]
        while st:
            x = st.pop()
            if x in seen or x == stop:
                continue
            seen.add(x)
            if x == b:
                return True
            for s in self.blocks[x].succs:
                if s is not None:
                    st.append(s)
        return False


def witness_text(fn, w):
    if not w:
        return ""
    return " -> ".join("%s:%d" % (fn.file.split("/")[-1], l) for (b, l) in w if l)


def eval3(n, facts):
    """Three-valued truth of a condition given the truths of the atoms already decided on a path
    (facts: stripped-core node id -> bool)."""
    core, neg = X.strip_bool(n)
    if core is None:
        return None
    if core.id in facts:
        return facts[core.id] ^ neg
    if core.k == "BinaryOperator" and core.op == "&&":
        a, b = eval3(core.children[0], facts), eval3(core.children[1], facts)
        r = False if (a is False or b is False) else (True if (a is True and b is True) else None)
        return None if r is None else r ^ neg
    if core.k == "BinaryOperator" and core.op == "||":
        a, b = eval3(core.children[0], facts), eval3(core.children[1], facts)
        r = True if (a is True or b is True) else (False if (a is False and b is False) else None)
        return None if r is None else r ^ neg
    if core.k == "CallExpr" and core.callee == "__builtin_expect":
        v = eval3(core.children[1], facts)
        return None if v is None else v ^ neg
    c = X.const_int(core)
    if c is not None:
        return bool(c) ^ neg
    return None


def implied_atoms(n, truth, facts):
    """Decompose a decided condition into the atomic conditions it implies, given the truths already known on the path:
    (A || B) false => A false, B false;  (A || B) true with A known false => B true;  dually for &&."""
    core, neg = X.strip_bool(n)
    if core is None:
        return []
    t = truth ^ neg
    if core.k == "BinaryOperator" and core.op in ("&&", "||"):
        a, b = core.children
        if (core.op == "||" and not t) or (core.op == "&&" and t):
            return implied_atoms(a, t, facts) + implied_atoms(b, t, facts)
        va, vb = eval3(a, facts), eval3(b, facts)
        dead = (not t) if core.op == "&&" else t      # value an operand must have to decide the result alone
        # (A || B) true: if A is known false then B must be true
        if va is not None and va != dead:
            return implied_atoms(b, dead, facts)
        if vb is not None and vb != dead:
            return implied_atoms(a, dead, facts)
        return [(core, t)]
    if core.k == "CallExpr" and core.callee == "__builtin_expect":
        return implied_atoms(core.children[1], t, facts)
    return [(core, t)]
