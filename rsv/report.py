"""Obligation bookkeeping, evidence files, known findings, exit codes.

Every rule instance ends in exactly one of three verdicts:
  holds         the structural condition was established
  violated      a definite structural contradiction (alarm, exit 1 unless listed in known_findings.json)
  inconclusive  the recogniser did not understand the code (never an alarm; counted and listed)
A vanished anchor or an instance count below the hand-confirmed minimum raises AnalysisBroken (exit 2).
"""
import json
import os
import sys
import time

from .facts import VERIF, AnalysisBroken

EVID = os.path.join(VERIF, "evidence")
KNOWN = os.path.join(VERIF, "known_findings.json")


class Checker:
    def __init__(self, prop, tier="quick", seed=0):
        self.prop = prop
        self.tier = tier
        self.seed = seed
        self.t0 = time.time()
        self.obs = []          # dicts
        self.rules = {}        # rule id -> description
        self.assumptions = []
        self.meta = {}
        self.configs = []
        self.not_decided = ""
        self.selfcheck = []
        self.broken_notes = []

    def rule(self, rid, text):
        self.rules[rid] = text

    def assume(self, text):
        if text not in self.assumptions:
            self.assumptions.append(text)

    def _add(self, verdict, rule, instance, where, detail, config):
        self.obs.append({"rule": rule, "instance": instance, "verdict": verdict, "where": where, "detail": detail,
                         "config": config})

    def holds(self, rule, instance, where="", detail="", config="asbuilt"):
        self._add("holds", rule, instance, where, detail, config)

    def violated(self, rule, instance, where="", detail="", config="asbuilt"):
        self._add("violated", rule, instance, where, detail, config)

    def inconclusive(self, rule, instance, where="", detail="", config="asbuilt"):
        self._add("inconclusive", rule, instance, where, detail, config)

    def expect(self, rule, found, minimum, what):
        """Instance-count floor: a rule that matches fewer constructs than were confirmed by hand is broken."""
        if found < minimum:
            # deferred: a definite violation found in the same run takes precedence (the missing instances are usually
            # the very thing the violation is about); without one the run ends as "analysis broken" (exit 2)
            self.broken_notes.append("%s rule %s: found %d %s, at least %d were confirmed by reading; the rule no longer "
                                     "sees the code it is about" % (self.prop, rule, found, what, minimum))

    # ---------------------------------------------------------------------------------------------
    def finish(self):
        os.makedirs(os.path.join(EVID, "violations"), exist_ok=True)
        known = {}
        if os.path.exists(KNOWN):
            kf = json.load(open(KNOWN))
            for k in kf.get("known", []):
                if k["property"] == self.prop:
                    known[k["key"]] = k
        # de-duplicate violations over configurations
        viol = {}
        for o in self.obs:
            if o["verdict"] == "violated":
                key = "%s:%s" % (o["rule"], o["instance"])
                viol.setdefault(key, o)
        # remove stale violation files of this property
        vd = os.path.join(EVID, "violations")
        for f in os.listdir(vd):
            if f.startswith(self.prop + "-"):
                os.unlink(os.path.join(vd, f))
        n_new = 0
        lines = []
        for i, (key, o) in enumerate(sorted(viol.items())):
            rec = dict(o)
            rec["property"] = self.prop
            rec["key"] = key
            rec["rule_text"] = self.rules.get(o["rule"], "")
            if key in known:
                rec["known_finding"] = known[key]["what"]
                lines.append("KNOWN-FINDING: property=%s %s [%s at %s]" % (self.prop, known[key]["what"], key, o["where"]))
                continue
            n_new += 1
            path = os.path.join(vd, "%s-%d.json" % (self.prop, n_new))
            json.dump(rec, open(path, "w"), indent=1)
            lines.append("VIOLATION property=%s replay=%s" % (self.prop, path))
            lines.append("  rule %s (%s)\n  instance %s at %s\n  %s" % (o["rule"], self.rules.get(o["rule"], ""), o["instance"],
                                                                     o["where"], o["detail"]))
        n_h = sum(1 for o in self.obs if o["verdict"] == "holds")
        n_i = sum(1 for o in self.obs if o["verdict"] == "inconclusive")
        n_v = len(viol)
        distinct = len({(o["rule"], o["instance"]) for o in self.obs if o["where"]})
        samples = []
        seen_rules = set()
        for o in self.obs:
            if o["rule"] not in seen_rules or o["verdict"] != "holds":
                seen_rules.add(o["rule"])
                samples.append({k: o[k] for k in ("rule", "instance", "verdict", "where", "detail", "config")})
        samples = samples[:60]
        expl = ("Static analysis of /repo's current source (clang 14 AST + CFG via rsfacts; no code of ROOT-Sim/core is "
                "executed). Rules: " + "; ".join("%s = %s" % kv for kv in sorted(self.rules.items())) +
                ". NOT decided by this check: " + self.not_decided)
        ev = {
            "property_id": self.prop,
            "tier": self.tier,
            "seed": self.seed,
            "level": "other",
            "coverage": {
                "explanation": expl,
                "evaluations": len(self.obs),
                "distinct_nontrivial": distinct,
                "rule": "one evaluation per (rule, code instance, configuration); an instance is non-trivial when it is bound "
                        "to a concrete construct of the current tree (file:line); distinct = distinct (rule, instance) pairs",
                "obligations": len(self.obs),
                "discharged": n_h,
                "inconclusive": n_i,
                "violated": n_v,
                "known_findings_matched": n_v - n_new,
                "samples": samples,
                "rules": self.rules,
                "configurations": self.configs,
                "checker_cmd": "./check %s --tier %s" % (self.prop, self.tier),
                "trusted_base": ["clang 14 front end (AST, CFG, record layout, constant evaluator)", "rsfacts dumper",
                                 "rule tables in rsv/props (instances confirmed by reading, see DESIGN.md section 5)"],
                "exhaustive": False,
            },
            "assumptions": self.assumptions,
            "wall_s": round(time.time() - self.t0, 3),
            "violations": n_new,
        }
        ev["coverage"].update(self.meta)
        if self.selfcheck:
            ev["coverage"]["self_validation"] = self.selfcheck
        if self.broken_notes:
            ev["coverage"]["analysis_broken_notes"] = self.broken_notes
        if self.broken_notes and not n_new:
            raise AnalysisBroken(" | ".join(self.broken_notes))
        json.dump(ev, open(os.path.join(EVID, self.prop + ".json"), "w"), indent=1)
        for l in lines:
            print(l)
        for b in self.broken_notes:
            print("note (instance-count floor not met): " + b)
        print("%s [%s]: %d obligations: %d hold, %d inconclusive, %d violated (%d listed as known findings)" %
              (self.prop, self.tier, len(self.obs), n_h, n_i, n_v, n_v - n_new))
        return 1 if n_new else 0


def broken(prop, tier, seed, msg, t0):
    """Write an evidence file that says the analysis could not be carried out; exit code 2."""
    os.makedirs(EVID, exist_ok=True)
    ev = {"property_id": prop, "tier": tier, "seed": seed, "level": "other",
          "coverage": {"explanation": "ANALYSIS BROKEN (no verdict): " + msg, "evaluations": 1, "distinct_nontrivial": 0},
          "wall_s": round(time.time() - t0, 3), "violations": 0}
    json.dump(ev, open(os.path.join(EVID, prop + ".json"), "w"), indent=1)
    print("ANALYSIS-BROKEN property=%s: %s" % (prop, msg), file=sys.stderr)
    return 2
