"""Fossil collection and checkpoint-log rules (C03, C13; strict frontier shared with C04)."""
from . import expr as X
from . import query as Q
from . import typestate
from .cfg import witness_text

REL = {"<": {"<"}, "<=": {"<", "="}, ">": {">"}, ">=": {">", "="}, "==": {"="}, "!=": {"<", ">"}}
ALL = {"<", "=", ">"}
FLIP = {"<": ">", ">": "<", "=": "="}


class RelSet(set):
    """Set of order relations allowed on one path, plus the texts of the other conditions taken on it."""
    others = ()


def relation_on_paths(f, target, is_lhs, is_rhs, start_block=None):
    """For every CFG path to `target`: the set of order relations (lhs ? rhs) the branch conditions on the path allow.
    Returns list of RelSet (one per path); an entry is None when no comparison of that pair exists on the path."""
    paths, complete = Q.path_conditions(f, target, start_block=start_block)
    out = []
    for conds in paths:
        allowed = RelSet(ALL)
        others = []
        seen = False
        for core, t in conds:
            core = X.strip(core)
            if core.k != "BinaryOperator" or core.op not in REL:
                others.append((core, t))
                continue
            l, r = X.strip(core.children[0]), X.strip(core.children[1])
            if is_lhs(l) and is_rhs(r):
                rs = REL[core.op]
            elif is_lhs(r) and is_rhs(l):
                rs = {FLIP[x] for x in REL[core.op]}
            else:
                others.append((core, t))
                continue
            seen = True
            keep = rs if t else (ALL - rs)
            for x in list(allowed):
                if x not in keep:
                    allowed.discard(x)
        allowed.others = others
        out.append(allowed if seen else None)
    return out


def _index_guarded(relset, index_names):
    """Was this path taken through a guard on the scan index itself (a defensive bound such as `&& i`)?  Then the
    relation at the exit follows from an invariant of the data (entry 0 has position 0), which this rule does not know."""
    for core, t in relset.others:
        for x in core.walk():
            if x.k == "DeclRefExpr" and x.name in index_names:
                return True
    return False


def _gvt_names(f, P):
    """Variables of f that hold a GVT value: parameters named by the caller table, and locals copied from fossil_gvt_current."""
    names = set()
    for p in f.params:
        if "gvt" in p["name"]:
            names.add(p["name"])
    names.add("fossil_gvt_current")
    # locals copied (possibly in several steps) from one of those
    changed = True
    while changed:
        changed = False
        for n in f.walk():
            if n.k == "VarDecl" and n.children and n.name not in names:
                src = X.strip(n.children[0])
                if src.k == "DeclRefExpr" and src.name in names:
                    names.add(n.name)
                    changed = True
    return names


def check_strict_frontier(ck, P, rid):
    cfg = P.config
    # the value fossil_lp_collect compares with is the GVT handed to fossil_on_gvt
    fo = P.fn("fossil_on_gvt")
    st = [n for n in fo.walk() if n.k == "BinaryOperator" and n.op == "=" and X.show(n.children[0]) == "fossil_gvt_current"]
    if len(st) == 1 and X.show(st[0].children[1]) == fo.params[0]["name"]:
        ck.holds(rid, "frontier-source", st[0].where, "fossil_gvt_current = the GVT value of the round", cfg)
    else:
        ck.violated(rid, "frontier-source", fo.where, "fossil_gvt_current is not set to the GVT value handed to fossil_on_gvt (%s)" % [X.show(s) for s in st], cfg)
    for g, node, kind in Q.global_accesses(P, "fossil_gvt_current"):
        if kind != "read" and g.name != "fossil_on_gvt":
            ck.violated(rid, "frontier-writer:%s" % g.name, node.where, "%s writes the fossil frontier" % g.name, cfg)

    def is_ts(n):
        return n.k == "MemberExpr" and n.name == "dest_t" and n.rec == "lp_msg"

    for fname, tname in (("fossil_lp_collect", "model_allocator_fossil_lp_collect"), ("msg_allocator_on_gvt", "msg_allocator_free")):
        f = P.fn(fname)
        gv = _gvt_names(f, P)
        inst = "strict@%s" % fname
        tg = list(f.calls(tname))
        if not tg:
            ck.inconclusive(rid, inst, f.where, "no %s call" % tname, cfg)
            continue
        rels = relation_on_paths(f, tg[0], is_ts, lambda n: n.k == "DeclRefExpr" and n.name in gv)
        if not rels:
            ck.inconclusive(rid, inst, tg[0].where, "no path", cfg)
            continue
        if any(r is None for r in rels):
            ck.violated(rid, inst, tg[0].where, "a path reclaims without comparing the entry's timestamp with the GVT", cfg)
            continue
        bad = [r for r in rels if not r <= {"<"}]
        if bad:
            ck.violated(rid, inst, tg[0].where, "reclamation is reachable with timestamp %s GVT: an event AT the GVT can still be undone by a tie-broken straggler or anti-message" % "/".join(sorted(bad[0])), cfg)
        else:
            ck.holds(rid, inst, tg[0].where, "on all %d path(s) the reclaimed entry's timestamp is strictly below the GVT" % len(rels), cfg)


# --------------------------------------------------------------------------------------------------------------
def _defs_of(f, did):
    out = []
    for n in f.walk():
        if n.k == "VarDecl" and n.did == did and n.children:
            out.append(n)
        elif n.k in ("BinaryOperator", "CompoundAssignOperator") and (n.k == "CompoundAssignOperator" or n.op == "="):
            t = X.strip(n.children[0])
            if t.k == "DeclRefExpr" and t.did == did:
                out.append(n)
        elif n.k == "UnaryOperator" and n.op in ("++", "--"):
            t = X.strip(n.children[0])
            if t.k == "DeclRefExpr" and t.did == did:
                out.append(n)
    return out


def _only_def_reaching(f, defnode, use, did):
    """No other definition of the variable lies on a path from defnode to use."""
    g = f.cfg
    others = {d.id for d in _defs_of(f, did) if d is not defnode}
    reach = g.reachable_from(g.position(defnode), barrier_ids={use.id})
    return not (others & reach) and f.cfg.dominates(defnode, use)


def descending_full_loop(f, loop, bound_show):
    """Recognise index loops that visit every index below `bound` exactly once.  Returns (verdict, text):
    verdict True (covers [0,bound)), False (definitely misses / exceeds), None (unknown shape)."""
    cond = None
    if loop.k == "WhileStmt":
        kids = [c for c in loop.children if c.k != "Null"]
        cond = kids[0]
        core = X.strip(cond)
        if core.k == "UnaryOperator" and core.op == "--":
            v = X.strip(core.children[0])
            init = _last_assign_before(f, v, loop)
            if init is None:
                return None, "index initialisation not found"
            if X.show(init) != bound_show:
                return False, "loop starts at %s, not at %s" % (X.show(init), bound_show)
            if core.postfix:
                return True, "%s = %s; while(%s--): indexes %s-1 .. 0" % (v.name, bound_show, v.name, bound_show)
            return False, "while(--%s) stops before index 0: the oldest entry is never visited" % v.name
        if core.k == "BinaryOperator" and core.op == ">" and X.is_zero(core.children[1]):
            inner = X.strip(core.children[0])
            if inner.k == "UnaryOperator" and inner.op == "--" and inner.postfix:
                v = X.strip(inner.children[0])
                init = _last_assign_before(f, v, loop)
                if init is not None and X.show(init) == bound_show:
                    return True, "while(%s-- > 0)" % v.name
    if loop.k == "ForStmt":
        kids = loop.children
        init, cond, inc = kids[0], kids[2] if len(kids) > 2 else None, kids[3] if len(kids) > 3 else None
        core = X.strip(cond) if cond is not None and cond.k != "Null" else None
        if core is not None and core.k == "BinaryOperator" and core.op in ("<", "!=") and X.show(core.children[1]) == bound_show:
            v = X.strip(core.children[0])
            i0 = None
            for x in init.walk():
                if x.k == "VarDecl" and x.name == v.name and x.children:
                    i0 = x.children[0]
                if x.k == "BinaryOperator" and x.op == "=" and X.show(x.children[0]) == v.name:
                    i0 = x.children[1]
            incs = X.strip(inc) if inc is not None and inc.k != "Null" else None
            if i0 is not None and X.is_zero(i0) and incs is not None and incs.k == "UnaryOperator" and incs.op == "++":
                return True, "for(%s = 0; %s < %s; ++%s)" % (v.name, v.name, bound_show, v.name)
        if core is not None and core.k == "BinaryOperator" and core.op == "<=" and X.show(core.children[1]) == bound_show:
            return False, "loop bound <= %s visits one entry beyond the released range" % bound_show
    return None, "loop shape not recognised"


def _last_assign_before(f, var, stmt):
    """Value most recently assigned to a variable before a statement, when a unique dominating definition exists."""
    cands = []
    for d in _defs_of(f, var.did):
        if f.cfg.position(d) is not None and f.cfg.position(stmt.children[0]) is not None:
            if d.is_inside(stmt):
                continue
            cands.append(d)
    best = None
    for d in cands:
        first = next((x for x in stmt.walk() if x.id in f.cfg.pos), None)
        if first is not None and f.cfg.dominates(d, first):
            if best is None or f.cfg.dominates(best, d):
                best = d
    if best is None:
        return None
    if best.k == "VarDecl":
        return best.children[0]
    if best.k == "BinaryOperator":
        return best.children[1]
    return None


def check_release_equals_truncate(ck, P, rid):
    """fossil_lp_collect: what is released == what is truncated == what the allocator returned."""
    cfg = P.config
    f = P.fn("fossil_lp_collect")
    calls = list(f.calls("model_allocator_fossil_lp_collect"))
    inst = "released=truncated=returned@fossil_lp_collect"
    if len(calls) != 1:
        ck.inconclusive(rid, inst, f.where, "expected one call of model_allocator_fossil_lp_collect", cfg)
        return
    c = calls[0]
    kind, R = Q.result_var(c)
    if kind != "var":
        ck.violated(rid, inst, c.where, "the committed frontier returned by the allocator is not kept: history and checkpoints would be trimmed by different amounts", cfg)
        return
    rdef = c.parent
    while rdef is not None and rdef.k not in ("VarDecl", "BinaryOperator"):
        rdef = rdef.parent
    # truncation
    tr = [s for s in f.walk() if s.k == "StmtExpr" and s.macros and s.macros[0] == "array_truncate_first"]
    if len(tr) != 1:
        ck.violated(rid, inst + ":truncate", f.where, "the history is not truncated exactly once after fossil collection (%d array_truncate_first)" % len(tr), cfg)
        return
    sub = [s for s in tr[0].walk() if s.k == "CompoundAssignOperator" and s.op == "-=" and "count" in X.show(s.children[0])]
    if len(sub) != 1:
        ck.inconclusive(rid, inst + ":truncate", tr[0].where, "truncate macro not recognised", cfg)
        return
    amount = X.strip(sub[0].children[1])
    arr = X.show(sub[0].children[0])
    if "p_msgs" not in arr:
        ck.violated(rid, inst + ":truncate", tr[0].where, "the truncated array is %s, not the LP history" % arr, cfg)
        return
    if not (amount.k == "DeclRefExpr" and amount.did == R.did):
        ck.violated(rid, inst + ":truncate", tr[0].where, "the history is truncated by %s, not by the frontier `%s` the allocator returned: kept checkpoints' reference positions no longer match the history" % (X.show(amount), R.name), cfg)
        return
    if not _only_def_reaching(f, rdef, sub[0], R.did):
        ck.violated(rid, inst + ":truncate", tr[0].where, "`%s` is redefined between the allocator's answer and the truncation" % R.name, cfg)
        return
    # freeing loop
    frees = list(f.calls("msg_allocator_free"))
    loops = [l for l in f.walk() if l.k in ("WhileStmt", "ForStmt", "DoStmt") and not l.macros and any(fr.is_inside(l) for fr in frees)]
    loops = [l for l in loops if not any(o is not l and o.is_inside(l) and any(fr.is_inside(o) for fr in frees) for o in loops)]
    if len(loops) != 1:
        ck.inconclusive(rid, inst + ":loop", f.where, "freeing loop not recognised", cfg)
        return
    lp = loops[0]
    verdict, text = descending_full_loop(f, lp, R.name)
    if verdict is None:
        ck.inconclusive(rid, inst + ":loop", lp.where, text, cfg)
    elif verdict:
        # the loop must lie between the allocator call and the truncation (indexes are relative to the untruncated history)
        first = next((x for x in lp.walk() if x.id in f.cfg.pos), None)
        if first is not None and f.cfg.dominates(rdef, first) and f.cfg.dominates(first, sub[0]):
            ck.holds(rid, inst, lp.where, "%s; then array_truncate_first(p_msgs, %s); both use the value returned by the allocator" % (text, R.name), cfg)
        else:
            ck.violated(rid, inst + ":order", lp.where, "committed entries are released after the history was already truncated (indexes shifted)", cfg)
    else:
        ck.violated(rid, inst + ":loop", lp.where, text + ": a committed event is leaked or an uncommitted one released", cfg)
    # the loop indexes the history with its own index
    for fr in frees:
        pass


def check_frontier_argument(ck, P, rid):
    """fossil_lp_collect hands the allocator `scan index + 1`, i.e. the number of entries up to and including the newest
    committed processed event."""
    cfg = P.config
    f = P.fn("fossil_lp_collect")
    c = list(f.calls("model_allocator_fossil_lp_collect"))
    inst = "frontier-argument@fossil_lp_collect"
    if len(c) != 1:
        return
    a = X.strip(X.callee_args(c[0])[1])
    # scan index: the variable pre-decremented when history entries are loaded for the frontier test
    idx = None
    for n in f.walk():
        if n.k == "UnaryOperator" and n.op == "--" and not n.postfix:
            p = n.parent
            while p is not None and p.k in ("ParenExpr", "ImplicitCastExpr"):
                p = p.parent
            if p is not None and p.k == "ArraySubscriptExpr" and "p_msgs" in X.show(p):
                idx = X.strip(n.children[0])
    if idx is None:
        ck.inconclusive(rid, inst, c[0].where, "scan index not recognised", cfg)
        return
    if a.k == "BinaryOperator" and a.op == "+" and X.show(a.children[0]) == idx.name and X.const_int(a.children[1]) == 1:
        ck.holds(rid, inst, c[0].where, "model_allocator_fossil_lp_collect(mm, %s + 1): count of entries up to the newest committed one" % idx.name, cfg)
    elif a.k == "DeclRefExpr" and a.name == idx.name:
        ck.violated(rid, inst, c[0].where, "the allocator is told the frontier is %s (an index), not %s + 1 (a count): a checkpoint taken right after the newest committed event is considered in the future" % (idx.name, idx.name), cfg)
    elif a.k == "BinaryOperator" and a.op == "+" and X.show(a.children[0]) == idx.name and (X.const_int(a.children[1]) or 0) > 1:
        ck.violated(rid, inst, c[0].where, "the frontier %s lies beyond the newest committed event: a checkpoint of uncommitted state may be chosen and everything before it dropped" % X.show(a), cfg)
    else:
        ck.inconclusive(rid, inst, c[0].where, "frontier argument %s not recognised" % X.show(a), cfg)


# --------------------------------------------------------------------------------------------------------------
# checkpoint log (mm/buddy/multi.c)
# --------------------------------------------------------------------------------------------------------------
def _is_ref(n):
    return n.k == "MemberExpr" and n.name == "ref_i"


def _scan_indexes(f):
    """Names of local integer variables used to index the checkpoint log."""
    out = set()
    for n in f.walk():
        if n.k == "ArraySubscriptExpr" and "logs" in X.show(n.children[0]):
            for x in n.children[1].walk():
                if x.k == "DeclRefExpr" and x.d.get("sc") == "local":
                    out.add(x.name)
    return out


def check_log_collect(ck, P, rid):
    cfg = P.config
    f = P.fn("model_allocator_fossil_lp_collect")
    tgt = f.params[1]["name"]
    rets = [n for n in f.walk() if n.k == "ReturnStmt"]
    inst = "log-collect"
    if len(rets) != 1:
        ck.inconclusive(rid, inst, f.where, "expected a single return", cfg)
        return
    rv = X.strip(rets[0].children[0])
    if rv.k != "DeclRefExpr":
        ck.inconclusive(rid, inst, rets[0].where, "returned value is not a variable", cfg)
        return
    # (a) at the return, on every path: kept ref_i <= frontier
    rels = relation_on_paths(f, rets[0], lambda n: (n.k == "DeclRefExpr" and n.did == rv.did) or _is_ref(n), lambda n: n.k == "DeclRefExpr" and n.name == tgt)
    if not rels or any(r is None for r in rels):
        ck.violated(rid, inst + ":kept<=frontier", rets[0].where, "the kept checkpoint's position is not compared with the committed frontier on some path", cfg)
    elif any(not r <= {"<", "="} and _index_guarded(r, _scan_indexes(f)) for r in rels) and not any(not r <= {"<", "="} and not _index_guarded(r, _scan_indexes(f)) for r in rels):
        ck.inconclusive(rid, inst + ":kept<=frontier", rets[0].where, "the scan can also stop on a bound check of its index; whether the entry reached there is not after the frontier is a data invariant", cfg)
    elif any(not r <= {"<", "="} for r in rels):
        ck.violated(rid, inst + ":kept<=frontier", rets[0].where, "the scan can stop at a checkpoint taken AFTER the committed frontier: a rollback to the frontier has no checkpoint to start from", cfg)
    else:
        ck.holds(rid, inst + ":kept<=frontier", rets[0].where, "scan exits only with ref_i <= %s" % tgt, cfg)
    # (b) the variable returned always mirrors logs[log_i].ref_i for the current log_i
    idxs = set()
    ok = True
    for d in _defs_of(f, rv.did):
        src = X.strip(d.children[0] if d.k == "VarDecl" else d.children[1])
        if src.k == "MemberExpr" and src.name == "ref_i":
            b = X.strip(src.children[0])
            if b.k == "ArraySubscriptExpr" and "logs" in X.show(b.children[0]):
                idxs.add(X.show(b.children[1]))
                continue
        ok = False
    if not ok or len(idxs) != 1:
        ck.inconclusive(rid, inst + ":mirror", f.where, "returned variable is not maintained as logs[index].ref_i (%s)" % idxs, cfg)
        return
    kept = idxs.pop()
    kv = [n for n in f.walk() if n.k == "VarDecl" and n.name == kept]
    if not kv:
        ck.inconclusive(rid, inst + ":mirror", f.where, "kept index variable not found", cfg)
        return
    kept_did = kv[0].did
    g = f.cfg
    stale = False
    reloads = {d.id for d in _defs_of(f, rv.did)}
    for d in _defs_of(f, kept_did):
        if d.k == "VarDecl":
            continue
        # after changing the kept index, the mirror is reloaded before the loop condition / any exit
        uses = {n.id for n in f.walk() if n.k == "DeclRefExpr" and n.did == rv.did and not X.is_write_target(n)}
        w = g.escapes(g.position(d), reloads, goal="exit", goal_ids=uses)
        if w:
            stale = True
            ck.violated(rid, inst + ":mirror", d.where, "after `%s` the position `%s` is used without being reloaded from the log (%s)" % (X.show(d), rv.name, witness_text(f, w)), cfg)
    if not stale:
        ck.holds(rid, inst + ":mirror", kv[0].where, "`%s` == logs[%s].ref_i at every use" % (rv.name, kept), cfg)
    # (c) re-base amount == returned value, applied to every kept entry
    subs = [n for n in f.walk() if n.k == "CompoundAssignOperator" and n.op == "-=" and _is_ref(X.strip(n.children[0]))]
    if len(subs) != 1:
        ck.violated(rid, inst + ":rebase", f.where, "kept checkpoints are not re-based exactly once (%d subtractions from ref_i)" % len(subs), cfg)
    else:
        amt = X.strip(subs[0].children[1])
        if amt.k == "DeclRefExpr" and amt.did == rv.did:
            ck.holds(rid, inst + ":rebase", subs[0].where, "kept entries' ref_i -= %s, the value that is returned and by which the caller truncates the history" % rv.name, cfg)
        else:
            ck.violated(rid, inst + ":rebase", subs[0].where, "kept checkpoints are re-based by %s but the history is truncated by the returned `%s`: their reference positions drift" % (X.show(amt), rv.name), cfg)
        # loop covering [kept, count)
        lp = subs[0]
        while lp is not None and lp.k not in ("WhileStmt", "ForStmt", "DoStmt"):
            lp = lp.parent
        if lp is not None and lp.k == "WhileStmt":
            core = X.strip([c for c in lp.children if c.k != "Null"][0])
            if core.k == "BinaryOperator" and core.op == ">" and X.show(core.children[1]) == kept:
                j = X.strip(core.children[0])
                init = _last_assign_before(f, j, lp)
                body_dec = [n for n in lp.walk() if n.k == "UnaryOperator" and n.op == "--" and X.show(n.children[0]) == j.name]
                first_in_body = body_dec and f.cfg.dominates(body_dec[0], subs[0])
                if init is not None and "count" in X.show(init) and "logs" in X.show(init) and first_in_body:
                    ck.holds(rid, inst + ":rebase-range", lp.where, "%s = count; while(%s > %s) { --%s; ... }: every entry from the kept one to the newest" % (j.name, j.name, kept, j.name), cfg)
                else:
                    ck.inconclusive(rid, inst + ":rebase-range", lp.where, "re-base loop shape not recognised", cfg)
            elif core.k == "BinaryOperator" and core.op == ">=" and X.show(core.children[1]) == kept:
                ck.violated(rid, inst + ":rebase-range", lp.where, "the re-base loop also rewrites the entry below the kept one", cfg)
            else:
                ck.inconclusive(rid, inst + ":rebase-range", lp.where, "re-base loop shape not recognised", cfg)
    # (d) truncation of the log array by the kept index, and only entries below it are freed
    tr = [s for s in f.walk() if s.k == "StmtExpr" and s.macros and s.macros[0] == "array_truncate_first"]
    if len(tr) == 1:
        sub = [s for s in tr[0].walk() if s.k == "CompoundAssignOperator" and s.op == "-="]
        amount = X.show(sub[0].children[1]) if sub else "?"
        if amount == kept:
            ck.holds(rid, inst + ":truncate", tr[0].where, "array_truncate_first(logs, %s): the kept checkpoint becomes entry 0" % kept, cfg)
        else:
            ck.violated(rid, inst + ":truncate", tr[0].where, "the log is truncated by %s, not by the kept index %s: the kept checkpoint is dropped or freed ones stay listed" % (amount, kept), cfg)
    else:
        ck.violated(rid, inst + ":truncate", f.where, "the checkpoint log is not truncated exactly once", cfg)
    frees = list(f.calls("mm_free"))
    for fr in frees:
        lp = fr
        while lp is not None and lp.k not in ("WhileStmt", "ForStmt", "DoStmt"):
            lp = lp.parent
        a = X.strip(X.callee_args(fr)[0])
        idxn = None
        for x in a.walk():
            if x.k == "ArraySubscriptExpr":
                idxn = X.strip(x.children[1])
        if lp is None or idxn is None or lp.k != "WhileStmt":
            ck.inconclusive(rid, inst + ":free-range", fr.where, "free loop not recognised", cfg)
            continue
        core = X.strip([c for c in lp.children if c.k != "Null"][0])
        if core.k == "UnaryOperator" and core.op == "--" and core.postfix and X.show(core.children[0]) == X.show(idxn):
            # the index enters this loop equal to the kept index: it is the re-base loop's counter, not reassigned in between
            init = _last_assign_before(f, X.strip(core.children[0]), lp)
            defs_between = [d for d in _defs_of(f, X.strip(core.children[0]).did) if not d.is_inside(lp)]
            prev_loop_exit_at_kept = any(d.k == "UnaryOperator" and d.op == "--" for d in defs_between)
            # a definition of the index that is neither its initialisation nor the re-base loop's own decrement moves the start
            def _in_loop(d):
                q = d.parent
                while q is not None:
                    if q.k in ("WhileStmt", "ForStmt", "DoStmt"):
                        return True
                    q = q.parent
                return False
            stray = [d for d in defs_between if not _in_loop(d) and d.k != "VarDecl" and d.line > 0 and d.line <= lp.line and not (d.k == "BinaryOperator" and d.op == "=" and d.line < min([x.line for x in defs_between if _in_loop(x)] or [10 ** 9]))]
            if stray and any((d.k == "UnaryOperator" and d.op == "++") or (d.k == "CompoundAssignOperator" and d.op == "+=") for d in stray):
                ck.violated(rid, inst + ":free-range", stray[0].where, "the free loop starts above the kept index (`%s` after the re-base loop): the kept checkpoint itself is freed while the log still lists it" % X.show(stray[0]), cfg)
            elif stray:
                ck.inconclusive(rid, inst + ":free-range", stray[0].where, "the index is changed between the re-base loop and the free loop", cfg)
            elif prev_loop_exit_at_kept or (init is not None and X.show(init) == kept):
                ck.holds(rid, inst + ":free-range", fr.where, "while(%s--) free(logs[%s]) entered with %s == %s: only checkpoints older than the kept one are freed" % (X.show(idxn), X.show(idxn), X.show(idxn), kept), cfg)
            else:
                ck.inconclusive(rid, inst + ":free-range", fr.where, "start of the free loop not recognised", cfg)
        elif core.k == "UnaryOperator" and core.op == "--" and not core.postfix:
            ck.violated(rid, inst + ":free-range", fr.where, "while(--%s) never frees entry 0: the oldest checkpoint leaks at every collection" % X.show(idxn), cfg)
        else:
            ck.inconclusive(rid, inst + ":free-range", fr.where, "free loop condition not recognised", cfg)


def check_log_restore(ck, P, rid):
    cfg = P.config
    f = P.fn("model_allocator_checkpoint_restore")
    tgt = f.params[1]["name"]
    inst = "log-restore"
    rets = [n for n in f.walk() if n.k == "ReturnStmt"]
    if len(rets) != 1:
        ck.inconclusive(rid, inst, f.where, "expected a single return", cfg)
        return
    rv = X.strip(rets[0].children[0])
    # chosen index: the index of the log entry whose checkpoint is restored
    ck_load = None
    for n in f.walk():
        if n.k == "VarDecl" and n.children:
            src = X.strip(n.children[0])
            if src.k == "MemberExpr" and src.name == "c" and src.rec == "mm_log":
                ck_load = (n, X.strip(X.strip(src.children[0]).children[1]) if X.strip(src.children[0]).k == "ArraySubscriptExpr" else None)
    if ck_load is None or ck_load[1] is None:
        ck.inconclusive(rid, inst, f.where, "restored checkpoint not recognised", cfg)
        return
    chosen = X.show(ck_load[1])
    # (a) chosen entry has ref_i <= target on every path
    rels = relation_on_paths(f, ck_load[0], lambda n: _is_ref(n), lambda n: n.k == "DeclRefExpr" and n.name == tgt)
    if not rels or any(r is None for r in rels):
        ck.violated(rid, inst + ":chosen<=target", ck_load[0].where, "the checkpoint to restore is chosen without comparing its position with the rollback target", cfg)
    elif any(not r <= {"<", "="} and _index_guarded(r, _scan_indexes(f)) for r in rels) and not any(not r <= {"<", "="} and not _index_guarded(r, _scan_indexes(f)) for r in rels):
        ck.inconclusive(rid, inst + ":chosen<=target", ck_load[0].where, "the scan can also stop on a bound check of its index; whether the entry reached there is not after the target is a data invariant", cfg)
    elif any(not r <= {"<", "="} for r in rels):
        ck.violated(rid, inst + ":chosen<=target", ck_load[0].where, "a checkpoint taken AFTER the rollback target can be restored: undone events' effects survive the rollback", cfg)
    elif all(r <= {"<"} for r in rels):
        ck.violated(rid, inst + ":chosen<=target", ck_load[0].where, "the scan passes over a checkpoint taken exactly at the target position: a rollback to the position of the oldest kept "
                    "checkpoint (position 0 after every fossil collection) finds no entry to stop at and runs off the front of the log", cfg)
    else:
        ck.holds(rid, inst + ":chosen<=target", ck_load[0].where, "scan stops only at ref_i <= %s, starting from the newest entry" % tgt, cfg)
    # scan starts from the newest entry and walks down by one
    iv = [n for n in f.walk() if n.k == "VarDecl" and n.name == chosen]
    if iv and iv[0].children:
        init = X.show(iv[0].children[0])
        if "count" in init and "- 1" in init:
            ck.holds(rid, inst + ":newest-first", iv[0].where, "%s = %s" % (chosen, init), cfg)
        else:
            ck.violated(rid, inst + ":newest-first", iv[0].where, "the scan does not start at the newest checkpoint (%s): an older checkpoint than necessary, or a freed one, is chosen" % init, cfg)
    # (b) returned value = logs[chosen].ref_i
    if rv.k == "MemberExpr" and rv.name == "ref_i" and X.show(X.strip(X.strip(rv.children[0]).children[1])) == chosen:
        ck.holds(rid, inst + ":returns-chosen", rets[0].where, "returns logs[%s].ref_i, the history index the restored state corresponds to" % chosen, cfg)
    else:
        ck.violated(rid, inst + ":returns-chosen", rets[0].where, "returns %s instead of the restored checkpoint's own position: the coast-forward would start from the wrong event" % X.show(rv), cfg)
    # (c) only newer entries are freed, and the log is cut right after the chosen one
    for fr in f.calls("mm_free"):
        lp = fr
        while lp is not None and lp.k not in ("WhileStmt", "ForStmt", "DoStmt"):
            lp = lp.parent
        if lp is None or lp.k != "ForStmt":
            ck.inconclusive(rid, inst + ":free-newer", fr.where, "free loop not recognised", cfg)
            continue
        cond = X.strip(lp.children[2])
        fidx = None
        for x in X.callee_args(fr)[0].walk():
            if x.k == "ArraySubscriptExpr":
                fidx = X.show(x.children[1])
        lhs_is_index = cond.k == "BinaryOperator" and fidx is not None and X.show(cond.children[0]) == fidx
        lhs_plus_one = cond.k == "BinaryOperator" and fidx is not None and X.show(cond.children[0]) in ("(%s + 1)" % fidx, "(1 + %s)" % fidx)
        if lhs_is_index and cond.op == ">" and X.show(cond.children[1]) == chosen:
            ck.holds(rid, inst + ":free-newer", fr.where, "frees entries with index > %s only" % chosen, cfg)
        elif (lhs_is_index and cond.op == ">=" and X.show(cond.children[1]) == chosen) or (lhs_plus_one and cond.op == ">" and X.show(cond.children[1]) == chosen):
            ck.violated(rid, inst + ":free-newer", fr.where, "the restored checkpoint itself is freed but stays in the log: the next rollback restores freed memory", cfg)
        else:
            ck.inconclusive(rid, inst + ":free-newer", fr.where, "free loop bound %s not recognised" % X.show(cond), cfg)
    cuts = [n for n in f.walk() if n.k == "BinaryOperator" and n.op == "=" and "logs" in X.show(n.children[0]) and X.show(n.children[0]).endswith("count")]
    if len(cuts) == 1:
        v = X.strip(cuts[0].children[1])
        if v.k == "BinaryOperator" and v.op == "+" and X.show(v.children[0]) == chosen and X.const_int(v.children[1]) == 1:
            ck.holds(rid, inst + ":cut", cuts[0].where, "logs.count = %s + 1" % chosen, cfg)
        else:
            ck.violated(rid, inst + ":cut", cuts[0].where, "the log is cut to %s entries instead of %s + 1: freed checkpoints stay listed or the restored one is dropped" % (X.show(v), chosen), cfg)
    else:
        ck.violated(rid, inst + ":cut", f.where, "the checkpoint log is not cut after the restored entry", cfg)


def check_nonempty_before_last(ck, P, rid):
    """fossil_lp_collect reads the LAST element of the history to start its scan.  The history can legally be empty when a collection
    reaches the LP (a previous round reclaimed all of it, or a rollback emptied it and only anti-messages arrived since), so that read
    must be preceded on every path by a test that the history is not empty."""
    cfg = P.config
    f = P.fn("fossil_lp_collect")
    inst = "nonempty-before-last@fossil_lp_collect"
    loads = []
    for n in f.walk():
        if n.k != "ArraySubscriptExpr" or Q.unevaluated(n) or "p_msgs" not in X.show(n.children[0]):
            continue
        loads.append(n)
    if not loads:
        ck.inconclusive(rid, inst, f.where, "no read of the history recognised", cfg)
        return
    g = f.cfg
    first = [n for n in loads if g.position(n) is not None and not any(m is not n and g.position(m) is not None and g.dominates(m, n) for m in loads)]
    bad = None
    for n in first:
        paths, complete = Q.path_conditions(f, n)
        if not paths:
            paths = [[]]
        # variables that hold the element count (or count - k)
        holders = {}
        for v in f.walk():
            if v.k == "VarDecl" and v.children and any("array_count" in x.macros for x in v.children[0].walk()) and "p_msgs" in X.show(v.children[0]):
                holders[v.name] = v
        for conds in paths:
            proven = False
            for core, t in conds:
                c0 = X.strip(core)
                txt = X.show(c0)
                about_count = ("p_msgs" in txt and "count" in txt) or any(x.k == "DeclRefExpr" and x.name in holders for x in c0.walk())
                if not about_count:
                    continue
                # (count == 0) false, (!count) false, (count != 0) true, (count) true, (count > 0) true
                if c0.k == "BinaryOperator" and c0.op in ("==", "!=") and (X.is_zero(c0.children[1]) or X.is_zero(c0.children[0])):
                    proven = proven or ((c0.op == "!=") == t)
                elif c0.k == "BinaryOperator" and c0.op in (">", ">=") and X.const_int(c0.children[1]) in (0, 1):
                    proven = proven or (t and not (c0.op == ">=" and X.const_int(c0.children[1]) == 0))
                elif c0.k in ("DeclRefExpr", "MemberExpr"):
                    proven = proven or t
            if not proven and bad is None:
                bad = n
    if bad is not None:
        ck.violated(rid, inst, bad.where, "the history is read (`%s`) on a path that has not established that it is not empty: an LP whose history was reclaimed completely (or emptied by a rollback) reads the element before the array and scans from index 2^32 - 1" % X.show(bad)[:60], cfg)
    else:
        ck.holds(rid, inst, first[0].where if first else f.where, "the first read of the history is reached only when its element count was tested non-zero", cfg)
