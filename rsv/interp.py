"""Finite-domain evaluation of a function body over clang's CFG.

The environment maps canonical lvalue texts ("lp->termination_t", "lps_to_end", "term") to values; calls are
answered by stubs.  A branch whose condition cannot be evaluated forks.  Loops are bounded.  This is used to
enumerate the *order types* of a few inputs relative to the constants the code compares them with (a finite set),
never to execute ROOT-Sim/core: no memory, no pointers, no library code.
"""
from . import expr as X
from .ceval import _wrap

SIDE = ("CallExpr", "CompoundAssignOperator", "StmtExpr", "AtomicExpr")


class Outcome:
    def __init__(self, env, ret, calls, decided, how):
        self.env, self.ret, self.calls, self.decided, self.how = env, ret, calls, decided, how


class Interp:
    def __init__(self, fn, stubs=None, max_visits=3, atomic=None):
        self.fn = fn
        self.g = fn.cfg
        self.stubs = stubs or {}
        self.max_visits = max_visits
        self.atomic = atomic        # optional callback (interp, AtomicExpr node, state) -> value of the atomic operation

    # ---- lvalue keys
    def key(self, n, st):
        n = X.strip(n, casts=True)
        if n is None:
            return None
        if n.k == "DeclRefExpr":
            return n.name
        if n.k == "MemberExpr":
            b = self.key(n.children[0], st)
            if b is None:
                return None
            arrow = n.arrow
            inner = n.children[0]
            while inner is not None and inner.k in ("ParenExpr", "ImplicitCastExpr") and inner.children:
                inner = inner.children[0]
            if inner is not None and inner.k == "MemberExpr" and inner.d.get("name") == "":
                arrow = inner.arrow      # access through an anonymous struct/union member
            return "%s%s%s" % (b, "->" if arrow else ".", n.name)
        if n.k == "ArraySubscriptExpr":
            b = self.key(n.children[0], st)
            i = self.rv(n.children[1], st)
            if b is None or i is None:
                return None
            return "%s[%s]" % (b, i)
        if n.k == "UnaryOperator" and n.op == "*":
            b = self.key(n.children[0], st)
            return None if b is None else "*" + b
        return None

    # ---- rvalues
    def rv(self, n, st):
        env, memo = st["env"], st["memo"]
        if n is None:
            return None
        if n.id in memo:
            return memo[n.id]
        k = n.k
        ti = n.d.get("ti")
        if k in ("ParenExpr", "ConstantExpr", "ChooseExpr"):
            return self.rv(n.children[0], st)
        if k in ("ImplicitCastExpr", "CStyleCastExpr"):
            ck = n.ck
            if ck == "LValueToRValue":
                key = self.key(n.children[0], st)
                return env.get(key) if key is not None else None
            v = self.rv(n.children[0], st)
            if v is None:
                return None
            if ck in ("IntegralToBoolean", "PointerToBoolean", "FloatingToBoolean"):
                return 1 if v else 0
            if ck in ("IntegralToFloating",):
                return float(v)
            if ck in ("FloatingToIntegral",):
                return _wrap(int(v), ti)
            if isinstance(v, float):
                return v
            return _wrap(v, ti) if ti else v
        if k in ("IntegerLiteral", "CharacterLiteral"):
            v = n.d.get("val")
            return int(n.d["vals"]) if v is None and "vals" in n.d else v
        if k == "FloatingLiteral":
            return n.d.get("val")
        if k == "DeclRefExpr":
            if n.d.get("dk") == "enum":
                return n.d.get("val")
            return env.get(n.name)
        if k in ("MemberExpr", "ArraySubscriptExpr"):
            key = self.key(n, st)
            return env.get(key) if key is not None else None
        if k == "CallExpr" and n.callee == "__builtin_expect":
            return self.rv(n.children[1], st)
        if k in ("UnaryExprOrTypeTraitExpr", "OffsetOfExpr"):
            return n.d.get("cv")
        if k == "UnaryOperator":
            op = n.op
            if op in ("++", "--"):
                return memo.get(n.id)
            v = self.rv(n.children[0], st)
            if v is None:
                return None
            if op == "!":
                return 0 if v else 1
            if op == "-":
                return -v if isinstance(v, float) else _wrap(-v, ti)
            if op == "~":
                return _wrap(~v, ti)
            if op in ("+", "__extension__"):
                return v
            return None
        if k == "BinaryOperator":
            op = n.op
            if op == "=":
                return memo.get(n.id)
            if op == "&&":
                a = self.rv(n.children[0], st)
                if a is not None and not a:
                    return 0
                b = self.rv(n.children[1], st)
                if b is not None and not b:
                    return 0
                return None if (a is None or b is None) else 1
            if op == "||":
                a = self.rv(n.children[0], st)
                if a is not None and a:
                    return 1
                b = self.rv(n.children[1], st)
                if b is not None and b:
                    return 1
                return None if (a is None or b is None) else 0
            if op == ",":
                return self.rv(n.children[1], st)
            a, b = self.rv(n.children[0], st), self.rv(n.children[1], st)
            return binop(op, a, b, ti)
        if k == "ConditionalOperator":
            c = self.rv(n.children[0], st)
            if c is None:
                return None
            return self.rv(n.children[1] if c else n.children[2], st)
        if "cv" in n.d:
            return n.d["cv"]
        if "cvf" in n.d:
            return n.d["cvf"]
        return None

    # ---- one CFG element
    def step(self, e, st):
        env, memo = st["env"], st["memo"]
        k = e.k
        if k == "VarDecl":
            if e.d.get("sc") == "static_local" and e.name in env:
                return              # a function-static keeps the value the caller supplied
            env[e.name] = self.rv(e.children[0], st) if e.children else None
            return
        if k == "BinaryOperator" and e.op == "=":
            key = self.key(e.children[0], st)
            v = self.rv(e.children[1], st)
            lt = e.children[0].d.get("ti")
            if v is not None and lt and not isinstance(v, float):
                v = _wrap(v, lt)
            if v is not None and e.children[0].d.get("tf") and not isinstance(v, float):
                v = float(v)
            if key is not None:
                env[key] = v
            memo[e.id] = v
            return
        if k == "CompoundAssignOperator":
            key = self.key(e.children[0], st)
            cur = env.get(key) if key is not None else None
            v = self.rv(e.children[1], st)
            lt = e.children[0].d.get("ti")
            # the computation happens in the promoted type, then converts back to the lvalue's type
            r = binop(e.op[:-1], cur, v, (e.d.get("comp") or {}).get("ti"))
            if r is not None and lt and not isinstance(r, float):
                r = _wrap(r, lt)
            if key is not None:
                env[key] = r
            memo[e.id] = r
            return
        if k == "UnaryOperator" and e.op in ("++", "--"):
            key = self.key(e.children[0], st)
            cur = env.get(key) if key is not None else None
            new = None if cur is None else (cur + (1 if e.op == "++" else -1))
            lt = e.children[0].d.get("ti")
            if new is not None and lt and not isinstance(new, float):
                new = _wrap(new, lt)
            if key is not None:
                env[key] = new
            memo[e.id] = cur if e.postfix else new
            return
        if k == "CallExpr" and e.callee != "__builtin_expect":
            name = e.callee or X.show(e.children[0])
            args = [self.rv(a, st) for a in X.callee_args(e)]
            st["calls"].append((name, args, e))
            stub = self.stubs.get(name)
            memo[e.id] = stub(args, env) if stub else None
            return
        if k == "AtomicExpr":
            st["calls"].append((e.aop, [], e))
            memo[e.id] = self.atomic(self, e, st) if self.atomic else None
            return
        if k == "StmtExpr":
            body = e.children[0] if e.children else None
            last = body.children[-1] if body is not None and body.children else None
            memo[e.id] = self.rv(last, st) if last is not None else None
            return

    def run(self, env, start=None, stop=None):
        """`start`: a CFG element to begin at (instead of the function entry); `stop`: a set of node ids -- reaching any of them as
        a CFG element ends the path with outcome "stop" (the environment is the one just before that element)."""
        g = self.g
        out = []
        b0, i0 = g.entry, 0
        if start is not None:
            pos = g.position(start)
            if pos is None:
                return []
            b0, i0 = pos
        stop = set(stop or ())
        work = [(b0, {"env": dict(env), "memo": {}, "calls": [], "decided": True, "visits": {}, "ret": None, "from": i0})]
        steps = 0
        while work and steps < 20000:
            steps += 1
            b, st = work.pop()
            st["visits"][b] = st["visits"].get(b, 0) + 1
            if st["visits"][b] > self.max_visits:
                out.append(Outcome(st["env"], None, st["calls"], False, "loop-bound"))
                continue
            B = g.blocks[b]
            first = st.pop("from", 0)
            stopped = False
            for e in B.elems[first:]:
                if e.id in stop:
                    out.append(Outcome(st["env"], None, st["calls"], st["decided"], "stop"))
                    stopped = True
                    break
                self.step(e, st)
                if e.k == "ReturnStmt":
                    st["ret"] = self.rv(e.children[0], st) if e.children and e.children[0].k != "Null" else None
            if stopped:
                continue
            if B.abort:
                out.append(Outcome(st["env"], None, st["calls"], st["decided"], "abort"))
                continue
            succs = [s for s in B.succs if s is not None]
            if b == g.exit or not succs:
                out.append(Outcome(st["env"], st["ret"], st["calls"], st["decided"], "exit"))
                continue
            if B.cond is not None and len(B.raw_succs) == 2 and B.termk != "SwitchStmt":
                v = self.rv(B.cond, st)
                sides = [B.succs[0], B.succs[1]]
                if v is not None:
                    sides = [sides[0]] if v else [sides[1]]
                else:
                    st["decided"] = False
                sides = [s for s in sides if s is not None]
                for i, s in enumerate(sides):
                    work.append((s, st if i == len(sides) - 1 else _fork(st)))
            else:
                for i, s in enumerate(succs):
                    work.append((s, st if i == len(succs) - 1 else _fork(st)))
        return out


def _fork(st):
    return {"env": dict(st["env"]), "memo": dict(st["memo"]), "calls": list(st["calls"]), "decided": st["decided"],
            "visits": dict(st["visits"]), "ret": st["ret"]}        # "from" applies to the first block only


def binop(op, a, b, ti):
    if a is None or b is None:
        return None
    try:
        if op == "+":
            r = a + b
        elif op == "-":
            r = a - b
        elif op == "*":
            r = a * b
        elif op == "/":
            if b == 0:
                return None
            if isinstance(a, float) or isinstance(b, float):
                r = a / b
            else:
                r = (abs(a) // abs(b)) * (1 if (a >= 0) == (b >= 0) else -1)
        elif op == "%":
            if b == 0:
                return None
            r = abs(a) % abs(b) * (1 if a >= 0 else -1)
        elif op == "<<":
            if b < 0 or b > 63:
                return None
            r = a << b
        elif op == ">>":
            if b < 0 or b > 63:
                return None
            r = a >> b
        elif op == "&":
            r = a & b
        elif op == "|":
            r = a | b
        elif op == "^":
            r = a ^ b
        elif op == "<":
            return 1 if a < b else 0
        elif op == ">":
            return 1 if a > b else 0
        elif op == "<=":
            return 1 if a <= b else 0
        elif op == ">=":
            return 1 if a >= b else 0
        elif op == "==":
            return 1 if a == b else 0
        elif op == "!=":
            return 1 if a != b else 0
        else:
            return None
    except TypeError:
        return None
    if isinstance(r, float):
        return r
    return _wrap(r, ti) if ti else r


def order_points(constants):
    """Representatives of every region the given constants cut the real line into: each constant itself and two
    points strictly inside each open interval (so that two independent inputs can be ordered both ways there)."""
    cs = sorted(set(float(c) for c in constants))
    pts = []
    lo = cs[0] - 8.0
    prev = None
    for c in cs:
        a = lo if prev is None else prev
        w = c - a
        if w > 0:
            pts.extend([a + w / 3.0, a + 2.0 * w / 3.0])
        pts.append(c)
        prev = c
    return pts
