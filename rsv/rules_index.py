"""C01.2 — the index handed to do_rollback.

History layout: [sends of e1 (tagged)..., e1 (untagged), sends of e2..., e2, ...].  do_rollback(i) cancels/undoes
everything from index i on, so i must be 0 or ONE PAST an untagged ("past") entry that remains valid.  An index one
past a tagged entry, or past an entry never tested, leaves sends of an undone event uncancelled or undoes too
little; an index AT an untagged entry re-queues that event without cancelling the messages it sent (they precede
it), so it is delivered and its sends duplicated (seeded change C06/3 showed this; an earlier version of this rule
wrongly accepted it as a harmless over-rollback).

Abstract walk along CFG paths (each block at most twice): for the index variable V we track whether it is known to
be zero, and the tag status of the entry most recently loaded at V since V last changed.
"""
from . import expr as X
from . import query as Q
from . import rules_cmp
from .cfg import eval3, implied_atoms


def ordered_paths(f, target, limit=6000, max_visits=2, revisit=False):
    """Paths from entry to the element `target` as sequences of ('e', node) / ('c', core, truth)."""
    g = f.cfg
    pos = g.position(target)
    if pos is None:
        return [], False
    tb, ti = pos
    out = []
    complete = [True]

    def rec(b, seq, visits):
        if len(out) >= limit:
            complete[0] = False
            return
        B = g.blocks[b]
        if b == tb:
            out.append(seq + [("e", e) for e in B.elems[:ti + 1]])
            # a loop may pass through the target block again; by default paths continuing past the target are not needed
            if not revisit:
                return
        seq = seq + [("e", e) for e in B.elems]
        if B.abort:
            return
        two = B.cond is not None and len(B.raw_succs) == 2 and B.termk != "SwitchStmt"
        known = None
        if two:
            # truths decided since the operands were last evaluated (later decisions override earlier loop iterations)
            facts = {}
            for ev in seq:
                if ev[0] == "c":
                    facts[ev[1].id] = ev[2]
            known = eval3(B.cond, facts)
        for i, s in enumerate(B.succs):
            if s is None or visits.get(s, 0) >= max_visits:
                continue
            v2 = dict(visits)
            v2[s] = v2.get(s, 0) + 1
            if two:
                if known is not None and known != (i == 0):
                    continue
                core, neg = X.strip_bool(B.cond)
                extra = [("c", c0, t0) for (c0, t0) in implied_atoms(B.cond, i == 0, facts) if c0.id != core.id]
                rec(s, seq + [("c", core, (i == 0) ^ neg)] + extra, v2)
            else:
                rec(s, seq, v2)

    rec(g.entry, [], {g.entry: 1})
    return out, complete[0]


def _tag_test_var(core):
    """(entry variable did, mask) when core is ((uintptr_t)var & mask)."""
    core = X.strip(core)
    if core is None or core.k != "BinaryOperator" or core.op != "&":
        return None
    m = X.const_int(core.children[1])
    l = X.strip(core.children[0])
    while l is not None and l.k in ("CStyleCastExpr", "ImplicitCastExpr", "ParenExpr"):
        l = X.strip(l.children[0])
    if l is not None and l.k == "DeclRefExpr" and m in (1, 2, 3):
        return l.did, m
    return None


def _analyse_sink(f, sink_expr, sink_node, hist_hint="p_msgs"):
    """Returns list of (verdict, text) per path: verdict in ok / over / under / unknown."""
    e = X.strip(sink_expr)
    if X.const_int(e) == 0:
        return [("ok", "constant 0")]
    plus = 0
    v = e
    if e.k == "BinaryOperator" and e.op == "+" and X.const_int(e.children[1]) is not None:
        plus = X.const_int(e.children[1])
        v = X.strip(e.children[0])
    if v.k != "DeclRefExpr":
        return [("unknown", "index expression %s not recognised" % X.show(e))]
    vd = v.did
    paths, complete = ordered_paths(f, sink_node)
    res = []
    for seq in paths:
        zero = False
        nonzero = False        # V known > 0 since it last changed
        unguarded = None       # a read at index V - 1 without V > 0 established
        target = False         # the entry at V is the one being cancelled (identified by an equality match), i.e. NOT valid
        status = "unknown"     # tag status of the entry at index V
        bound = None           # did of the variable holding the entry loaded at V
        offset = 0             # V == (index of that entry) + offset
        for ev in seq:
            if ev[0] == "e":
                n = ev[1]
                # modifications of V
                if n.k == "UnaryOperator" and n.op in ("--", "++") and X.strip(n.children[0]).k == "DeclRefExpr" and X.strip(n.children[0]).did == vd:
                    p = n.parent
                    while p is not None and p.k in ("ParenExpr", "ImplicitCastExpr"):
                        p = p.parent
                    in_subscript = p is not None and p.k == "ArraySubscriptExpr"
                    if n.op == "--" or (n.op == "++" and in_subscript):
                        # V moves to another entry; its status is unknown until tested
                        target = False
                        nonzero = False
                        if in_subscript and not n.postfix:
                            bound, status, offset, zero = "pending", "unknown", 0, False
                        else:
                            bound, status, offset, zero = None, "unknown", 0, False
                    else:
                        # plain V++ : V now points one past the entry it was at
                        offset += 1
                        zero = False
                elif n.k in ("BinaryOperator", "CompoundAssignOperator") and (n.k == "CompoundAssignOperator" or n.op == "=") and \
                        X.strip(n.children[0]).k == "DeclRefExpr" and X.strip(n.children[0]).did == vd:
                    bound, status, offset, zero = None, "unknown", 0, X.const_int(n.children[1]) == 0 and n.op == "="
                elif n.k == "VarDecl" and n.did == vd:
                    bound, status, offset, zero = None, "unknown", 0, bool(n.children) and X.const_int(n.children[0]) == 0
                # loads of the entry at V:  X = items[V] / items[--V]
                tgt = None
                if n.k == "VarDecl" and n.children:
                    tgt, rhs = n.did, n.children[0]
                elif n.k == "BinaryOperator" and n.op == "=" and X.strip(n.children[0]).k == "DeclRefExpr":
                    tgt, rhs = X.strip(n.children[0]).did, n.children[1]
                if tgt is not None and tgt != vd:
                    r = X.strip(rhs)
                    if r.k == "ArraySubscriptExpr" and hist_hint in X.show(r.children[0]):
                        idx = X.strip(r.children[1])
                        if idx.k == "UnaryOperator" and idx.op in ("--", "++"):
                            idx = X.strip(idx.children[0])
                        if idx.k == "DeclRefExpr" and idx.did == vd:
                            bound, status, offset = tgt, "unknown", 0
                    elif tgt == bound:
                        bound = None
            else:
                core, truth = ev[1], ev[2]
                # V known zero
                c = X.strip(core)
                if c.k == "DeclRefExpr" and c.did == vd:
                    zero = (truth is False)
                    if truth:
                        zero = False
                        nonzero = True
                # identity match of the loaded entry with the message being cancelled
                if c.k == "BinaryOperator" and ((c.op == "!=" and truth is False) or (c.op == "==" and truth is True)) and bound not in (None, "pending"):
                    for side in c.children:
                        sd = X.strip(side)
                        base = sd
                        while base is not None and base.k == "MemberExpr":
                            base = X.strip(base.children[0])
                        ident = sd.k == "DeclRefExpr" or (sd.k == "MemberExpr" and sd.name in ("raw_flags", "flags", "m_seq"))
                        if ident and base is not None and base.k == "DeclRefExpr" and base.did == bound:
                            target = True
                            if sd.k == "DeclRefExpr":
                                status = "past"      # equal to a real (untagged) message pointer
                # tag test applied directly to the array element:  is_msg_sent(items[--V]) / is_msg_past(items[V])
                cc = X.strip(core)
                if cc.k == "BinaryOperator" and cc.op == "&" and X.const_int(cc.children[1]) in (1, 2, 3):
                    el = X.strip(cc.children[0])
                    while el is not None and el.k in ("CStyleCastExpr", "ImplicitCastExpr", "ParenExpr"):
                        el = X.strip(el.children[0])
                    if el is not None and el.k == "ArraySubscriptExpr" and hist_hint in X.show(el.children[0]):
                        ix = X.strip(el.children[1])
                        minus_one = False
                        if ix.k == "UnaryOperator" and ix.op in ("--", "++"):
                            ix = X.strip(ix.children[0])
                        elif ix.k == "BinaryOperator" and ix.op == "-" and X.const_int(ix.children[1]) == 1:
                            ix = X.strip(ix.children[0])
                            minus_one = True
                        if ix.k == "DeclRefExpr" and ix.did == vd and minus_one:
                            # entry at V - 1: V is one past it
                            if not nonzero and unguarded is None:
                                unguarded = cc
                            mask = X.const_int(cc.children[1])
                            bound, offset, target = "direct", 1, False
                            status = ("sent" if truth else "past") if mask == 3 else ("sent" if truth else "unknown")
                        elif ix.k == "DeclRefExpr" and ix.did == vd:
                            mask = X.const_int(cc.children[1])
                            bound, offset, target = "direct", 0, False
                            if mask == 3:
                                status = "sent" if truth else "past"
                            elif truth:
                                status = "sent"
                            else:
                                status = "unknown"
                tt = _tag_test_var(core)
                if tt is not None and bound is not None and tt[0] == bound:
                    mask = tt[1]
                    if mask == 3:
                        status = "sent" if truth else "past"
                    elif truth:
                        status = "sent"
        # verdict for this path
        if zero and plus == 0 and offset == 0:
            res.append(("ok", "index known to be 0"))
            continue
        eff = plus + offset
        if unguarded is not None:
            res.append(("under", "computed by reading the history at index %s - 1 without %s > 0 being established: when no earlier processed entry is left (after a fossil collection) the index wraps around" % (v.name, v.name)))
        elif target:
            res.append(("under", "%s the cancelled event itself: the messages that event sent precede it in the history and are not cancelled" % ("at" if eff == 0 else "past")))
        elif status == "past" and eff == 1:
            res.append(("ok", "one past an entry tested untagged"))
        elif status == "past" and eff == 0:
            res.append(("under", "AT a processed entry: that event is re-queued while the messages it sent, which precede it in the history, are not cancelled"))
        elif eff >= 1 and status in ("sent", "unknown"):
            res.append(("under", "one past an entry that is %s" % ("tagged as a sent message" if status == "sent" else "never tested for its tag")))
        elif eff >= 2:
            res.append(("under", "%d past the tested entry" % eff))
        else:
            res.append(("unknown", "index shape not understood on a path (status %s, offset %d)" % (status, eff)))
    if not paths:
        res.append(("unknown", "no path"))
    return res


def check_rollback_index(ck, P, rid):
    cfg = P.config
    f = P.fn("process_msg")
    sinks = []
    for c in P.callers("do_rollback"):
        fn = c.fn
        arg = X.strip(X.callee_args(c)[1])
        if arg.k == "DeclRefExpr":
            # value produced by a matcher?
            prod = None
            for n in fn.walk():
                if n.k == "VarDecl" and n.did == arg.did and n.children:
                    r = X.strip(n.children[0])
                    if r.k == "CallExpr" and r.callee:
                        prod = r.callee
            if prod:
                pf = P.fn_opt(prod)
                if pf is not None:
                    for rt in pf.walk():
                        if rt.k == "ReturnStmt" and rt.children:
                            sinks.append((pf, rt.children[0], rt, "%s (for %s)" % (prod, fn.name)))
                    continue
        sinks.append((fn, X.callee_args(c)[1], c, fn.name))
    n = 0
    for fn, expr, node, label in sinks:
        n += 1
        inst = "index@%s:%s" % (fn.name, X.show(expr))
        res = _analyse_sink(fn, expr, node)
        kinds = {r[0] for r in res}
        if "under" in kinds:
            why = next(r[1] for r in res if r[0] == "under")
            ck.violated(rid, inst, node.where, "%s can hand do_rollback an index that is %s: sends of an undone event stay uncancelled / too little is undone" % (label, why), cfg)
        elif "unknown" in kinds:
            why = next(r[1] for r in res if r[0] == "unknown")
            ck.inconclusive(rid, inst, node.where, why, cfg)
        else:
            ck.holds(rid, inst, node.where, "%d path(s): %s" % (len(res), "; ".join(sorted({r[1] for r in res}))), cfg)
    ck.expect(rid, n, 5, "rollback index producers (return statements / direct arguments)")
    # straggler matcher: the loop skips exactly the entries the straggler is before
    ms = P.fn("match_straggler_msg")
    sname = ms.params[1]["name"]
    tops = X.expansions(ms.root, "msg_is_before")
    inst = "straggler-order@match_straggler_msg"
    if len(tops) != 1:
        ck.inconclusive(rid, inst, ms.where, "expected one comparator expansion in the straggler matcher", cfg)
    else:
        r = rules_cmp.recognise_top(tops[0], P)
        if isinstance(r, dict) and r["a"] == sname:
            # and the scan continues while the comparator is true: where control goes when the comparator as a whole is true / false
            verdict = _comparator_exits(ms, tops[0])
            if verdict is None:
                ck.inconclusive(rid, inst, tops[0].where, "where the scan goes after the comparator could not be determined", cfg)
            elif verdict:
                ck.holds(rid, inst, tops[0].where, "scan continues while msg_is_before(%s, entry): stops at the newest entry not after the straggler" % sname, cfg)
            else:
                ck.violated(rid, inst, tops[0].where, "the scan does not continue over the entries the straggler precedes", cfg)
        elif isinstance(r, dict):
            ck.violated(rid, inst, tops[0].where, "the matcher tests msg_is_before(%s, %s): operands reversed, it stops at the wrong entry" % (r["a"], r["b"]), cfg)
        else:
            ck.inconclusive(rid, inst, tops[0].where, str(r), cfg)
    # straggler detection in process_msg guards the rollback with the same order
    pm = P.fn("process_msg")
    hs = list(pm.calls("handle_straggler_msg"))
    if len(hs) == 1:
        tops = X.expansions(pm.root, "msg_is_before")
        good = [t for t in tops if isinstance(rules_cmp.recognise_top(t, P), dict)]
        ok = False
        for t in good:
            r = rules_cmp.recognise_top(t, P)
            if "p_msgs" in r["b"] and "count" in r["b"]:
                ok = True
                ck.holds(rid, "straggler-test@process_msg", t.where, "straggler iff msg_is_before(%s, newest history entry)" % r["a"], cfg)
        if not ok:
            ck.violated(rid, "straggler-test@process_msg", hs[0].where, "the straggler test is not 'extracted message is before the newest history entry' under the canonical order", cfg)


def _comparator_exits(f, top):
    """True when, in the flow graph, a TRUE comparator leads to the next history load (or to the function's early exit) before any
    later return, and a FALSE comparator can reach a return without another load; False when the roles are reversed or a true
    comparator can leave the scan; None when undetermined."""
    g = f.cfg
    # the outermost logical expression the comparator is an operand of
    outer = top
    while outer.parent is not None and (outer.parent.k in ("ParenExpr", "ImplicitCastExpr", "CStyleCastExpr") or
                                        (outer.parent.k == "UnaryOperator" and outer.parent.op == "!") or
                                        (outer.parent.k == "BinaryOperator" and outer.parent.op in ("&&", "||")) or
                                        (outer.parent.k == "CallExpr" and outer.parent.callee == "__builtin_expect")):
        outer = outer.parent
    inside = {x.id for x in outer.walk()}

    def related(B):
        if B.cond is None or len(B.raw_succs) != 2 or B.termk == "SwitchStmt":
            return False
        core = X.strip_bool(B.cond)[0]
        return core is not None and (core.id in inside or any(x.id == top.id for x in B.cond.walk()))
    rblocks = [b_ for b_, B in g.blocks.items() if related(B)]
    if not rblocks:
        return None
    succ_of = set()
    for b_ in rblocks:
        succ_of.update(s_ for s_ in g.blocks[b_].succs if s_ is not None)
    firsts = [b_ for b_ in rblocks if b_ not in succ_of]
    if len(firsts) != 1:
        # blocks of the chain can be separated by blocks without a condition: take the block every other one is reached through
        def reach_avoiding(avoid, target):
            seen_, todo = set(), [g.entry]
            while todo:
                x = todo.pop()
                if x == avoid or x in seen_:
                    continue
                if x == target:
                    return True
                seen_.add(x)
                todo.extend(s_ for s_ in g.blocks[x].succs if s_ is not None)
            return False
        firsts = [b_ for b_ in rblocks if all(o == b_ or not reach_avoiding(b_, o) for o in rblocks)]
        if not firsts:
            return None
    loads = {n.id for n in f.walk() if (n.k == "BinaryOperator" and n.op == "=" or n.k == "VarDecl") and any(
        x.k == "ArraySubscriptExpr" and "p_msgs" in X.show(x.children[0]) for x in n.walk())}
    rets = {n.id for n in f.walk() if n.k == "ReturnStmt"}
    goal_elems = loads | rets
    exits = {True: set(), False: set()}
    seen = set()
    work = [(firsts[0], ())]
    while work:
        b_, facts = work.pop()
        if (b_, facts) in seen or len(seen) > 4000:
            continue
        seen.add((b_, facts))
        B = g.blocks[b_]
        fd = dict(facts)
        if not related(B):
            v = eval3(top, fd)
            decides = B.cond is not None and len(B.raw_succs) == 2
            marks = any(e.id in goal_elems for e in B.elems) or not [s_ for s_ in B.succs if s_ is not None] or B.abort
            if decides or marks:
                # the first block after the expression that does something: this is where control went
                if v is not None:
                    exits[v].add(b_)
                continue        # (v unknown: the comparator was short-circuited on this path)
            for s_ in B.succs:  # a block that only evaluates operands or joins: still inside the expression
                if s_ is not None:
                    work.append((s_, facts))
            continue
        core, neg = X.strip_bool(B.cond)
        known = eval3(B.cond, fd)
        for i, s_ in enumerate(B.succs[:2]):
            if s_ is None or (known is not None and known != (i == 0)):
                continue
            f2 = dict(fd)
            f2[core.id] = (i == 0) ^ neg
            for c0, t0 in implied_atoms(B.cond, i == 0, fd):
                f2[c0.id] = t0
            work.append((s_, tuple(sorted(f2.items()))))
    if not exits[True] or not exits[False]:
        return None
    early = {n.id for n in f.walk() if n.k == "ReturnStmt" and n.children and X.const_int(n.children[0]) == 0}
    late = rets - early
    if not loads or not late:
        return None

    def reaches_return_without_load(b):
        return g.escapes((b, -1), loads, goal=None, goal_ids=late) is not None
    t_leaves = any(reaches_return_without_load(b) for b in exits[True])
    f_leaves = all(reaches_return_without_load(b) for b in exits[False])
    if not t_leaves and f_leaves:
        return True
    return False


# --------------------------------------------------------------------------------------------------------------
# the lazy `bound` pre-filter of the straggler test
# --------------------------------------------------------------------------------------------------------------
def check_bound_prefilter(ck, P, rid):
    """process_msg tests `bound >= msg->dest_t` before the (costlier) comparator.  The filter is sound only if it is
    implied by msg_is_before(msg, newest entry): that needs (a) non-strictness — equal timestamps can still be ordered
    by the tie-break — and (b) bound >= timestamp of the newest history entry at all times."""
    from .rules_fossil import relation_on_paths
    cfg = P.config
    f = P.fn("process_msg")
    hs = list(f.calls("handle_straggler_msg"))
    if len(hs) != 1:
        ck.inconclusive(rid, "bound-filter@process_msg", f.where, "expected one handle_straggler_msg call", cfg)
        return
    is_bound = lambda n: n.k == "MemberExpr" and n.name == "bound" and n.rec == "process_ctx"
    is_ts = lambda n: n.k == "MemberExpr" and n.name == "dest_t" and n.rec == "lp_msg"
    uses = [n for n in f.walk() if is_bound(n) and Q.access_kind(n) == "read"]
    paths, complete = Q.path_conditions(f, hs[0])
    # collect the comparisons bound ? dest_t inside (possibly joined) conditions on the paths
    atoms = []
    for conds in paths:
        for core, t in conds:
            for name, node in Q.formula_atoms(core):
                c = X.strip(node)
                if c.k == "BinaryOperator" and c.op in ("<", "<=", ">", ">=", "==", "!="):
                    l, r = X.strip(c.children[0]), X.strip(c.children[1])
                    if (is_bound(l) and is_ts(r)) or (is_bound(r) and is_ts(l)):
                        op = c.op if is_bound(l) else {"<": ">", ">": "<", "<=": ">=", ">=": "<=", "==": "==", "!=": "!="}[c.op]
                        atoms.append((name, node, op))
    inst = "bound-filter@process_msg"
    if not atoms:
        ck.holds(rid, inst, hs[0].where, "no timestamp pre-filter before the comparator", cfg)
    else:
        # under which relations (bound ? dest_t) can the rollback be reached?  enumerate models of every path
        reach = set()
        for conds in paths:
            models, ats = Q.path_models(conds)
            if models is None:
                ck.inconclusive(rid, inst, hs[0].where, "straggler guard too large to enumerate", cfg)
                return
            for m in models:
                for rel in "<=>":
                    okrel = True
                    for name, node, op in atoms:
                        if name in m:
                            sat = rel in {"<": "<", "<=": "<=", ">": ">", ">=": ">=", "==": "=", "!=": "<>"}[op]
                            if sat != m[name]:
                                okrel = False
                    if okrel:
                        reach.add(rel)
        if "=" in reach and ">" in reach:
            ck.holds(rid, inst, atoms[0][1].where, "the rollback is reachable for bound >= timestamp (relations %s): equal timestamps go on to the tie-break" % "".join(sorted(reach)), cfg)
        else:
            ck.violated(rid, inst, atoms[0][1].where, "the pre-filter `%s` admits only bound %s timestamp: a message with the SAME timestamp as the newest processed event that the tie-break orders before it is appended without a rollback" % (
                atoms[0][0], "/".join(sorted(reach)) or "(nothing)"), cfg)
    # (b) writers of bound
    n = 0
    for g, node, kind in Q.field_accesses(P, "process_ctx", "bound"):
        if kind not in ("write", "rmw-plain"):
            continue
        n += 1
        asg = node.parent
        while asg is not None and not (asg.k in ("BinaryOperator", "CompoundAssignOperator")):
            asg = asg.parent
        rhs = X.strip(asg.children[1])
        inst2 = "bound-writer@%s:%s" % (g.name, X.show(rhs)[:40])
        if is_ts(rhs):
            # must be the timestamp of the entry pushed on the same path
            pushes = [s for s in g.walk() if s.k == "StmtExpr" and s.macros and s.macros[0] == "array_push" and "p_msgs" in (s.d.get("mcall") or "")]
            src = X.show(rhs.children[0])
            okp = False
            for pu in pushes:
                st = [x for x in pu.walk() if x.k == "BinaryOperator" and x.op == "=" and X.strip(x.children[0]).k == "ArraySubscriptExpr"]
                if st and X.show(st[0].children[1]) == src and (g.cfg.dominates(asg, st[0]) or g.cfg.dominates(st[0], asg)):
                    okp = True
            if okp:
                ck.holds(rid, inst2, asg.where, "bound = timestamp of the event appended to the history on the same path", cfg)
            else:
                ck.violated(rid, inst2, asg.where, "bound is set to %s, which is not the timestamp of the event appended to the history" % X.show(rhs), cfg)
        elif rhs.k == "ConditionalOperator":
            cnd, a, b = rhs.children
            va, vb = X.const_float(a), X.const_float(b)
            keep = [x for x in (X.strip(a), X.strip(b)) if is_bound(x)]
            neg = [v for v in (va, vb) if v is not None]
            empty = "count == 0" in X.show(cnd)
            if keep and neg and empty and ((va is not None and va < 0) or (vb is not None and vb < 0)):
                # the negative constant must be on the "history is empty" side
                side_empty = a if True else b
                if va is not None and va < 0:
                    ck.holds(rid, inst2, asg.where, "bound lowered below every timestamp only when the history is empty, else kept", cfg)
                else:
                    ck.violated(rid, inst2, asg.where, "bound is lowered while the history is NOT empty", cfg)
            else:
                ck.inconclusive(rid, inst2, asg.where, "bound update %s not recognised" % X.show(rhs)[:80], cfg)
        elif X.const_float(rhs) is not None:
            v = X.const_float(rhs)
            if g.name == "process_lp_init" and v >= 0.0:
                ck.holds(rid, inst2, asg.where, "initial bound %s >= timestamp 0 of LP_INIT" % v, cfg)
            else:
                ck.violated(rid, inst2, asg.where, "bound is set to the constant %s in %s: it may fall below the newest processed event's timestamp and hide stragglers" % (v, g.name), cfg)
        else:
            ck.inconclusive(rid, inst2, asg.where, "bound update %s not recognised" % X.show(rhs)[:80], cfg)
    ck.expect(rid, n, 4, "writers of process_ctx.bound")
    # (c) the straggler test reads the newest history entry (array_peek) whenever bound >= timestamp: the history must not be
    # empty then.  The invariant "history empty => bound < 0" is re-established AFTER every call that can shrink the history:
    # on every path from such a call to the end of process_msg a store to bound follows.
    shrinkers = set()
    for g in P.all_functions():
        if not g.file.startswith("src/"):
            continue
        for x in g.walk():
            if x.k == "StmtExpr" and x.macros and x.macros[0] == "array_truncate_first" and "p_msgs" in (x.d.get("mcall") or ""):
                shrinkers.add(g.name)
            if x.k == "BinaryOperator" and x.op == "=":
                t = X.strip(x.children[0])
                if t.k == "MemberExpr" and t.name == "count" and "p_msgs" in X.show(t):
                    shrinkers.add(g.name)
    cg = Q.call_graph(P)
    changed = True
    while changed:
        changed = False
        for caller, callees in cg.items():
            if caller not in shrinkers and callees & shrinkers and caller != "process_msg":
                shrinkers.add(caller)
                changed = True
    stores = [a for a in f.walk() if a.k == "BinaryOperator" and a.op == "=" and is_bound(X.strip(a.children[0]))]
    # a helper that updates bound on every one of its paths counts as the update (what "extract function" produces)
    for g2 in P.all_functions():
        if g2.name == f.name or not g2.file.startswith("src/"):
            continue
        st2 = [a for a in g2.walk() if a.k == "BinaryOperator" and a.op == "=" and is_bound(X.strip(a.children[0]))]
        if st2 and not g2.cfg.escapes(g2.cfg.entry_point(), {a.id for a in st2}, goal="exit"):
            stores += list(f.calls(g2.name))
    k = 0
    for c in f.calls():
        if c.callee in shrinkers:
            k += 1
            inst3 = "bound-after-shrink@process_msg:%s" % c.callee
            peeks = [x.id for x in f.walk() if x.k == "ArraySubscriptExpr" and "array_peek" in ((x.d.get("m") or []) + (x.d.get("me") or []))]
            w = f.cfg.escapes(f.cfg.position(c), {a.id for a in stores}, goal="exit", goal_ids=peeks)
            if w:
                ck.violated(rid, inst3, c.where, "%s can empty the history, and a path from it to the straggler test or to the end of process_msg does not update `bound` afterwards: with a stale non-negative bound the "
                            "next message passes the pre-filter and the straggler test reads the newest entry of an empty history" % c.callee, cfg)
            else:
                ck.holds(rid, inst3, c.where, "every path from %s to the end of process_msg re-establishes `history empty => bound < 0` (or appends an event)" % c.callee, cfg)
    ck.expect(rid, k, 3, "calls in process_msg that can shrink the history")
