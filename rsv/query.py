"""Generic whole-program queries: field writers, atomic sites, path conditions, call graph."""
from . import expr as X

RMW_OPS = {"__c11_atomic_fetch_add": "add", "__c11_atomic_fetch_sub": "sub", "__c11_atomic_fetch_or": "or",
           "__c11_atomic_fetch_and": "and", "__c11_atomic_fetch_xor": "xor", "__c11_atomic_exchange": "xchg",
           "__c11_atomic_compare_exchange_weak": "cas", "__c11_atomic_compare_exchange_strong": "cas"}


def atomic_kind(a):
    op = a.aop
    if op in RMW_OPS:
        return "rmw"
    if op == "__c11_atomic_load":
        return "load"
    if op == "__c11_atomic_store" or op == "__c11_atomic_init":
        return "store"
    return "other"


def atomic_target(a):
    """The object an AtomicExpr operates on: (node, text) of the lvalue behind the pointer argument."""
    p = X.strip(a.children[0])
    if p is not None and p.k == "UnaryOperator" and p.op == "&":
        t = X.strip(p.children[0])
        return t, X.show(t)
    return p, "*" + X.show(p)


def atomics(fn):
    return [n for n in fn.walk() if n.k == "AtomicExpr"]


def enclosing_atomic(n):
    """If lvalue n is the object of an atomic operation (&n is its pointer argument) return that AtomicExpr."""
    cur, p = n, n.parent
    while p is not None and p.k in ("ParenExpr", "ImplicitCastExpr", "CStyleCastExpr"):
        cur, p = p, p.parent
    if p is not None and p.k == "UnaryOperator" and p.op == "&":
        cur, p = p, p.parent
        while p is not None and p.k in ("ParenExpr", "ImplicitCastExpr", "CStyleCastExpr"):
            cur, p = p, p.parent
        if p is not None and p.k == "AtomicExpr" and p.children and (p.children[0] is cur or cur.is_inside(p.children[0]) or p.children[0] is cur):
            return p
    return None


def access_kind(n):
    """Classify an lvalue occurrence: 'write' (=), 'rmw-plain' (op=, ++), 'atomic-rmw', 'atomic-store', 'atomic-load',
    'addr' (address escapes otherwise), 'read'."""
    a = enclosing_atomic(n)
    if a is not None:
        return "atomic-" + atomic_kind(a)
    w = X.is_write_target(n)
    if w == "assign":
        return "write"
    if w in ("compound", "incdec"):
        return "rmw-plain"
    if w == "addr":
        return "addr"
    # array member used as a whole (decays to pointer) -> address escapes when passed to a call
    p = n.parent
    if p is not None and p.k == "ImplicitCastExpr" and p.ck == "ArrayToPointerDecay":
        q = p.parent
        while q is not None and q.k in ("ParenExpr", "ImplicitCastExpr", "CStyleCastExpr"):
            q = q.parent
        if q is not None and q.k == "CallExpr":
            return "addr"
        if q is not None and q.k == "ArraySubscriptExpr":
            return access_kind(q)
    if p is not None and p.k == "ArraySubscriptExpr" and p.children[0] is n:
        return access_kind(p)
    if p is not None and p.k == "MemberExpr" and not p.arrow:
        return access_kind(p) if p.children[0] is n else "read"
    return "read"


def unevaluated(n):
    """Inside the operand of sizeof / _Alignof / typeof: named but never evaluated, so neither a read nor a write."""
    q = n.parent
    while q is not None:
        if q.k == "UnaryExprOrTypeTraitExpr":
            return True
        q = q.parent
    return False


def field_accesses(P, rec, field):
    out = []
    for f in P.all_functions():
        for n in f.walk():
            if n.k == "MemberExpr" and n.name == field and n.rec == rec and not unevaluated(n):
                out.append((f, n, access_kind(n)))
    return out


def global_accesses(P, name):
    out = []
    for f in P.all_functions():
        for n in f.walk():
            if n.k == "DeclRefExpr" and n.name == name and n.d.get("dk") == "var" and n.d.get("sc") not in ("local", "param") and not unevaluated(n):
                out.append((f, n, access_kind(n)))
    return out


def call_graph(P):
    cg = {}
    for f in P.all_functions():
        s = cg.setdefault(f.name, set())
        for c in f.calls():
            if c.callee:
                s.add(c.callee)
            else:
                s.add("<indirect:%s>" % X.show(c.children[0]))
    return cg


def reachable_functions(P, roots, cg=None):
    cg = cg or call_graph(P)
    seen = set()
    st = list(roots)
    while st:
        x = st.pop()
        if x in seen:
            continue
        seen.add(x)
        st.extend(cg.get(x, ()))
    return seen


def path_conditions(fn, target, start_block=None, limit=4000):
    """Enumerate acyclic CFG paths from start_block (default entry) to the element `target`; for each path return the
    list of (condition core node, truth) of the two-way branches taken.  Returns (paths, complete)."""
    g = fn.cfg
    pos = g.position(target)
    if pos is None:
        return [], False
    tb = pos[0]
    start = g.entry if start_block is None else start_block
    out = []
    count = [0]
    complete = [True]

    from .cfg import eval3, implied_atoms

    def rec(b, conds, visited):
        if count[0] > limit:
            complete[0] = False
            return
        if b == tb:
            out.append(list(conds))
            count[0] += 1
            return
        B = g.blocks[b]
        if B.abort:
            return
        two = B.cond is not None and len(B.raw_succs) == 2 and B.termk != "SwitchStmt"
        known = None
        if two:
            facts = {c.id: t for c, t in conds}
            known = eval3(B.cond, facts)
        for i, s in enumerate(B.succs):
            if s is None or s in visited:
                continue
            if two:
                side = (i == 0)
                if known is not None and known != side:
                    continue            # this side contradicts what the path already decided (join of a logical expression)
                core, neg = X.strip_bool(B.cond)
                extra = [c for c in implied_atoms(B.cond, side, facts) if c[0].id != core.id]
                # a boolean temporary (`const bool is_remote = a != b; if(is_remote)`) stands for its initialiser
                if core.k == "DeclRefExpr" and core.d.get("sc") == "local":
                    init = resolve_local(fn, core)
                    if init is not core and init.k in ("BinaryOperator", "UnaryOperator", "CallExpr"):
                        c2, n2 = X.strip_bool(init)
                        extra = extra + [(c2, side ^ neg ^ n2)] + [c for c in implied_atoms(init, side ^ neg, facts) if c[0].id != c2.id]
                rec(s, conds + [(core, side ^ neg)] + extra, visited | {s})
            else:
                rec(s, conds, visited | {s})

    rec(start, [], {start})
    return out, complete[0]


def loop_body_entry(fn, loop_stmt):
    """Block where the body of a loop statement starts (successor of the loop condition on its true side); for
    do-while the first body block."""
    g = fn.cfg
    for B in g.blocks.values():
        if B.term is loop_stmt and B.cond is not None and len(B.raw_succs) == 2:
            return B.succs[0], B
    return None, None


def is_bit_test(core, bit, var_did=None, var_name=None):
    """core is  (v & BIT)  with the given constant, optionally of a given variable."""
    core = X.strip(core)
    if core is None or core.k != "BinaryOperator" or core.op != "&":
        return False
    l, r = X.strip(core.children[0]), X.strip(core.children[1])
    for a, b in ((l, r), (r, l)):
        if X.const_int(b) == bit and a.k == "DeclRefExpr":
            if var_did is not None and a.did != var_did:
                continue
            if var_name is not None and a.name != var_name:
                continue
            return True
    return False


def result_var(node):
    """Where does the value of an expression go?  ('var', VarDecl/DeclRef node) when it initialises or is assigned to a
    plain variable, ('discarded', None) when it is an expression statement, ('expr', parent) otherwise."""
    cur, p = node, node.parent
    while p is not None and (p.k in ("ParenExpr", "ImplicitCastExpr", "CStyleCastExpr") or (p.k == "UnaryOperator" and p.op == "__extension__")):
        cur, p = p, p.parent
    if p is None:
        return ("discarded", None)
    if p.k == "VarDecl":
        return ("var", p)
    if p.k == "BinaryOperator" and p.op == "=" and p.children[1] is cur:
        l = X.strip(p.children[0])
        if l.k == "DeclRefExpr":
            return ("var", l)
        return ("expr", p)
    if p.k in ("CompoundStmt", "StmtExpr", "ForStmt", "WhileStmt", "DoStmt", "IfStmt", "CaseStmt", "DefaultStmt", "LabelStmt", "SwitchStmt"):
        if p.k in ("IfStmt", "WhileStmt", "DoStmt", "ForStmt", "SwitchStmt"):
            # condition position?
            return ("expr", p)
        return ("discarded", None)
    return ("expr", p)


# ---- small propositional evaluation of branch conditions (atoms = non-logical sub-conditions, identified by text) ----
def formula_atoms(n, out=None):
    out = [] if out is None else out
    core, neg = X.strip_bool(n)
    if core is None:
        return out
    if core.k == "BinaryOperator" and core.op in ("&&", "||"):
        formula_atoms(core.children[0], out)
        formula_atoms(core.children[1], out)
    else:
        t = X.show(core)
        if t not in [a[0] for a in out]:
            out.append((t, core))
    return out


def formula_eval(n, assign):
    core, neg = X.strip_bool(n)
    if core.k == "BinaryOperator" and core.op == "&&":
        v = formula_eval(core.children[0], assign) and formula_eval(core.children[1], assign)
    elif core.k == "BinaryOperator" and core.op == "||":
        v = formula_eval(core.children[0], assign) or formula_eval(core.children[1], assign)
    else:
        v = assign[X.show(core)]
    return bool(v) ^ neg


def path_models(conds):
    """All truth assignments of the atoms occurring in a path's conditions under which the path is taken."""
    import itertools
    atoms = []
    for core, t in conds:
        formula_atoms(core, atoms)
    names = [a[0] for a in atoms]
    if len(names) > 12:
        return None, atoms
    out = []
    for vals in itertools.product((False, True), repeat=len(names)):
        assign = dict(zip(names, vals))
        if all(formula_eval(core, assign) == t for core, t in conds):
            out.append(assign)
    return out, atoms


def control_dependences(fn, target):
    """Branches the execution of `target` really depends on: two-way branch blocks from which `target` is reachable and
    from which the function exit is also reachable WITHOUT passing `target`.  (A loop that must be left before the
    target is reached is not a control dependence: the target post-dominates it.)  Returns [(cond core, block)]."""
    g = fn.cfg
    tp = g.position(target)
    if tp is None:
        return []
    out = []
    for B in g.blocks.values():
        if B.id not in g.reachable or B.cond is None or len(B.raw_succs) != 2 or B.termk == "SwitchStmt":
            continue
        start = (B.id, len(B.elems) - 1)
        if target.id not in g.reachable_from(start) and not (tp[0] == B.id):
            continue
        if tp[0] == B.id:
            continue      # the target is evaluated in the block itself, before the branch
        if g.escapes(start, {target.id}, goal="exit", through_abort=False):
            core, neg = X.strip_bool(B.cond)
            out.append((core, B))
    return out


def deciding_branches(fn, target, transitive=True):
    """Control dependence in the classical sense: the branches that DECIDE whether `target` executes.  A branch block B is
    one if `target` post-dominates one of its successors (every path from there to the normal exit passes the target) but
    not all of them.  A later, independent early return therefore makes the target depend on that return's test only,
    not on every branch before it.  With transitive=True the branches deciding those branches are included.
    Returns [(cond core, block)]."""
    g = fn.cfg
    out = []
    seen_blocks = set()
    todo = [target]
    done = set()
    while todo:
        t = todo.pop()
        if t.id in done:
            continue
        done.add(t.id)
        tp = g.position(t)
        if tp is None:
            continue
        for B in g.blocks.values():
            if B.id not in g.reachable or B.cond is None or tp[0] == B.id:
                continue
            succs = [x for x in B.succs if x is not None]
            if len(set(succs)) < 2:
                continue
            pd = []
            for x in set(succs):
                reach = t.id in g.reachable_from((x, -1))
                esc = g.escapes((x, -1), {t.id}, goal="exit", through_abort=False) is not None
                pd.append(reach and not esc)
            if any(pd) and not all(pd):
                if B.id not in seen_blocks:
                    seen_blocks.add(B.id)
                    core, neg = X.strip_bool(B.cond)
                    out.append((core, B))
                    if transitive and B.elems:
                        todo.append(B.elems[-1])
    return out


def owner_closure(P, names):
    """A who-may table names the functions that own some state.  A *static* helper all of whose callers already belong to
    the set acts on their behalf (it is what an 'extract function' refactoring produces): returns {helper: a caller}."""
    owners = {n: n for n in names}
    changed = True
    while changed:
        changed = False
        for f in P.all_functions():
            if f.name in owners or not f.static:
                continue
            cs = [c.fn.name for c in P.callers(f.name)]
            if cs and all(c in owners for c in cs):
                owners[f.name] = owners[cs[0]]
                changed = True
    return owners


def with_helpers(P, f):
    """f followed by the static functions that only f (or another member of the result) calls: what an "extract function"
    refactoring of f produces.  Rules that look for an anchor statement in f look in these too."""
    out = [f]
    names = {f.name}
    changed = True
    while changed:
        changed = False
        for g in P.all_functions():
            if g.name in names or not g.static:
                continue
            cs = [c.fn.name for c in P.callers(g.name)]
            if cs and all(c in names for c in cs):
                out.append(g)
                names.add(g.name)
                changed = True
    return out


def calls_via(P, f, target, cg=None):
    """Call sites in f that are calls of `target` or of a static function from which `target` is reachable."""
    cg = cg or call_graph(P)
    out = []
    for c in f.calls():
        if not c.callee:
            continue
        if c.callee == target:
            out.append(c)
            continue
        g = P.fn_opt(c.callee)
        if g is not None and g.static and target in reachable_functions(P, [c.callee], cg):
            out.append(c)
    return out


def functions_with(P, pred):
    return [f for f in P.all_functions() if pred(f)]


def resolve_local(fn, n, depth=0):
    """See through a local temporary: if n is a reference to a local variable whose ONLY definition is the initialiser of
    its declaration (never assigned, incremented or address-taken), return that initialiser (recursively).  Otherwise n."""
    m = X.strip(n)
    if m is None or depth > 6 or m.k != "DeclRefExpr" or m.d.get("sc") != "local":
        return m
    decl = None
    for v in fn.walk():
        if v.k == "VarDecl" and v.did == m.did:
            decl = v
        elif v.k == "DeclRefExpr" and v.did == m.did and X.is_write_target(v):
            return m
    if decl is None or not decl.children:
        return m
    return resolve_local(fn, decl.children[0], depth + 1)
