"""Rollback, silent re-execution and checkpoint rules (C01, C05; parts shared with C09, C11, C12)."""
from . import expr as X
from . import query as Q
from . import typestate
from .cfg import witness_text

DISPATCH = "global_config.dispatcher"


def _indirect_calls(f, text):
    return [c for c in f.walk() if c.k == "CallExpr" and not c.callee and X.show(c.children[0]) == text]


def dispatch_points(P, f, text="global_config.dispatcher"):
    """Where f dispatches an event: its own indirect calls through the dispatcher, or its calls to a static helper that has no
    other caller and contains exactly one such call.  Returns [(node in f, dispatcher call, helper or None)]."""
    out = [(c, c, None) for c in _indirect_calls(f, text)]
    for c in f.calls():
        g = P.fn_opt(c.callee) if c.callee else None
        if g is None or not g.static or g.name == f.name:
            continue
        if any(k.fn.name != f.name for k in P.callers(g.name)):
            continue
        inner = _indirect_calls(g, text)
        if len(inner) == 1:
            out.append((c, inner[0], g))
    return out


# --------------------------------------------------------------------------------------------------------------
# C01.1 / C05.6  rollback pipeline
# --------------------------------------------------------------------------------------------------------------
def check_pipeline(ck, P, rid):
    cfg = P.config
    f = P.fn("do_rollback")
    inst = "pipeline@do_rollback"
    a = list(f.calls("send_anti_messages"))
    r = list(f.calls("model_allocator_checkpoint_restore"))
    s = list(f.calls("silent_execution"))
    if len(a) != 1 or len(r) != 1 or len(s) != 1:
        ck.violated(rid, inst, f.where, "a rollback must cancel the undone sends, restore a checkpoint and coast forward, each exactly once (found %d/%d/%d)" % (len(a), len(r), len(s)), cfg)
        return
    a, r, s = a[0], r[0], s[0]
    g = f.cfg
    ip = f.params[1]
    bad = False
    if not (g.dominates(a, r) and g.dominates(r, s)):
        ck.violated(rid, inst + ":order", r.where, "stages are not in the order cancel -> restore -> coast forward on every path (the cancel step reads the history the restore/coast-forward rely on; the coast forward needs the restored state)", cfg)
        bad = True
    # every path from entry to exit passes all three
    for st, name in ((a, "send_anti_messages"), (r, "model_allocator_checkpoint_restore"), (s, "silent_execution")):
        w = g.escapes(g.entry_point(), {st.id}, goal="exit")
        if w:
            ck.violated(rid, inst + ":skip:" + name, st.where, "a path through do_rollback skips %s (%s)" % (name, witness_text(f, w)), cfg)
            bad = True
    # one index value
    defs = [n for n in f.walk() if (n.k in ("BinaryOperator", "CompoundAssignOperator") and (n.k == "CompoundAssignOperator" or n.op == "=") and
                                    X.strip(n.children[0]).k == "DeclRefExpr" and X.strip(n.children[0]).did == ip["did"]) or
            (n.k == "UnaryOperator" and n.op in ("++", "--") and X.strip(n.children[0]).k == "DeclRefExpr" and X.strip(n.children[0]).did == ip["did"])]
    if defs:
        ck.violated(rid, inst + ":index", defs[0].where, "the rollback index `%s` is modified inside do_rollback" % ip["name"], cfg)
        bad = True
    ai, ri = X.strip(X.callee_args(a)[1]), X.strip(X.callee_args(r)[1])
    sl, si = X.strip(X.callee_args(s)[1]), X.strip(X.callee_args(s)[2])
    kind, rv = Q.result_var(r)
    for node, who in ((ai, "send_anti_messages"), (ri, "model_allocator_checkpoint_restore"), (si, "silent_execution (target)")):
        if not (node.k == "DeclRefExpr" and node.did == ip["did"]):
            ck.violated(rid, inst + ":index", node.where, "%s is given %s instead of the rollback index `%s`" % (who, X.show(node), ip["name"]), cfg)
            bad = True
    if kind != "var" or not (sl.k == "DeclRefExpr" and sl.did == rv.did):
        ck.violated(rid, inst + ":start", s.where, "the coast forward starts at %s, not at the position model_allocator_checkpoint_restore returned: the restored state and the first re-executed event do not match" % X.show(sl), cfg)
        bad = True
    if not bad:
        ck.holds(rid, inst, f.where, "send_anti_messages(p, %s) -> %s = restore(mm, %s) -> silent_execution(lp, %s, %s) on every path" % (ip["name"], rv.name, ip["name"], rv.name, ip["name"]), cfg)
    # only do_rollback runs the stages
    for name in ("send_anti_messages", "model_allocator_checkpoint_restore", "silent_execution"):
        for c in P.callers(name):
            if c.fn.name != "do_rollback":
                ck.violated(rid, "stage-outside:%s@%s" % (name, c.fn.name), c.where, "%s is called outside do_rollback" % name, cfg)
    # silent_execution's own contract: nothing to do when start >= target; re-executes processed entries in [start, target)
    se = P.fn("silent_execution")
    dp = dispatch_points(P, se, DISPATCH)
    d = [x[1] for x in dp]
    if len(d) != 1:
        ck.violated(rid, "coast-forward:dispatch", se.where, "silent_execution must re-dispatch each processed entry once per iteration (found %d dispatcher calls)" % len(d), cfg)
    else:
        args = [X.show(x) for x in X.callee_args(d[0])]
        want_fields = ["dest", "dest_t", "m_type", "pl", "pl_size"]
        got = [x.split("->")[-1] for x in args[:5]]
        via_ok = True
        if dp[0][2] is not None:
            # through a helper: the message the helper dispatches is its parameter, bound at the call to the entry loaded in the loop
            hp = [p["name"] for p in dp[0][2].params]
            base = {x.split("->")[0] for x in args[:5]}
            via_ok = len(base) == 1 and next(iter(base)) in hp
        if got == want_fields and len({x.split("->")[0] for x in args[:5]}) == 1 and via_ok:
            ck.holds(rid, "coast-forward:dispatch", d[0].where, "re-dispatches (%s) of the history entry" % ", ".join(got), cfg)
        else:
            ck.violated(rid, "coast-forward:dispatch", d[0].where, "the re-executed event is not the history entry's own (dest, dest_t, m_type, pl, pl_size): %s" % args[:5], cfg)


def check_history_discipline(ck, P, rid):
    """Who writes the LP history, and the untagged push comes after the dispatcher call."""
    cfg = P.config
    allowed = {"ScheduleNewEvent": "tagged pushes of sent messages", "process_lp_init": "init + LP_INIT entry", "process_msg": "untagged push of the processed event",
               "send_anti_messages": "truncation on rollback", "fossil_lp_collect": "truncation of the committed prefix", "process_lp_fini": "release"}
    writers = set()
    owners = Q.owner_closure(P, allowed)
    for f, node, kind in Q.field_accesses(P, "process_ctx", "p_msgs"):
        # p_msgs is a struct; look at how its members are used
        p = node.parent
        while p is not None and p.k in ("ParenExpr", "ImplicitCastExpr"):
            p = p.parent
        if p is None or p.k != "MemberExpr":
            continue
        k2 = Q.access_kind(p)
        if k2 in ("write", "rmw-plain") or (p.name == "items" and _items_store(p)):
            if f.name in owners:
                writers.add(owners[f.name])
            else:
                writers.add(f.name)
                ck.violated(rid, "history-writer:%s" % f.name, node.where, "%s modifies the LP history (p_msgs.%s)" % (f.name, p.name), cfg)
    for w in sorted(writers & set(allowed)):
        ck.holds(rid, "history-writer:%s" % w, P.fn(w).where, allowed[w], cfg)
    ck.expect(rid, len(writers), 5, "functions writing the history")
    # untagged push after dispatch: located by role (the function that dispatches forward with common_msg_process and
    # appends to the history; process_lp_init does the same for LP_INIT and is checked by the same rule)
    cands = [g for g in P.all_functions() if g.file.endswith("lp/process.c") and g.name != "process_lp_init" and list(g.calls("common_msg_process")) and
             any(s.k == "StmtExpr" and s.macros and s.macros[0] == "array_push" and "p_msgs" in (s.d.get("mcall") or "") for s in g.walk())]
    f = cands[0] if len(cands) == 1 else P.fn("process_msg")
    disp = list(f.calls("common_msg_process"))
    pushes = [s for s in f.walk() if s.k == "StmtExpr" and s.macros and s.macros[0] == "array_push" and "p_msgs" in (s.d.get("mcall") or "")]
    inst = "push-after-dispatch@process_msg"
    if len(disp) == 1 and len(pushes) == 1:
        st = [x for x in pushes[0].walk() if x.k == "BinaryOperator" and x.op == "=" and X.strip(x.children[0]).k == "ArraySubscriptExpr"]
        if st and f.cfg.dominates(disp[0], st[0]):
            val = X.strip(st[0].children[1])
            if val.k == "DeclRefExpr":
                ck.holds(rid, inst, pushes[0].where, "the processed event is appended (untagged) after its handler ran: the messages it sent precede it in the history", cfg)
            else:
                ck.violated(rid, inst, pushes[0].where, "the processed event is pushed with a tag (%s): rollback would treat it as a sent message" % X.show(val), cfg)
        else:
            ck.violated(rid, inst, pushes[0].where, "the processed event is appended before its handler runs: the messages it sends would follow it and be attributed to the next event on rollback", cfg)
    else:
        ck.inconclusive(rid, inst, f.where, "expected one forward dispatch and one history push in process_msg (%d/%d)" % (len(disp), len(pushes)), cfg)
    # tagged pushes in ScheduleNewEvent
    f = P.fn("ScheduleNewEvent")
    for s in f.walk():
        if s.k == "StmtExpr" and s.macros and s.macros[0] == "array_push":
            st = [x for x in s.walk() if x.k == "BinaryOperator" and x.op == "=" and X.strip(x.children[0]).k == "ArraySubscriptExpr"]
            if not st:
                continue
            tagged = any(m in ("mark_msg_sent", "mark_msg_remote") for x in st[0].children[1].walk() for m in x.macros)
            is_remote_tag = any("mark_msg_remote" in x.macros for x in st[0].children[1].walk())
            inst = "tagged-push@ScheduleNewEvent:%s" % ("remote" if is_remote_tag else "local")
            # the tag must say where the message went: remote tag on the path through the MPI send, local tag on the path through the queue
            first = next(x for x in s.walk() if x.id in f.cfg.pos)
            via_mpi = any(f.cfg.dominates(c, first) for c in f.calls("mpi_remote_msg_send"))
            via_queue = any(f.cfg.dominates(c, first) for c in f.calls("msg_queue_insert"))
            if tagged and via_mpi != via_queue and is_remote_tag != via_mpi:
                ck.violated(rid, inst, s.where, "a message sent %s is recorded with the %s tag: on rollback it is cancelled through the wrong path (a flag RMW on a buffer MPI owns, or an anti-message for a local event)" % (
                    "to another rank" if via_mpi else "through the local queue", "remote" if is_remote_tag else "local"), cfg)
            elif tagged:
                ck.holds(rid, inst, s.where, "sent message recorded with its tag", cfg)
            else:
                ck.violated(rid, inst, s.where, "a sent message is recorded untagged: rollback would re-execute it as if the LP had processed it", cfg)


def _items_store(p):
    q = p.parent
    while q is not None and q.k in ("ImplicitCastExpr", "ParenExpr"):
        q = q.parent
    if q is not None and q.k == "ArraySubscriptExpr":
        return Q.access_kind(q) in ("write", "rmw-plain")
    return False


# --------------------------------------------------------------------------------------------------------------
# C05.1  silent execution emits nothing
# --------------------------------------------------------------------------------------------------------------
def check_silent(ck, P, rid):
    cfg = P.config
    f = P.fn("ScheduleNewEvent")
    flag = None
    for g in P.globals.get("silent_processing", []):
        if g.get("def"):
            flag = g
    if flag is None:
        ck.inconclusive(rid, "flag", f.where, "silent_processing flag not found (different suppression mechanism)", cfg)
        return
    if not flag.get("tls"):
        ck.violated(rid, "flag:thread-local", flag["file"] + ":" + str(flag.get("l")), "the silent-execution flag is shared between threads: one thread's coast forward would swallow other threads' sends", cfg)
    else:
        ck.holds(rid, "flag:thread-local", flag["file"] + ":" + str(flag.get("l")), "thread-local", cfg)
    emit = [c for c in f.calls() if c.callee in ("msg_allocator_pack", "mpi_remote_msg_send", "msg_queue_insert")]
    emit += [s for s in f.walk() if s.k == "StmtExpr" and s.macros and s.macros[0] == "array_push"]
    n = 0
    for e in emit:
        n += 1
        inst = "suppressed:%s" % (e.callee if e.k == "CallExpr" else "array_push")
        first = next((x for x in e.walk() if x.id in f.cfg.pos), e)
        paths, _ = Q.path_conditions(f, first)
        ok = bool(paths)
        for conds in paths:
            if not any(core.k == "DeclRefExpr" and core.name == "silent_processing" and t is False for core, t in conds):
                ok = False
        if ok:
            ck.holds(rid, inst, e.where, "reachable only with silent_processing false", cfg)
        else:
            ck.violated(rid, inst, e.where, "an event emission step is reachable while the LP is being silently re-executed: the coast forward would send duplicates of messages that were already sent", cfg)
    ck.expect(rid, n, 5, "emission steps in ScheduleNewEvent")
    # set / reset pairing in silent_execution
    se = P.fn("silent_execution")
    sets = [x for x in se.walk() if x.k == "BinaryOperator" and x.op == "=" and X.show(x.children[0]) == "silent_processing"]
    on = [x for x in sets if X.const_int(x.children[1]) == 1]
    off = [x for x in sets if X.const_int(x.children[1]) == 0]
    d = [x[0] for x in dispatch_points(P, se, DISPATCH)]
    inst = "set-reset@silent_execution"
    if not d:
        ck.inconclusive(rid, inst, se.where, "no dispatcher call", cfg)
    elif not on or not all(any(se.cfg.dominates(s, c) for s in on) for c in d):
        ck.violated(rid, inst + ":set", d[0].where, "events are re-executed without silent_processing being set first: their sends go out a second time", cfg)
    else:
        g = se.cfg
        w = g.escapes(g.position(on[0]), {x.id for x in off}, goal="exit")
        if w or not off:
            ck.violated(rid, inst + ":reset", on[0].where, "a path leaves silent_execution with silent_processing still set (%s): every later send of this thread is dropped" % witness_text(se, w), cfg)
        else:
            ck.holds(rid, inst, on[0].where, "set before the re-execution loop, reset on every path out", cfg)
    for fn, node, kind in Q.global_accesses(P, "silent_processing"):
        if kind != "read" and fn.name != "silent_execution":
            ck.violated(rid, "flag-writer:%s" % fn.name, node.where, "%s writes silent_processing" % fn.name, cfg)


# --------------------------------------------------------------------------------------------------------------
# C05.2  RNG state lives in rollbackable memory
# --------------------------------------------------------------------------------------------------------------
def check_rng_rollbackable(ck, P, rid):
    cfg = P.config
    n = 0
    for f, node, kind in Q.field_accesses(P, "lp_ctx", "rng_ctx"):
        if kind != "write":
            continue
        n += 1
        inst = "rng-alloc@%s" % f.name
        asg = node.parent
        while asg is not None and not (asg.k == "BinaryOperator" and asg.op == "="):
            asg = asg.parent
        rhs = X.strip(asg.children[1])
        if rhs.k == "CallExpr" and rhs.callee in ("rs_malloc", "rs_calloc"):
            # the allocation happens with current_lp set to this LP
            ck.holds(rid, inst, asg.where, "rng_ctx = %s(...): the generator state is part of every checkpoint" % rhs.callee, cfg)
        else:
            ck.violated(rid, inst, asg.where, "the LP's generator state is allocated with %s, outside the rollbackable allocator: a rollback would not rewind the random stream" % X.show(rhs)[:60], cfg)
    ck.expect(rid, n, 2, "stores to lp_ctx.rng_ctx")
    # the library reaches the generator only through current_lp->rng_ctx
    f = P.fn("RandomU64")
    uses = [x for x in f.walk() if x.k == "MemberExpr" and x.name == "rng_ctx"]
    if uses and all(X.show(u) == "current_lp->rng_ctx" for u in uses):
        ck.holds(rid, "rng-access@RandomU64", uses[0].where, "generator = current_lp->rng_ctx", cfg)
    else:
        ck.violated(rid, "rng-access@RandomU64", f.where, "RandomU64 does not draw from current_lp->rng_ctx", cfg)


# --------------------------------------------------------------------------------------------------------------
# C05.3  checkpoint take / restore are mirror images
# --------------------------------------------------------------------------------------------------------------
def _ckpt_shape(f):
    """Extract (tree copy, block copy, cursor advance, visited tree) of a full checkpoint visitor."""
    out = {"tree": None, "block": None, "advance": None, "visit": None, "visited": None}
    for c in f.calls():
        if c.callee not in ("memcpy", "__builtin_memcpy", "__builtin___memcpy_chk"):
            continue
        args = X.callee_args(c)
        d, s, n = X.show(args[0]), X.show(args[1]), args[2]
        if "longest" in d and "longest" in s:
            out["tree"] = (c, d, s, X.const_int(n))
        elif "base_mem" in d or "base_mem" in s:
            out["block"] = (c, d, s, X.show(n))
    for n in f.walk():
        if n.k == "CompoundAssignOperator" and n.op == "+=" and n.macros and X.strip(n.children[0]).k == "DeclRefExpr":
            out["advance"] = (n, X.show(n.children[0]), X.show(n.children[1]))
        if n.k == "StmtExpr" and n.macros and n.macros[0] == "buddy_tree_visit":
            out["visit"] = n
            # the tree that drives the visit: the array subscripted with the visit's own index
            for x in n.walk():
                if x.k == "ArraySubscriptExpr" and "longest" in X.show(x.children[0]) and "buddy_tree_visit" in x.macros:
                    out["visited"] = X.show(x.children[0])
    return out


def check_mirror(ck, P, rid):
    cfg = P.config
    ft, fr = P.fn("checkpoint_full_take"), P.fn("checkpoint_full_restore")
    t, r = _ckpt_shape(ft), _ckpt_shape(fr)
    for name, sh, f in (("take", t, ft), ("restore", r, fr)):
        if not all(sh.values()):
            ck.inconclusive(rid, "mirror:%s" % name, f.where, "visitor shape not recognised (%s)" % [k for k, v in sh.items() if not v], cfg)
            return
    tself, rself = ft.params[0]["name"], fr.params[0]["name"]
    # tree copy: whole array, both directions
    if t["tree"][3] == r["tree"][3] and t["tree"][3] == P.field("buddy_state", "longest")["size"]:
        ck.holds(rid, "mirror:tree-size", t["tree"][0].where, "both copy the whole allocation tree (%d bytes)" % t["tree"][3], cfg)
    else:
        ck.violated(rid, "mirror:tree-size", r["tree"][0].where, "take copies %s bytes of the allocation tree, restore %s, the tree has %d" % (t["tree"][3], r["tree"][3], P.field("buddy_state", "longest")["size"]), cfg)
    if tself in t["tree"][2] and rself in r["tree"][1]:
        ck.holds(rid, "mirror:tree-direction", r["tree"][0].where, "take: live -> checkpoint, restore: checkpoint -> live", cfg)
    else:
        ck.violated(rid, "mirror:tree-direction", r["tree"][0].where, "allocation tree copied in the wrong direction (take %s <- %s, restore %s <- %s)" % (t["tree"][1], t["tree"][2], r["tree"][1], r["tree"][2]), cfg)
    # block copies: cursor <-> base_mem + offset, same length, cursor advanced by it
    tb, rb = t["block"], r["block"]
    tcur, rcur = t["advance"][1], r["advance"][1]
    okb = True
    if not (tb[1] == tcur and "base_mem" in tb[2] and tself in tb[2]):
        ck.violated(rid, "mirror:block-take", tb[0].where, "take must copy live memory to the checkpoint cursor (got memcpy(%s, %s))" % (tb[1], tb[2]), cfg)
        okb = False
    if not (rb[2] == rcur and "base_mem" in rb[1] and rself in rb[1]):
        ck.violated(rid, "mirror:block-restore", rb[0].where, "restore must copy from the checkpoint cursor to live memory (got memcpy(%s, %s))" % (rb[1], rb[2]), cfg)
        okb = False
    if tb[3] != t["advance"][2] or rb[3] != r["advance"][2] or tb[3] != rb[3]:
        ck.violated(rid, "mirror:block-length", rb[0].where, "copied length and cursor advance differ (take copies %s advances %s; restore copies %s advances %s)" % (tb[3], t["advance"][2], rb[3], r["advance"][2]), cfg)
        okb = False
    off_t = tb[2].replace(tself, "S")
    off_r = rb[1].replace(rself, "S")
    if off_t != off_r:
        ck.violated(rid, "mirror:block-offset", rb[0].where, "take reads %s but restore writes %s" % (tb[2], rb[1]), cfg)
        okb = False
    if okb:
        ck.holds(rid, "mirror:blocks", tb[0].where, "memcpy(cursor, base_mem + o, len); cursor += len  <->  memcpy(base_mem + o, cursor, len); cursor += len", cfg)
    # both walk the live tree; restore loads it first
    if t["visited"] == "%s->longest" % tself:
        ck.holds(rid, "mirror:visit-take", t["visit"].where, "take walks the live tree", cfg)
    else:
        ck.violated(rid, "mirror:visit-take", t["visit"].where, "take walks %s instead of the live allocation tree" % t["visited"], cfg)
    if r["visited"] == "%s->longest" % rself:
        if fr.cfg.dominates(r["tree"][0], next(x for x in r["visit"].walk() if x.id in fr.cfg.pos)):
            ck.holds(rid, "mirror:visit-restore", r["visit"].where, "restore copies the saved tree first, then walks it: same block sequence as at take time", cfg)
        else:
            ck.violated(rid, "mirror:visit-restore", r["visit"].where, "restore walks the live tree BEFORE loading the saved one: blocks are written where today's allocations are, not where the checkpoint's were", cfg)
    elif "ckp" in (r["visited"] or "") or "longest" in (r["visited"] or ""):
        ck.holds(rid, "mirror:visit-restore", r["visit"].where, "restore walks the saved tree (%s)" % r["visited"], cfg)
    # identity check and cursor hand-over
    rets = [n for n in fr.walk() if n.k == "ReturnStmt"]
    nullret = [n for n in rets if X.is_null(n.children[0])]
    if nullret:
        paths, _ = Q.path_conditions(fr, nullret[0])
        ok = any(any(core.k == "BinaryOperator" and core.op in ("!=", "==") and "orig" in X.show(core) for core, t in conds) for conds in paths)
        if ok:
            ck.holds(rid, "mirror:identity", nullret[0].where, "a checkpoint section is applied only to the arena it was taken from (orig == self), else NULL", cfg)
        else:
            ck.violated(rid, "mirror:identity", nullret[0].where, "restore does not verify that the checkpoint section belongs to this arena", cfg)
    else:
        ck.violated(rid, "mirror:identity", fr.where, "restore never reports an arena the checkpoint does not know", cfg)
    st = [n for n in ft.walk() if n.k == "BinaryOperator" and n.op == "=" and X.show(n.children[0]).endswith("->orig")]
    if st and X.show(st[0].children[1]) == tself:
        ck.holds(rid, "mirror:orig", st[0].where, "take records the arena's identity", cfg)
    else:
        ck.violated(rid, "mirror:orig", ft.where, "take does not record which arena the section belongs to", cfg)


# --------------------------------------------------------------------------------------------------------------
# C05.4 / C05.5   checkpoint-size account and arenas the checkpoint does not know
# --------------------------------------------------------------------------------------------------------------
def check_account(ck, P, rid, rid_arena):
    cfg = P.config
    hdr_arena = P.field("buddy_checkpoint", "base_mem")["off"]
    hdr_ckpt = P.field("mm_checkpoint", "chkps")["off"]
    ptr = 8
    writers = {}
    for f, node, kind in Q.field_accesses(P, "mm_state", "full_ckpt_size"):
        if kind != "read":
            writers.setdefault(f.name, []).append((node, kind))
    allowed = {"model_allocator_lp_init", "rs_malloc", "rs_free", "rs_realloc", "model_allocator_checkpoint_restore"}
    # a static helper extracted from one of them writes on its behalf
    helper_of = {}
    for a_name in sorted(allowed):
        af = P.fn_opt(a_name)
        if af is None:
            continue
        for hfn in Q.with_helpers(P, af)[1:]:
            helper_of[hfn.name] = a_name
    allowed = allowed | set(helper_of)
    for w in writers:
        if w not in allowed:
            ck.violated(rid, "account-writer:%s" % w, writers[w][0][0].where, "%s modifies the checkpoint size account" % w, cfg)
    ck.expect(rid, len(writers), 5, "writers of mm_state.full_ckpt_size")

    def stores(fname):
        f = P.fn(fname)
        out = []
        for node, kind in writers.get(fname, []):
            a = node.parent
            while a is not None and a.k not in ("BinaryOperator", "CompoundAssignOperator"):
                a = a.parent
            out.append(a)
        return f, out

    # lp_init: empty checkpoint = header + terminator pointer
    f, st = stores("model_allocator_lp_init")
    if len(st) == 1 and st[0].op == "=" and X.const_int(st[0].children[1]) == hdr_ckpt + ptr:
        ck.holds(rid, "account:init", st[0].where, "= offsetof(mm_checkpoint, chkps) + sizeof(terminator) = %d" % (hdr_ckpt + ptr), cfg)
    elif len(st) == 1 and st[0].op == "=" and X.const_int(st[0].children[1]) is not None and X.const_int(st[0].children[1]) < hdr_ckpt + ptr:
        ck.violated(rid, "account:init", st[0].where, "initial account %s is smaller than header + terminator (%d): checkpoint_take writes past the buffer it allocates" % (X.const_int(st[0].children[1]), hdr_ckpt + ptr), cfg)
    else:
        ck.inconclusive(rid, "account:init", f.where, "initial value not recognised", cfg)

    # rs_malloc: + (1 << e) with the e handed to buddy_malloc; + arena header iff a new arena is added; nothing on failing paths
    f, st = stores("rs_malloc")
    adds = [s for s in st if s.op == "+="]
    bm = list(f.calls("buddy_malloc"))
    blk = [s for s in adds if X.strip(s.children[1]).k == "BinaryOperator" and X.strip(s.children[1]).op == "<<"]
    hdr = [s for s in adds if X.const_int(s.children[1]) == hdr_arena]
    if len(blk) == 1 and bm:
        e = X.show(X.strip(blk[0].children[1]).children[1])
        one = X.const_int(X.strip(blk[0].children[1]).children[0])
        exps = {X.show(X.callee_args(c)[1]) for c in bm}
        if one == 1 and exps == {e}:
            ck.holds(rid, "account:malloc-block", blk[0].where, "+= 1 << %s, the order passed to every buddy_malloc" % e, cfg)
        else:
            ck.violated(rid, "account:malloc-block", blk[0].where, "the account grows by %s but the allocation orders are %s: checkpoint buffer and copied bytes disagree" % (X.show(blk[0].children[1]), sorted(exps)), cfg)
        # every successful return is preceded by the increment; failing (NULL) returns precede it
        g = f.cfg
        for rt in [n for n in f.walk() if n.k == "ReturnStmt"]:
            isnull = X.is_null(rt.children[0])
            dom = g.dominates(blk[0], rt)
            if isnull and dom:
                ck.violated(rid, "account:malloc-fail", rt.where, "a failing rs_malloc path has already charged the account", cfg)
            if not isnull and not dom:
                ck.violated(rid, "account:malloc-block", rt.where, "a successful rs_malloc path does not charge the account", cfg)
    else:
        ck.violated(rid, "account:malloc-block", f.where, "rs_malloc does not charge the allocated block to the checkpoint account exactly once (%d increments)" % len(blk), cfg)
    addat = [s for s in f.walk() if s.k == "StmtExpr" and s.macros and s.macros[0] == "array_add_at"]
    if not addat and not hdr:
        # arena creation extracted into a helper of rs_malloc: check the pairing there
        for hname, owner in helper_of.items():
            if owner != "rs_malloc":
                continue
            hf, hst = stores(hname)
            h_add = [s for s in hf.walk() if s.k == "StmtExpr" and s.macros and s.macros[0] == "array_add_at"]
            h_hdr = [s for s in hst if s.op == "+=" and X.const_int(s.children[1]) == hdr_arena]
            if h_add:
                f, addat, hdr = hf, h_add, h_hdr
    if len(hdr) == 1 and len(addat) == 1:
        g = f.cfg
        first = next(x for x in addat[0].walk() if x.id in g.pos)
        if g.dominates(first, hdr[0]) and not g.escapes(g.position(first), {hdr[0].id}, goal="exit"):
            ck.holds(rid_arena, "account:new-arena", hdr[0].where, "a new arena charges its checkpoint header (%d bytes) on the same path" % hdr_arena, cfg)
        else:
            ck.violated(rid_arena, "account:new-arena", hdr[0].where, "arena creation and header accounting are not on the same paths", cfg)
    else:
        ck.violated(rid_arena, "account:new-arena", f.where, "a new arena must charge offsetof(buddy_checkpoint, base_mem) = %d bytes once (found %d header increments, %d arena insertions): checkpoint_take would overflow its buffer by the header" % (hdr_arena, len(hdr), len(addat)), cfg)

    # rs_free: -= the size buddy_free reports
    f, st = stores("rs_free")
    def _is_buddy_free(n):
        n = Q.resolve_local(f, n) if X.strip(n).k == "DeclRefExpr" else X.strip(n)
        return n is not None and n.k == "CallExpr" and n.callee == "buddy_free"
    if len(st) == 1 and st[0].op == "-=" and _is_buddy_free(st[0].children[1]):
        ck.holds(rid, "account:free", st[0].where, "-= buddy_free(...): the size of the released block", cfg)
    else:
        ck.violated(rid, "account:free", f.where, "rs_free does not give the released block's size back to the account", cfg)
    bf = P.fn("buddy_free")
    rets = [n for n in bf.walk() if n.k == "ReturnStmt"]
    okf = False
    if len(rets) == 1:
        rv = X.strip(rets[0].children[0])
        if rv.k == "DeclRefExpr":
            for n in bf.walk():
                if n.k == "VarDecl" and n.did == rv.did and n.children:
                    init = X.strip(n.children[0])
                    if init.k == "BinaryOperator" and init.op == "<<" and X.const_int(init.children[0]) == 1:
                        # the shift amount is the order at which the allocated node was found: the variable compared/stored into longest[i]
                        amt = X.show(init.children[1])
                        st2 = [m for m in bf.walk() if m.k == "BinaryOperator" and m.op == "=" and "longest" in X.show(m.children[0]) and X.show(m.children[1]) == amt]
                        if st2 and bf.cfg.dominates(st2[0], n):
                            okf = True
                            ck.holds(rid, "account:free-size", n.where, "buddy_free returns 1 << %s, the order it has just marked free" % amt, cfg)
    if not okf:
        ck.inconclusive(rid, "account:free-size", bf.where, "returned size of buddy_free not recognised", cfg)

    # realloc in place: variation
    f, st = stores("rs_realloc")
    if len(st) == 1 and st[0].op == "+=" and X.show(st[0].children[1]).endswith(".variation"):
        ck.holds(rid, "account:realloc", st[0].where, "+= the variation reported by the in-place reallocation", cfg)
    elif not st:
        ck.inconclusive(rid, "account:realloc", f.where, "rs_realloc does not touch the account directly", cfg)
    else:
        ck.violated(rid, "account:realloc", st[0].where, "unexpected account update in rs_realloc: %s" % X.show(st[0]), cfg)
    be = P.fn("buddy_best_effort_realloc")
    var = [n for n in be.walk() if n.k == "BinaryOperator" and n.op == "=" and X.show(n.children[0]).endswith(".variation")]
    hnd = [n for n in be.walk() if n.k == "BinaryOperator" and n.op == "=" and X.show(n.children[0]).endswith(".handled") and X.const_int(n.children[1]) == 1]
    tree_writes = [n for n in be.walk() if n.k in ("BinaryOperator", "CompoundAssignOperator") and (n.k == "CompoundAssignOperator" or n.op == "=") and "longest" in X.show(n.children[0])]
    if hnd and var and not tree_writes:
        # the function leaves the allocation tree alone: what a checkpoint copies for this block does not change, so the
        # account must not change either
        nonzero = [v for v in var if X.const_int(v.children[1]) != 0]
        if nonzero:
            ck.violated(rid, "account:realloc-inplace", nonzero[0].where, "an in-place reallocation reports the account variation `%s` but leaves the allocation tree untouched: checkpoint_full_take still copies the old block size into a buffer sized from the changed account (heap overflow when the block 'shrinks')" % X.show(nonzero[0].children[1])[:70], cfg)
        else:
            paths, _ = Q.path_conditions(be, hnd[0])
            same = all(any(core.k == "BinaryOperator" and core.op == "==" and t for core, t in conds) for conds in paths)
            if same:
                ck.holds(rid, "account:realloc-inplace", hnd[0].where, "in-place reallocation only when the block order is unchanged; tree untouched, variation 0", cfg)
            else:
                ck.holds(rid, "account:realloc-inplace", hnd[0].where, "in-place reallocation keeps the block (tree untouched) and reports variation 0", cfg)
    elif hnd and var and tree_writes:
        ck.inconclusive(rid, "account:realloc-inplace", be.where, "in-place reallocation modifies the allocation tree; agreement of the reported variation with the tree change is not decided", cfg)
    else:
        ck.inconclusive(rid, "account:realloc-inplace", be.where, "in-place reallocation accounting not recognised", cfg)

    # take: allocate and record exactly the account
    f = P.fn("model_allocator_checkpoint_take")
    al = [c for c in f.calls("mm_alloc")]
    rec = [n for n in f.walk() if n.k == "BinaryOperator" and n.op == "=" and X.show(n.children[0]).endswith("->ckpt_size")]
    self_ = f.params[0]["name"]
    want = "%s->full_ckpt_size" % self_
    if len(al) == 1 and X.show(X.callee_args(al[0])[0]) == want and len(rec) == 1 and X.show(rec[0].children[1]) == want:
        ck.holds(rid, "account:take", al[0].where, "checkpoint buffer = mm_alloc(%s); ckpt_size = %s" % (want, want), cfg)
    else:
        ck.violated(rid, "account:take", f.where, "checkpoint_take must allocate and record exactly the account (alloc %s, recorded %s)" % (
            [X.show(X.callee_args(a)[0]) for a in al], [X.show(r.children[1]) for r in rec]), cfg)
    # take covers every arena and terminates the list
    tk = list(f.calls("checkpoint_full_take"))
    term = [n for n in f.walk() if n.k == "BinaryOperator" and n.op == "=" and X.show(n.children[0]).endswith("->orig") and X.is_null(n.children[1])]
    if len(tk) == 1 and term and f.cfg.dominates(tk[0], term[0]) is False:
        pass
    if len(tk) == 1 and term:
        ck.holds(rid, "account:take-terminator", term[0].where, "sections of all arenas, then a NULL-origin terminator (the %d bytes of the initial account)" % ptr, cfg)
    else:
        ck.violated(rid, "account:take-terminator", f.where, "checkpoint_take does not terminate the section list", cfg)

    # restore: = stored size; + header per arena the checkpoint does not know; that arena is re-initialised
    f, st = stores("model_allocator_checkpoint_restore")
    sets = [s for s in st if s.op == "="]
    if len(sets) == 1 and X.show(sets[0].children[1]).endswith("->ckpt_size"):
        ck.holds(rid, "account:restore", sets[0].where, "= the size recorded in the restored checkpoint", cfg)
    else:
        ck.violated(rid, "account:restore", f.where, "restore does not reset the account to the restored checkpoint's size", cfg)
    rs = list(f.calls("checkpoint_full_restore"))
    inst = "unknown-arena@model_allocator_checkpoint_restore"
    if len(rs) != 1:
        ck.inconclusive(rid_arena, inst, f.where, "expected one checkpoint_full_restore call", cfg)
        return
    kind, cv = Q.result_var(rs[0])
    g = f.cfg
    inits = list(f.calls("buddy_init"))
    hdrs = [s for s in st if s.op == "+=" and X.const_int(s.children[1]) == hdr_arena]
    # the edge where the result is NULL
    nullb = None
    for B in g.blocks.values():
        if B.cond is None or len(B.raw_succs) != 2:
            continue
        core, neg = X.strip_bool(B.cond)
        isnull_true = None
        if core.k == "BinaryOperator" and core.op in ("==", "!=") and kind == "var":
            l, r = X.strip(core.children[0]), X.strip(core.children[1])
            if l.k == "DeclRefExpr" and l.did == cv.did and X.is_null(r):
                isnull_true = (core.op == "==") ^ neg
        elif core.k == "DeclRefExpr" and kind == "var" and core.did == cv.did:
            isnull_true = neg
        if isnull_true is not None:
            nullb = B.succs[0] if isnull_true else B.succs[1]
            nonnull = B.succs[1] if isnull_true else B.succs[0]
    if nullb is None:
        ck.violated(rid_arena, inst, rs[0].where, "the result of checkpoint_full_restore is not tested for NULL: an arena created after the checkpoint keeps its current (undone) allocations", cfg)
        return
    heads = set()
    for (b, h) in g.back_edges():
        heads.update(e.id for e in g.blocks[h].elems)
    for what, nodes, msg in (("buddy_init", inits, "is not re-initialised: blocks allocated by undone events stay allocated"),
                             ("header", hdrs, "does not charge its header to the account: the next checkpoint_take overflows its buffer by %d bytes" % hdr_arena)):
        w = g.escapes(g.edge_point(nullb), {n.id for n in nodes}, goal="exit", goal_ids=heads)
        if w or not nodes:
            ck.violated(rid_arena, inst + ":" + what, rs[0].where, "an arena the restored checkpoint does not know " + msg, cfg)
        else:
            ck.holds(rid_arena, inst + ":" + what, nodes[0].where, "on the NULL edge, before the next arena", cfg)
    if inits:
        a0 = X.strip(X.callee_args(inits[0])[0])
        ra = X.strip(X.callee_args(rs[0])[0])
        same = X.show(a0) == X.show(ra)
        if not same and a0.k == "DeclRefExpr":
            for n in f.walk():
                if n.k == "VarDecl" and n.did == a0.did and n.children and X.show(n.children[0]) == X.show(ra):
                    same = True
        if same:
            ck.holds(rid_arena, inst + ":same-arena", inits[0].where, "buddy_init is applied to the arena that was not found", cfg)
        else:
            ck.violated(rid_arena, inst + ":same-arena", inits[0].where, "buddy_init(%s) re-initialises another arena than the one restore was tried on (%s)" % (X.show(a0), X.show(ra)), cfg)
    # no header / init on the non-NULL edge
    for nodes, what in ((inits, "buddy_init"), (hdrs, "header")):
        reach = g.reachable_from(g.edge_point(nonnull), barrier_ids=heads)
        if any(n.id in reach for n in nodes):
            ck.violated(rid_arena, inst + ":known-arena-" + what, rs[0].where, "%s also runs for arenas the checkpoint restored" % what, cfg)


# --------------------------------------------------------------------------------------------------------------
# checkpoint position in the history, and arena order agreement between take and restore
# --------------------------------------------------------------------------------------------------------------
def check_checkpoint_position(ck, P, rid):
    """A checkpoint's reference position must be the number of history entries its state already includes: the
    processed event is appended BEFORE the checkpoint is taken and the position is the current entry count."""
    cfg = P.config
    ct = P.fn("checkpoint_take")
    cs = list(ct.calls("model_allocator_checkpoint_take"))
    inst = "position@checkpoint_take"
    if len(cs) != 1:
        ck.inconclusive(rid, inst, ct.where, "expected one model_allocator_checkpoint_take call", cfg)
    else:
        a = X.show(X.callee_args(cs[0])[1])
        lp = ct.params[0]["name"]
        if a == "%s->p.p_msgs.count" % lp:
            ck.holds(rid, inst, cs[0].where, "reference position = array_count(p_msgs): the entries [0, count) are already reflected in the state", cfg)
        else:
            ck.violated(rid, inst, cs[0].where, "the checkpoint is labelled with %s instead of the current number of history entries: a restore coasts forward from the wrong event" % a, cfg)
    n = 0
    for fname in sorted({c.fn.name for c in P.callers("checkpoint_take")}):
        f = P.fn(fname)
        takes = list(f.calls("checkpoint_take"))
        pushes = [s for s in f.walk() if s.k == "StmtExpr" and s.macros and s.macros[0] == "array_push" and "p_msgs" in (s.d.get("mcall") or "")]
        disp = list(f.calls("common_msg_process"))
        for t in takes:
            n += 1
            inst = "after-push@%s" % ("process_msg" if fname not in ("process_msg", "process_lp_init") and Q.owner_closure(P, ["process_msg"]).get(fname) else fname)
            stores = [x for pu in pushes for x in pu.walk() if x.k == "UnaryOperator" and x.op == "++" and "count" in X.show(x.children[0])]
            if stores and all(f.cfg.dominates(s, t) for s in stores) and disp and f.cfg.dominates(disp[0], t):
                ck.holds(rid, inst, t.where, "the event is dispatched and appended to the history before the checkpoint is taken", cfg)
            else:
                ck.violated(rid, inst, t.where, "a checkpoint can be taken before the processed event is in the history: its reference position is one short and the event is executed twice after a restore", cfg)
    ck.expect(rid, n, 2, "checkpoint_take call sites")
    # the restore side interprets the position the same way: silent_execution starts AT the returned position
    se = P.fn("silent_execution")
    first = [x for x in se.walk() if x.k == "ArraySubscriptExpr" and "p_msgs" in X.show(x.children[0])]
    if first and X.show(first[0].children[1]) == se.params[1]["name"]:
        ck.holds(rid, "coast-start@silent_execution", first[0].where, "coast forward starts with the entry AT the restored position", cfg)
    elif first:
        ck.violated(rid, "coast-start@silent_execution", first[0].where, "coast forward starts at %s, not at the restored position" % X.show(first[0].children[1]), cfg)


def check_arena_order(ck, P, rid):
    """checkpoint_take and checkpoint_restore walk the arenas in the same order (sections are matched positionally, an
    arena whose section is not next in the buffer is treated as unknown and wiped)."""
    cfg = P.config
    def loop_of(fname, callee):
        f = P.fn(fname)
        cs = list(f.calls(callee))
        if len(cs) != 1:
            return f, None, None
        lp = cs[0]
        while lp is not None and lp.k not in ("WhileStmt", "ForStmt", "DoStmt"):
            lp = lp.parent
        return f, cs[0], lp
    def direction(f, lp):
        if lp is None:
            return None
        if lp.k == "WhileStmt":
            c = X.strip([x for x in lp.children if x.k != "Null"][0])
            if c.k == "UnaryOperator" and c.op == "--" and c.postfix:
                v = X.strip(c.children[0])
                for d in f.walk():
                    if d.k == "VarDecl" and d.name == v.name and d.children and "buddies" in X.show(d.children[0]) and "count" in X.show(d.children[0]):
                        return "descending from count"
                    if d.k == "BinaryOperator" and d.op == "=" and X.show(d.children[0]) == v.name and "buddies" in X.show(d.children[1]) and "count" in X.show(d.children[1]):
                        return "descending from count"
        if lp.k == "ForStmt":
            c = X.strip(lp.children[2])
            if c.k == "BinaryOperator" and c.op == "<" and "buddies" in X.show(c.children[1]):
                return "ascending to count"
        return None
    ft, ct, lt = loop_of("model_allocator_checkpoint_take", "checkpoint_full_take")
    fr, cr, lr = loop_of("model_allocator_checkpoint_restore", "checkpoint_full_restore")
    dt, dr = direction(ft, lt), direction(fr, lr)
    inst = "arena-order"
    if dt is None or dr is None:
        ck.inconclusive(rid, inst, ft.where, "arena loops not recognised (%s / %s)" % (dt, dr), cfg)
    elif dt == dr:
        ck.holds(rid, inst, lt.where, "take and restore both walk the arenas %s" % dt, cfg)
    else:
        ck.violated(rid, inst, lr.where, "take walks the arenas %s but restore walks them %s: sections no longer line up, every arena is treated as unknown and wiped" % (dt, dr), cfg)
    # cursor hand-over: take continues where the previous section ended; restore advances only when a section was consumed
    if ct is not None:
        kind, dv = Q.result_var(ct)
        arg = X.show(X.callee_args(ct)[1])
        if kind == "var" and dv.name == arg:
            ck.holds(rid, "cursor@take", ct.where, "%s = checkpoint_full_take(arena, %s): sections are packed back to back" % (arg, arg), cfg)
        else:
            ck.violated(rid, "cursor@take", ct.where, "the section cursor is not threaded through checkpoint_full_take (%s)" % X.show(ct)[:70], cfg)
    if cr is not None:
        kind, cv = Q.result_var(cr)
        arg = X.show(X.callee_args(cr)[1])
        adv = [n for n in fr.walk() if n.k == "BinaryOperator" and n.op == "=" and X.show(n.children[0]) == arg and kind == "var" and X.show(n.children[1]) == cv.name]
        if adv:
            paths, _ = Q.path_conditions(fr, adv[0], start_block=fr.cfg.position(cr)[0])
            nonnull = all(any((X.strip(c).k == "BinaryOperator" and X.strip(c).op in ("==", "!=") and cv.name in X.show(c) and ((X.strip(c).op == "==") != t)) or (X.strip(c).k == "DeclRefExpr" and X.strip(c).name == cv.name and t) for c, t in conds) for conds in paths)
            if nonnull:
                ck.holds(rid, "cursor@restore", adv[0].where, "the cursor advances only past a section that was consumed", cfg)
            else:
                ck.violated(rid, "cursor@restore", adv[0].where, "the cursor is overwritten even when the arena was unknown (NULL): every later arena loses its section", cfg)
        else:
            ck.violated(rid, "cursor@restore", cr.where, "the section cursor does not advance after a restored arena", cfg)


# ---------------------------------------------------------------------------------------------------------------
# index ranges of the two rollback loops, evaluated by the finite-domain interpreter over indices and tag bits only

def _unknown_helpers(P, f, known):
    """Functions of the runtime that f calls and that the index-only evaluation treats as opaque (other than the known ones)."""
    out = set()
    for c in f.calls():
        if c.callee and c.callee not in known and P.fn_opt(c.callee) is not None and not c.callee.startswith("__builtin"):
            out.add(c.callee)
    return out


def check_rollback_ranges(ck, P, rid):
    """send_anti_messages undoes exactly the entries [past_i, count) and leaves count == past_i; silent_execution re-dispatches
    exactly the untagged entries of [last_i, past_i) and nothing when last_i >= past_i.  Evaluated for all 0 <= start <= end <= 4
    with no tagged entry and with one tagged (sent-message) entry at the first or second position (never just before the rollback
    point: markers precede their event and the rollback point is one past a processed event)."""
    from . import interp
    cfg = P.config
    # ---- send_anti_messages
    f = P.fn("send_anti_messages")
    pn = [p["name"] for p in f.params]
    inst = "range@send_anti_messages"
    if len(pn) != 2:
        ck.inconclusive(rid, inst, f.where, "unexpected signature", cfg)
    else:
        proc, past = pn
        bad = None
        unknown = None
        for c in range(0, 5):
            for s in range(0, c + 1):
                env = {past: s, "%s->p_msgs.count" % proc: c}
                for k in range(8):
                    env["%s->p_msgs.items[%d]" % (proc, k)] = 64 * (k + 1)
                outs = interp.Interp(f, max_visits=10).run(env)
                if not outs or any(o.how != "exit" for o in outs):
                    unknown = (s, c)
                    break
                for o in outs:
                    undone = len([1 for name, a, e in o.calls if "atomic_fetch" in name])
                    left = o.env.get("%s->p_msgs.count" % proc)
                    if (undone != c - s or left != s) and bad is None:
                        bad = (s, c, undone, left)
            if unknown:
                break
        helpers = _unknown_helpers(P, f, {"stats_take", "msg_queue_insert", "mpi_remote_anti_msg_send", "msg_allocator_free_at_gvt", "msg_allocator_free"})
        if unknown:
            ck.inconclusive(rid, inst, f.where, "the undo loop could not be evaluated for past_i = %d, count = %d" % unknown, cfg)
        elif bad and helpers:
            ck.inconclusive(rid, inst, f.where, "the undo loop works through %s, which this evaluation does not enter" % sorted(helpers), cfg)
        elif bad:
            ck.violated(rid, inst, f.where, "with past_i = %d and %d history entries, %d entr%s undone and the history is cut to %s (must be %d and %d): an event beyond the rollback point "
                        "stays processed (its messages are never cancelled) or one before it is undone" % (bad[0], bad[1], bad[2], "y is" if bad[2] == 1 else "ies are", bad[3], bad[1] - bad[0], bad[0]), cfg)
        else:
            ck.holds(rid, inst, f.where, "for all 0 <= past_i <= count <= 4: entries past_i .. count-1 are undone once each and the history is cut to past_i", cfg)
    # ---- silent_execution
    g = P.fn("silent_execution")
    gp = [p["name"] for p in g.params]
    inst = "range@silent_execution"
    if len(gp) != 3:
        ck.inconclusive(rid, inst, g.where, "unexpected signature", cfg)
        return
    lp, last, past = gp
    bad = None
    unknown = None
    for e in range(0, 5):
        for s in range(0, 5):
            for tagged in (None, s, s + 1):
                # sent-message markers PRECEDE the event that sent them, and the rollback point is one past a processed event
                # (C01.2): the entry just before past_i is never a marker
                if tagged is not None and tagged > e - 2:
                    continue
                env = {last: s, past: e}
                for k in range(8):
                    env["%s->p.p_msgs.items[%d]" % (lp, k)] = 64 * (k + 1) + (1 if k == tagged else 0)
                outs = interp.Interp(g, max_visits=10).run(env)
                if not outs or any(o.how != "exit" for o in outs):
                    unknown = (s, e)
                    break
                want = max(0, e - s) - (1 if (tagged is not None and s <= tagged < e) else 0)
                for o in outs:
                    got = len([1 for name, a, x in o.calls if "dispatcher" in name])
                    if got != want and bad is None:
                        bad = (s, e, tagged, got, want)
            if unknown:
                break
        if unknown:
            break
    helpers = _unknown_helpers(P, g, {"stats_take", "timer_hr_new", "timer_hr_value"})
    if unknown:
        ck.inconclusive(rid, inst, g.where, "the coast-forward loop could not be evaluated for last_i = %d, past_i = %d" % unknown, cfg)
    elif bad and helpers:
        ck.inconclusive(rid, inst, g.where, "the coast-forward loop works through %s, which this evaluation does not enter" % sorted(helpers), cfg)
    elif bad:
        ck.violated(rid, inst, g.where, "restored position %d, rollback point %d%s: %d event(s) are re-executed silently instead of %d — the state after the rollback is not the state before "
                    "the first undone event" % (bad[0], bad[1], "" if bad[2] is None else " (entry %d is a sent-message marker)" % bad[2], bad[3], bad[4]), cfg)
    else:
        ck.holds(rid, inst, g.where, "for all positions 0..4: exactly the processed entries of [last_i, past_i) are re-dispatched, none when last_i >= past_i", cfg)
