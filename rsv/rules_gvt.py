"""GVT-related rules (C04; shared with C02, C03, C08, C20)."""
import itertools

from . import expr as X
from . import query as Q
from . import interp
from . import typestate
from .cfg import witness_text

SMAX = 1.7976931348623157e308


# --------------------------------------------------------------------------------------------------------------
# extraction feeds the accumulator before anything else happens to the message
# --------------------------------------------------------------------------------------------------------------
def check_extraction_first(ck, P, rid):
    cfg = P.config
    f = P.fn("process_msg")
    ex = list(f.calls("msg_queue_extract"))
    gs = list(f.calls("gvt_on_msg_extraction"))
    inst = "accumulate-first@process_msg"
    if len(ex) != 1:
        ck.inconclusive(rid, inst, f.where, "expected one msg_queue_extract call", cfg)
        return
    kind, mvar = Q.result_var(ex[0])
    if not gs:
        ck.violated(rid, inst, ex[0].where, "the timestamp of an extracted message never reaches the GVT accumulator: a message extracted but not yet processed is invisible to the reduction", cfg)
        return
    g0 = gs[0]
    a = X.strip(X.callee_args(g0)[0])
    if not (a.k == "MemberExpr" and a.name == "dest_t" and kind == "var" and X.show(a.children[0]) == mvar.name):
        ck.violated(rid, inst + ":arg", g0.where, "gvt_on_msg_extraction receives %s, not the extracted message's timestamp" % X.show(a), cfg)
        return
    later = []
    for n in f.walk():
        if n is g0 or n is ex[0]:
            continue
        if (n.k == "CallExpr" and n.callee not in ("__builtin_expect", "msg_queue_extract", "gvt_on_msg_extraction")) or n.k == "AtomicExpr":
            if not n.is_inside(g0):
                later.append(n)
    bad = [n for n in later if f.cfg.position(n) is not None and not f.cfg.dominates(g0, n)]
    if bad:
        ck.violated(rid, inst, bad[0].where, "%s can run before the extracted timestamp is accumulated for the GVT" % X.show(bad[0])[:80], cfg)
    else:
        ck.holds(rid, inst, g0.where, "gvt_on_msg_extraction(%s) dominates all %d later calls/atomics of process_msg" % (X.show(a), len(later)), cfg)
    ck.expect(rid, len(later), 8, "operations on the extracted message")
    # the accumulator function is a running minimum (order-type evaluation)
    h = P.fn("gvt_on_msg_extraction")
    pn = h.params[0]["name"]
    pts = interp.order_points([0.0, SMAX])
    acc = None
    for n in h.walk():
        if n.k == "BinaryOperator" and n.op == "=":
            t = X.strip(n.children[0])
            if t.k == "DeclRefExpr" and t.d.get("sc") in ("file_static", "global"):
                acc = t
    inst2 = "running-minimum@gvt_on_msg_extraction"
    if acc is None:
        ck.violated(rid, inst2, h.where, "gvt_on_msg_extraction does not update any accumulator", cfg)
        return
    if not acc.tls:
        ck.violated(rid, inst2 + ":tls", acc.where, "the accumulator `%s` is not thread-local" % acc.name, cfg)
    badv = None
    n_eval = 0
    for a0, t0 in itertools.product(pts, pts):
        for o in interp.Interp(h).run({acc.name: a0, pn: t0}):
            n_eval += 1
            got = o.env.get(acc.name)
            if not o.decided or got is None:
                ck.inconclusive(rid, inst2, h.where, "cannot evaluate", cfg)
                return
            if got != min(a0, t0) and badv is None:
                badv = "accumulator %r, extracted time %r -> %r (expected the minimum %r)" % (a0, t0, got, min(a0, t0))
    if badv:
        ck.violated(rid, inst2, h.where, badv, cfg)
    else:
        ck.holds(rid, inst2, h.where, "%s = min(%s, %s) for all %d order types" % (acc.name, acc.name, pn, n_eval), cfg)
    return acc


# --------------------------------------------------------------------------------------------------------------
# two queue peeks per round, each folded with the accumulator
# --------------------------------------------------------------------------------------------------------------
def check_two_peeks(ck, P, rid, accname="gvt_accumulator"):
    cfg = P.config
    f = P.fn("gvt_thread_phase_run")
    stores = []
    for n in f.walk():
        if n.k == "BinaryOperator" and n.op == "=":
            t = X.strip(n.children[0])
            txt = X.show(t)
            if txt == accname or txt.startswith("reducing_p["):
                stores.append((n, txt))
    n_ok = 0
    for n, txt in stores:
        inst = "peek-fold:%s" % ("accumulator" if txt == accname else "published-minimum")
        rhs = n.children[1]
        peeks = [c for c in rhs.walk() if c.k == "CallExpr" and c.callee == "msg_queue_time_peek"]
        has_acc = any(x.k == "DeclRefExpr" and x.name == accname for x in rhs.walk())
        mins = X.expansions(rhs, "min") or ([rhs] if rhs.macros and "min" in rhs.macros else [])
        if len(peeks) == 1 and has_acc and mins:
            n_ok += 1
            ck.holds(rid, inst, n.where, "%s = min(%s, msg_queue_time_peek()) with a call made in the same statement" % (txt, accname), cfg)
        elif not peeks:
            ck.violated(rid, inst, n.where, "%s is computed without a fresh msg_queue_time_peek(): messages that arrived in the thread's queue since the last extraction are not covered by the minimum" % txt, cfg)
        elif not has_acc:
            ck.violated(rid, inst, n.where, "%s ignores the accumulator of extracted timestamps" % txt, cfg)
        else:
            ck.inconclusive(rid, inst, n.where, "fold shape not recognised: %s" % X.show(rhs)[:100], cfg)
    kinds = {("accumulator" if t == accname else "published") for _, t in stores}
    if "published" not in kinds:
        ck.violated(rid, "peek-fold:published-minimum", f.where, "the thread never publishes its minimum to reducing_p[]", cfg)
    if "accumulator" not in kinds:
        ck.violated(rid, "peek-fold:accumulator", f.where, "the first phase does not fold a queue peek into the accumulator: a message queued before the round and extracted after the second peek... is covered only by the first peek", cfg)
    # the accumulator is reset only where a round starts
    for fn, node, kind in Q.global_accesses(P, accname):
        if kind in ("write", "rmw-plain") and fn.name not in ("gvt_start_processing", "gvt_on_msg_extraction", "gvt_thread_phase_run"):
            ck.violated(rid, "accumulator-writer:%s" % fn.name, node.where, "%s writes the GVT accumulator" % fn.name, cfg)
    st = P.fn("gvt_start_processing")
    resets = [n for n in st.walk() if n.k == "BinaryOperator" and n.op == "=" and X.show(n.children[0]) == accname]
    if len(resets) == 1 and X.const_float(resets[0].children[1]) == SMAX:
        ck.holds(rid, "accumulator-reset", resets[0].where, "reset to SIMTIME_MAX when a round starts", cfg)
    else:
        ck.violated(rid, "accumulator-reset", st.where, "the round start does not reset the accumulator to SIMTIME_MAX", cfg)
    # ... and the round start is called only where a round starts: on the GVT_START control message, or from gvt_phase_run while the
    # thread is idle.  A call while a round is open forgets every timestamp extracted since the round began.
    n_calls = 0
    for c in P.callers("gvt_start_processing"):
        g = c.fn
        if not g.file.startswith("src/"):
            continue
        n_calls += 1
        inst = "round-start@%s" % g.name
        if g.name == "control_msg_process" or g.file.endswith("distributed/control_msg.c"):
            sc = g.cfg.switch_case_of(c)
            want = P.enum_const("MSG_CTRL_GVT_START")
            if sc and set(sc[1]) == {want}:
                ck.holds(rid, inst, c.where, "called for the GVT_START control message only", cfg)
            else:
                ck.violated(rid, inst, c.where, "%s starts a round for control code(s) %s" % (g.name, sorted(sc[1]) if sc else "?"), cfg)
        elif g.name == "gvt_phase_run":
            paths, complete = Q.path_conditions(g, c)
            def _idle_test(core, t):
                # `thread_phase` false, or a single-definition local holding `thread_phase` / `thread_phase != idle` false
                c2 = X.strip(core)
                if c2.k == "DeclRefExpr" and c2.d.get("sc") == "local":
                    r2 = Q.resolve_local(g, c2)
                    if r2 is not None:
                        c2, neg2 = X.strip_bool(r2)
                        if c2.k == "BinaryOperator" and c2.op in ("!=", "==") and "thread_phase" in X.show(c2) and "idle" in X.show(c2):
                            busy = (c2.op == "!=") ^ neg2
                            return t is (not busy)
                        return X.show(c2) == "thread_phase" and (t is False) ^ neg2
                if c2.k == "BinaryOperator" and c2.op in ("!=", "==") and "thread_phase" in X.show(c2) and "idle" in X.show(c2):
                    return t is (c2.op == "==")
                return X.show(core) == "thread_phase" and t is False
            idle = complete and paths and all(any(_idle_test(core, t) for core, t in conds) for conds in paths)
            if idle:
                ck.holds(rid, inst, c.where, "reached only while this thread's phase is idle", cfg)
            else:
                ck.violated(rid, inst, c.where, "gvt_phase_run can start a round while the thread is still inside one", cfg)
        else:
            ck.violated(rid, inst, c.where, "%s restarts the round: the accumulator is reset to SIMTIME_MAX while a round is open, so the timestamps of everything extracted "
                        "since the round began — and of the messages those events sent, possibly still in flight — are no longer covered by the minimum" % g.name, cfg)
    ck.expect(rid, n_calls, 2, "call sites of gvt_start_processing")


# --------------------------------------------------------------------------------------------------------------
# all GVT consumers get the same non-zero value
# --------------------------------------------------------------------------------------------------------------
CONSUMERS = ["termination_on_gvt", "auto_ckpt_on_gvt", "fossil_on_gvt", "msg_allocator_on_gvt", "stats_on_gvt"]


def check_consumers(ck, P, rid):
    cfg = P.config
    f = P.fn("parallel_thread_run")
    prs = list(f.calls("gvt_phase_run"))
    if len(prs) != 1:
        ck.inconclusive(rid, "consumers", f.where, "expected one gvt_phase_run call in the worker loop", cfg)
        return
    kind, gv = Q.result_var(prs[0])
    if kind != "var":
        ck.violated(rid, "consumers:value", prs[0].where, "the value returned by gvt_phase_run() is not kept: a completed round would be lost", cfg)
        return
    # the consumers may have been extracted together into one static helper that only the worker loop calls and that receives the value:
    # then the helper's call plays the role of each consumer call in the loop, and inside it every consumer gets the helper's parameter
    via = None
    for h in Q.with_helpers(P, f)[1:]:
        if all(len(list(h.calls(cn))) == 1 for cn in CONSUMERS) and len(h.params) == 1:
            hc = list(f.calls(h.name))
            inner_ok = all((not X.callee_args(c2)) or (X.strip(X.callee_args(c2)[0]).k == "DeclRefExpr" and X.strip(X.callee_args(c2)[0]).name == h.params[0]["name"])
                           for cn in CONSUMERS for c2 in h.calls(cn))
            straight = not any(n.k in ("IfStmt", "WhileStmt", "ForStmt", "DoStmt", "ReturnStmt", "GotoStmt", "SwitchStmt") for n in h.walk())
            if len(hc) == 1 and inner_ok and straight:
                via = (h, hc[0])
    for cname in CONSUMERS:
        inst = "consumer:%s" % cname
        cs = list(f.calls(cname))
        if not cs and via is not None:
            cs = [via[1]]
        if len(cs) != 1:
            ck.violated(rid, inst, f.where, "%s is called %d times in the worker loop (each completed round must reach it exactly once)" % (cname, len(cs)), cfg)
            continue
        c = cs[0]
        args = X.callee_args(c)
        if args:
            a = X.strip(args[0])
            if not (a.k == "DeclRefExpr" and a.did == gv.did):
                ck.violated(rid, inst, c.where, "%s receives %s, not the value gvt_phase_run() returned" % (cname, X.show(a)), cfg)
                continue
        paths, _ = Q.path_conditions(f, c, start_block=f.cfg.position(prs[0])[0])
        ok = bool(paths)
        for conds in paths:
            hit = False
            for core, t in conds:
                core = X.strip(core)
                if core.k == "DeclRefExpr" and core.did == gv.did and t:
                    hit = True
                if core.k == "BinaryOperator" and core.op in ("!=", ">") and X.strip(core.children[0]).k == "DeclRefExpr" and X.strip(core.children[0]).did == gv.did and X.is_zero(core.children[1]) and t:
                    hit = True
            if not hit:
                ok = False
        if ok:
            ck.holds(rid, inst, c.where, "called once per completed round, under %s != 0, with that value" % gv.name, cfg)
        else:
            ck.violated(rid, inst, c.where, "%s is reachable without a completed round (value 0 means 'no new GVT')" % cname, cfg)
    # single definition of the value
    defs = [n for n in f.walk() if (n.k == "VarDecl" and n.did == gv.did) or (n.k == "BinaryOperator" and n.op == "=" and X.strip(n.children[0]).k == "DeclRefExpr" and X.strip(n.children[0]).did == gv.did)]
    if len(defs) != 1:
        ck.violated(rid, "consumers:single-def", defs[1].where if len(defs) > 1 else f.where, "the GVT value handed to the consumers has %d definitions" % len(defs), cfg)


# --------------------------------------------------------------------------------------------------------------
# memory-order floors on the rendezvous counters that publish plain data
# --------------------------------------------------------------------------------------------------------------
FLOORS = [
    # function, counter, op kind, case label, need, reason
    ("gvt_thread_phase_run", "c_b", "rmw", "thread_phase_C", "release", "publishes the plain store reducing_p[rid] to the thread that reduces"),
    ("gvt_thread_phase_run", "c_b", "load", "thread_phase_D", "acquire", "the reducing thread reads every reducing_p[] entry after seeing c_b == 0"),
    ("gvt_node_phase_run", "c_c", "rmw", "node_sent_reduce", "acq_rel", "the last arriver hands total_sent[] (built by all threads) to MPI"),
    ("gvt_node_phase_run", "c_c", "rmw", "node_min_reduce_wait", "release", "publishes *reducing_p, the reduced GVT every thread returns"),
    ("gvt_node_phase_run", "c_c", "load", "node_min_wait", "acquire", "threads read *reducing_p after seeing c_c == 0"),
]


def check_floors(ck, P, rid):
    cfg = P.config
    n = 0
    for fname, obj, kind, case, need, reason in FLOORS:
        f = P.fn(fname)
        inst = "floor:%s:%s@%s" % (obj, kind, case)
        cands = []
        for a in Q.atomics(f):
            if Q.atomic_kind(a) != kind:
                continue
            t, txt = Q.atomic_target(a)
            if txt != obj:
                continue
            sc = f.cfg.switch_case_of(a)
            if sc is None:
                continue
            labels = set()
            for v in sc[1]:
                for L in f.walk():
                    if L.k == "CaseStmt" and L.d.get("val") == v and L.d.get("label"):
                        labels.add(L.d["label"])
            if case in labels:
                cands.append(a)
        if not cands:
            ck.inconclusive(rid, inst, f.where, "no %s on %s found under case %s (the round protocol changed shape)" % (kind, obj, case), cfg)
            continue
        for a in cands:
            n += 1
            o = a.d.get("order")
            ok = o is not None and ((need == "release" and X.order_has_release(o)) or (need == "acquire" and X.order_has_acquire(o)) or
                                    (need == "acq_rel" and X.order_has_release(o) and X.order_has_acquire(o)))
            if ok:
                ck.holds(rid, inst, a.where, "%s is %s (floor %s: %s)" % (a.aop.replace("__c11_", ""), X.MEMORY_ORDER[o], need, reason), cfg)
            else:
                ck.violated(rid, inst, a.where, "%s on %s is %s, below the floor %s: it %s" % (a.aop.replace("__c11_", ""), obj, X.MEMORY_ORDER.get(o, o), need, reason), cfg)
    ck.expect(rid, n, 5, "atomic operations with a memory-order floor")


# --------------------------------------------------------------------------------------------------------------
# MPI collectives are called by exactly one elected thread
# --------------------------------------------------------------------------------------------------------------
def check_unique_collective_caller(ck, P, rid):
    cfg = P.config
    f = P.fn("gvt_node_phase_run")
    n = 0
    for cname in ("mpi_reduce_sum_scatter", "mpi_reduce_min"):
        for c in f.calls(cname):
            n += 1
            inst = "elected:%s" % cname
            paths, _ = Q.path_conditions(f, c)
            ok = bool(paths)
            why = ""
            for conds in paths:
                hit = False
                for core, t in conds:
                    core = X.strip(core)
                    rm = [x for x in core.walk() if x.k == "AtomicExpr" and Q.atomic_kind(x) == "rmw"]
                    if not rm:
                        continue
                    if core.k == "AtomicExpr" and t is False:
                        hit = True          # the RMW returned 0: first arrival
                    elif core.k == "BinaryOperator" and core.op == "!=" and t is False:
                        hit = True          # the RMW returned exactly the compared value
                    elif core.k == "BinaryOperator" and core.op == "==" and t is True:
                        hit = True
                if not hit:
                    ok = False
                    why = ", ".join("%s=%s" % (X.show(cc)[:40], t) for cc, t in conds)
            if ok:
                ck.holds(rid, inst, c.where, "reached only on the equality side of a test on an RMW result: one thread per rank calls the collective", cfg)
            else:
                ck.violated(rid, inst, c.where, "%s is not restricted to the single thread elected by an RMW result (%s): several threads of a rank would enter the same collective" % (cname, why), cfg)
    ck.expect(rid, n, 2, "MPI collective call sites")


# --------------------------------------------------------------------------------------------------------------
# every remote message is stamped and counted once on send, counted once on receive
# --------------------------------------------------------------------------------------------------------------
def _buffer_var(arg):
    a = X.strip(arg)
    if a.k == "UnaryOperator" and a.op == "&":
        m = X.strip(a.children[0])
        if m.k == "MemberExpr" and m.name == "dest" and m.rec == "lp_msg":
            return typestate.root_var(m.children[0])
    return None


def check_stamp_and_count(ck, P, rid):
    cfg = P.config
    anti_size = None
    n_send = n_recv = 0
    for f in P.all_functions():
        for c in f.calls("MPI_Isend"):
            bv = _buffer_var(X.callee_args(c)[0])
            if bv is None:
                continue
            n_send += 1
            size = Q.resolve_local(f, X.callee_args(c)[1])
            is_anti = X.const_int(size) is not None
            want = "gvt_remote_anti_msg_send" if is_anti else "gvt_remote_msg_send"
            inst = "stamp@%s" % f.name
            st = [s for s in f.calls() if s.callee in ("gvt_remote_msg_send", "gvt_remote_anti_msg_send") and
                  typestate.root_var(X.callee_args(s)[0]) is not None and typestate.root_var(X.callee_args(s)[0]).did == bv.did]
            dom = [s for s in st if f.cfg.dominates(s, c)]
            if len(dom) == 1 and dom[0].callee == want:
                # destination agreement
                d1, d2 = X.show(X.callee_args(dom[0])[1]), X.show(X.callee_args(c)[3])
                if d1 != d2:
                    ck.violated(rid, inst + ":dest", c.where, "the message is counted for rank %s but sent to rank %s" % (d1, d2), cfg)
                else:
                    ck.holds(rid, inst, c.where, "%s(%s, %s) dominates the MPI_Isend of that buffer" % (want, bv.name, d1), cfg)
            elif not dom:
                ck.violated(rid, inst, c.where, "a remote %s leaves without being stamped and counted for the GVT (no %s before the MPI_Isend)" % ("anti-message" if is_anti else "event", want), cfg)
            else:
                ck.violated(rid, inst, c.where, "expected exactly one %s before the send, found %s" % (want, [s.callee for s in dom]), cfg)
        for c in f.calls("MPI_Mrecv"):
            bv = _buffer_var(X.callee_args(c)[0])
            if bv is None:
                continue
            n_recv += 1
            inst = "count@%s:%d" % (f.name, n_recv)
            rc = [s for s in f.calls() if s.callee in ("gvt_remote_msg_receive", "gvt_remote_anti_msg_receive") and
                  typestate.root_var(X.callee_args(s)[0]) is not None and typestate.root_var(X.callee_args(s)[0]).did == bv.did]
            g = f.cfg
            # every path from the receive to the next probe / exit passes a count
            probes = {p.id for p in f.calls("MPI_Improbe")}
            w = g.escapes(g.position(c), {s.id for s in rc}, goal="exit", goal_ids=probes)
            if w:
                ck.violated(rid, inst, c.where, "a received remote message is not counted for the GVT on a path (%s): the round waits forever for it, or closes too early" % witness_text(f, w), cfg)
                continue
            # ... and no path counts it twice
            twice = False
            for s in rc:
                if s.id in g.reachable_from(g.position(c), barrier_ids=probes):
                    w2 = g.escapes(g.position(s), probes, goal="none", goal_ids={x.id for x in rc})
                    if w2:
                        twice = True
            if twice:
                ck.violated(rid, inst, c.where, "a received remote message is counted twice on a path", cfg)
            else:
                ck.holds(rid, inst, c.where, "every path from the receive to the next probe passes exactly one gvt_remote_*_receive(%s)" % bv.name, cfg)
    ck.expect(rid, n_send, 2, "MPI_Isend of message buffers")
    ck.expect(rid, n_recv, 3, "MPI_Mrecv into message buffers")


def check_receive_kind(ck, P, rid):
    """The anti receive helper runs exactly for anti-sized messages (size is what tells the kinds apart)."""
    cfg = P.config
    n = 0
    for fname in ("mpi_remote_msg_handle", "mpi_remote_msg_drain"):
        f = P.fn(fname)
        for c in f.calls():
            if c.callee not in ("gvt_remote_msg_receive", "gvt_remote_anti_msg_receive"):
                continue
            n += 1
            anti = c.callee == "gvt_remote_anti_msg_receive"
            inst = "kind@%s:%s" % (fname, "anti" if anti else "event")
            paths, _ = Q.path_conditions(f, c)
            ok = bool(paths)
            for conds in paths:
                hit = False
                for core, t in conds:
                    core = X.strip(core)
                    if core.k == "BinaryOperator" and core.op in ("<=", "==", "!=", ">") and X.const_int(core.children[1]) is not None and X.const_int(core.children[1]) > 8:
                        anti_side = t if core.op in ("<=", "==") else (not t)      # `size != K` / `size > K` true means: not an anti-message
                        if "size" in X.show(core.children[0]) and anti_side == anti:
                            hit = True
                if not hit:
                    ok = False
            if ok:
                ck.holds(rid, inst, c.where, "reached exactly on the %s side of the size test" % ("anti-sized" if anti else "event-sized"), cfg)
            else:
                ck.violated(rid, inst, c.where, "%s is not selected by the message size" % c.callee, cfg)
    ck.expect(rid, n, 4, "receive-count call sites")


# --------------------------------------------------------------------------------------------------------------
# the round protocol's constants: rendezvous thresholds, colour flip, closed colour, read-and-clear
# --------------------------------------------------------------------------------------------------------------
# (case label, counter, a thread may go on iff the counter equals ...)   — confirmed by reading gvt_thread_phase_run
THRESHOLDS = [("thread_phase_A", "c_a", "zero"), ("thread_phase_B", "c_b", "threads"), ("thread_phase_C", "c_a", "threads"), ("thread_phase_D", "c_b", "zero")]


def _case_label_of(f, node):
    sc = f.cfg.switch_case_of(node)
    if sc is None:
        return set()
    labels = set()
    for v in sc[1]:
        for L in f.walk():
            if L.k == "CaseStmt" and L.d.get("val") == v and L.d.get("label"):
                labels.add(L.d["label"])
    return labels


def check_round_protocol(ck, P, rid):
    from . import ceval
    cfg = P.config
    f = P.fn("gvt_thread_phase_run")
    n = 0
    for case, ctr, when in THRESHOLDS:
        inst = "threshold:%s" % case
        loads = [a for a in Q.atomics(f) if Q.atomic_kind(a) == "load" and Q.atomic_target(a)[1] == ctr and case in _case_label_of(f, a)]
        if len(loads) != 1:
            ck.inconclusive(rid, inst, f.where, "expected one load of %s under %s (the round protocol changed shape)" % (ctr, case), cfg)
            continue
        a = loads[0]
        # the enclosing `if(cond) break;`
        ifs = a.parent
        while ifs is not None and ifs.k != "IfStmt":
            ifs = ifs.parent
        if ifs is None:
            ck.inconclusive(rid, inst, a.where, "the counter is not tested by an if", cfg)
            continue
        kids = [c for c in ifs.children if c.k != "Null"]
        if not any(x.k == "BreakStmt" for x in kids[1].walk()):
            ck.inconclusive(rid, inst, ifs.where, "the test does not guard a break", cfg)
            continue
        n += 1
        core, neg = X.strip_bool(kids[0])
        bad = None
        unknown = False
        for nthr in range(1, 33 if getattr(ck, "tier", "quick") == "thorough" else 9):
            for v in range(0, nthr + 1):
                # value of the condition with the load returning v
                if core is a or (core.k == "AtomicExpr"):
                    waits = bool(v)
                elif core.k == "BinaryOperator" and core.op in ("!=", "==", "<", ">", "<=", ">="):
                    l, r = X.strip(core.children[0]), X.strip(core.children[1])
                    env = {"global_config.n_threads": nthr}
                    lv = v if (l is a or a.is_inside(l)) and l.k == "AtomicExpr" else ceval.ev(core.children[0], env)
                    rv = v if (r is a or a.is_inside(r)) and r.k == "AtomicExpr" else ceval.ev(core.children[1], env)
                    if lv is None or rv is None:
                        unknown = True
                        break
                    waits = {"!=": lv != rv, "==": lv == rv, "<": lv < rv, ">": lv > rv, "<=": lv <= rv, ">=": lv >= rv}[core.op]
                else:
                    unknown = True
                    break
                if neg:
                    waits = not waits
                want_go = (v == 0) if when == "zero" else (v == nthr)
                if (not waits) != want_go and bad is None:
                    bad = (nthr, v, not waits)
            if unknown:
                break
        if unknown:
            ck.inconclusive(rid, inst, ifs.where, "wait condition `%s` not evaluable" % X.show(kids[0])[:80], cfg)
        elif bad:
            ck.violated(rid, inst, ifs.where, "with %d thread(s) and %s = %d a thread in %s %s, but it may go on exactly when the counter is %s: a thread leaves the rendezvous before all have sampled "
                        "(or none ever does)" % (bad[0], ctr, bad[1], case, "goes on" if bad[2] else "waits", "0" if when == "zero" else "the thread count"), cfg)
        else:
            ck.holds(rid, inst, ifs.where, "goes on exactly when %s == %s (1..%d threads)" % (ctr, "0" if when == "zero" else "n_threads", 32 if getattr(ck, "tier", "quick") == "thorough" else 8), cfg)
    ck.expect(rid, n, 4, "rendezvous tests of the thread-level reduction")

    g = P.fn("gvt_node_phase_run")
    # colour flip: once per round, when the first reduction completes
    flips = [s for s in g.walk() if s.k in ("BinaryOperator", "CompoundAssignOperator") and (s.k == "CompoundAssignOperator" or s.op == "=") and X.show(X.strip(s.children[0])) == "gvt_phase"]
    inst = "colour-flip"
    first, second = P.enum_const("node_phase_redux_first"), P.enum_const("node_phase_redux_second")
    if len(flips) != 1 or first is None or second is None:
        ck.inconclusive(rid, inst, g.where, "expected exactly one update of gvt_phase in the node automaton", cfg)
    else:
        s0 = flips[0]
        bad = None
        # the state variable may already have been advanced when the colour is updated
        adv = [u for u in g.walk() if u.k == "UnaryOperator" and u.op in ("++", "--") and X.show(X.strip(u.children[0])) == "node_phase" and g.cfg.dominates(u, s0)
               and _case_label_of(g, u) == _case_label_of(g, s0)]
        shift = sum(1 if u.op == "++" else -1 for u in adv)
        for col in (0, 1):
            for ph, want_flip in ((first, True), (second, False)):
                env = {"gvt_phase": col, "node_phase": ph + shift}
                if s0.k == "CompoundAssignOperator":
                    v = ceval.ev(s0.children[1], env)
                    new = None if v is None else {"^=": col ^ v, "+=": col + v, "-=": col - v}.get(s0.op)
                else:
                    new = ceval.ev(s0.children[1], env)
                if new is None:
                    bad = "?"
                    break
                if (bool(new) != bool(col)) != want_flip and bad is None:
                    bad = (col, "first" if ph == first else "second", new)
        if bad == "?":
            ck.inconclusive(rid, inst, s0.where, "colour update `%s` not evaluable" % X.show(s0)[:80], cfg)
        elif bad:
            ck.violated(rid, inst, s0.where, "the colour %s when the %s reduction of a round completes (gvt_phase %d -> %d): messages sent between the two reductions are counted with the wrong colour, "
                        "so a rank stops waiting while one of them is still in flight" % ("does not change" if bad[1] == "first" else "changes", bad[1], bad[0], bad[2]), cfg)
        else:
            ck.holds(rid, inst, s0.where, "gvt_phase flips exactly when the first reduction of a round completes, not at the second", cfg)
    # closed colour: every per-colour counter the node automaton touches is indexed with the colour that has just been closed
    k = 0
    for x in g.walk():
        if x.k != "ArraySubscriptExpr" or Q.unevaluated(x):
            continue
        base = X.strip(x.children[0])
        if base.k == "DeclRefExpr" and base.name in ("remote_msg_seq", "last_seq", "remote_msg_received"):
            k += 1
            inst = "closed-colour:%s@%d" % (base.name, k)
            vals = [ceval.ev(x.children[1], {"gvt_phase": c}) for c in (0, 1)]
            if None in vals:
                ck.inconclusive(rid, inst, x.where, "colour index `%s` not evaluable" % X.show(x.children[1]), cfg)
            elif vals == [1, 0]:
                ck.holds(rid, inst, x.where, "%s[!gvt_phase]: the colour closed by the flip" % base.name, cfg)
            else:
                ck.violated(rid, inst, x.where, "%s is indexed with `%s` (= %s for gvt_phase 0/1): after the flip the counts of the round being closed are those of the OTHER colour; "
                            "the ranks agree on a number of messages that is not the number in flight" % (base.name, X.show(x.children[1]), vals), cfg)
    ck.expect(rid, k, 5, "per-colour counters in the node automaton")
    # read-and-clear of the received counter
    adds = [a for a in Q.atomics(g) if Q.atomic_kind(a) == "rmw" and Q.atomic_target(a)[1] == "total_msg_received" and len(a.children) > 1
            and any(y.k == "DeclRefExpr" and y.name == "remote_msg_received" for y in a.children[1].walk())]
    inst = "read-and-clear:remote_msg_received"
    if len(adds) != 1:
        ck.inconclusive(rid, inst, g.where, "the hand-over of the per-thread received count was not recognised", cfg)
    else:
        a = adds[0]
        elem = [y for y in a.children[1].walk() if y.k == "ArraySubscriptExpr"]
        etxt = X.show(elem[0]) if elem else "?"
        clears = [s for s in g.walk() if s.k == "BinaryOperator" and s.op == "=" and X.show(X.strip(s.children[0])) == etxt and X.is_zero(s.children[1])]
        if not clears:
            ck.violated(rid, inst, a.where, "%s is added to the node's total but never cleared: the same receptions are counted again in the next round of that colour, and the rank "
                        "stops waiting while messages are still in flight" % etxt, cfg)
        else:
            w = g.cfg.escapes(g.cfg.position(a), {c.id for c in clears}, goal="exit")
            if w:
                ck.violated(rid, inst, a.where, "a path leaves the step after adding %s to the total without clearing it" % etxt, cfg)
            else:
                ck.holds(rid, inst, clears[0].where, "%s is cleared on every path after it was added to the total" % etxt, cfg)


def check_round_completion_notice(ck, P, rid):
    """The rank that opens GVT rounds (the one whose guard lets it broadcast GVT_START) waits, before opening the next round, for one
    GVT_DONE notice from every rank (gvt_nodes is raised by n_nodes and lowered by each notice).  Every rank must therefore send its
    notice to THAT rank: sent anywhere else, the opener's counter never returns to zero and no further round is opened."""
    from . import ceval
    cfg = P.config
    inst = "done-notice@gvt_node_phase_run"
    f = P.fn("gvt_node_phase_run")
    g = P.fn("gvt_phase_run")
    DONE = P.enum_const("MSG_CTRL_GVT_DONE")
    START = P.enum_const("MSG_CTRL_GVT_START")
    sends = []
    for fn in Q.with_helpers(P, f) if hasattr(Q, "with_helpers") else [f]:
        for c in fn.calls("mpi_control_msg_send_to"):
            a = X.callee_args(c)
            if len(a) == 2 and X.const_int(a[0]) == DONE:
                sends.append((fn, c))
    starts = [c for c in g.calls("mpi_control_msg_broadcast") if X.callee_args(c) and X.const_int(X.callee_args(c)[0]) == START]
    if len(sends) != 1 or len(starts) != 1:
        ck.inconclusive(rid, inst, f.where, "the GVT_DONE notice / the GVT_START broadcast were not recognised (%d, %d)" % (len(sends), len(starts)), cfg)
        return
    # ranks that can open a round: the guards on the way to the broadcast, evaluated on (nid, rid)
    paths, complete = Q.path_conditions(g, starts[0])
    pairs = set()
    for k in range(0, 4):
        for r_ in range(0, 4):
            for conds in paths:
                ok = True
                for core, t in conds:
                    v = ceval.ev(core, {"nid": k, "rid": r_})
                    if v is not None and bool(v) != t:
                        ok = False
                if ok:
                    pairs.add((k, r_))
    openers = {k for k, r_ in pairs}
    inst2 = "single-opener@gvt_phase_run"
    if not complete or not pairs:
        ck.inconclusive(rid, inst2, starts[0].where, "the guards of the GVT_START broadcast were not enumerated", cfg)
    elif len(pairs) != 1:
        ck.violated(rid, inst2, starts[0].where, "threads %s (rank, thread) may all open a GVT round: two of them passing the test together raise the count of awaited GVT_DONE notices twice, it never returns to zero and no further round is opened" % sorted(pairs)[:4], cfg)
    else:
        ck.holds(rid, inst2, starts[0].where, "only thread %d of rank %d opens rounds" % (sorted(pairs)[0][1], sorted(pairs)[0][0]), cfg)
    # the opener opens a round only when the previous one was acknowledged by every rank (gvt_nodes == 0)
    inst3 = "previous-round-acknowledged@gvt_phase_run"
    okp = bool(paths)
    for conds in paths:
        hit = False
        for core, t in conds:
            loads = [y for y in core.walk() if y.k == "AtomicExpr" and Q.atomic_kind(y) == "load" and Q.atomic_target(y)[1] == "gvt_nodes"]
            if loads:
                c0, neg = X.strip_bool(core)
                tr0 = _counter_test_truth(c0, neg, loads[0], 0, 1)
                tr1 = _counter_test_truth(c0, neg, loads[0], 1, 1)
                if tr0 is not None and tr1 is not None and tr0 == t and tr1 != t:
                    hit = True
        okp = okp and hit
    if okp:
        ck.holds(rid, inst3, starts[0].where, "a round is opened only when gvt_nodes == 0 (every rank has acknowledged the previous round)", cfg)
    else:
        ck.violated(rid, inst3, starts[0].where, "a new round can be opened while ranks are still finishing the previous one (no test that the count of awaited GVT_DONE notices is zero): the GVT_START reaches threads in the middle of a round and the two rounds' counters mix", cfg)
    if not complete or len(openers) != 1:
        ck.inconclusive(rid, inst, starts[0].where, "the set of ranks that may open a round is not a single rank (%s)" % sorted(openers), cfg)
        return
    opener = next(iter(openers))
    fn, c = sends[0]
    dest = X.callee_args(c)[1]
    bad = None
    for k in range(0, 4):
        v = ceval.ev(dest, {"nid": k, "rid": 0, "n_nodes": 4})
        if v is None:
            ck.inconclusive(rid, inst, c.where, "destination `%s` of the GVT_DONE notice is not a function of the rank" % X.show(dest)[:40], cfg)
            return
        if v != opener and bad is None:
            bad = (k, v)
    if bad:
        ck.violated(rid, inst, c.where, "rank %d sends its GVT_DONE notice to rank %d, but rounds are opened by rank %d, which waits for one notice per rank before the next round: with more than one rank its counter never returns to zero and no further GVT is computed (no fossil collection, no termination)" % (bad[0], bad[1], opener), cfg)
    else:
        ck.holds(rid, inst, c.where, "every rank sends its GVT_DONE notice to rank %d, the only rank that opens rounds" % opener, cfg)


def _counter_test_truth(core, neg, a, v, nthr):
    """Truth of a branch condition that contains the atomic load `a`, when the load returns v and there are nthr threads."""
    from . import ceval
    if core is a or core.k == "AtomicExpr":
        r = bool(v)
    elif core.k == "BinaryOperator" and core.op in ("!=", "==", "<", ">", "<=", ">="):
        l, r_ = X.strip(core.children[0]), X.strip(core.children[1])
        env = {"global_config.n_threads": nthr}
        lv = v if (l is a or a.is_inside(l)) and l.k == "AtomicExpr" else ceval.ev(core.children[0], env)
        rv = v if (r_ is a or a.is_inside(r_)) and r_.k == "AtomicExpr" else ceval.ev(core.children[1], env)
        if lv is None or rv is None:
            return None
        r = {"!=": lv != rv, "==": lv == rv, "<": lv < rv, ">": lv > rv, "<=": lv <= rv, ">=": lv >= rv}[core.op]
    else:
        return None
    return (not r) if neg else r


def check_node_protocol(ck, P, rid):
    """Bookkeeping of the node-level GVT automaton (gvt_node_phase_run) that every round relies on; each clause is a necessary condition
    for the message count to balance or for the round to end."""
    from . import ceval
    cfg = P.config
    g = P.fn("gvt_node_phase_run")
    # A. the snapshot of the per-destination send counters covers every rank
    inst = "snapshot-every-rank@last_seq"
    cps = [c for c in g.calls() if c.callee in ("memcpy", "__builtin_memcpy", "__builtin___memcpy_chk") and len(X.callee_args(c)) >= 3
           and "last_seq" in X.show(X.callee_args(c)[0]) and "remote_msg_seq" in X.show(X.callee_args(c)[1])]
    if len(cps) != 1:
        ck.inconclusive(rid, inst, g.where, "the copy remote_msg_seq -> last_seq was not recognised", cfg)
    else:
        ln = X.callee_args(cps[0])[2]
        esz = ([x.d.get("cv") for x in ln.walk() if x.k == "UnaryExprOrTypeTraitExpr" and x.d.get("cv")] or [4])[0]
        bad = None
        unk = False
        for n in range(1, 9):
            v = ceval.ev(ln, {"n_nodes": n})
            if v is None:
                unk = True
                break
            if v != n * esz and bad is None:
                bad = (n, v // esz if esz else v)
        if unk:
            ck.inconclusive(rid, inst, cps[0].where, "length `%s` is not a function of n_nodes" % X.show(ln)[:50], cfg)
        elif bad:
            ck.violated(rid, inst, cps[0].where, "with %d rank(s) only %d send counters are remembered: the messages sent to the other ranks in this round are counted again in the next one and those ranks wait for messages that never come" % bad, cfg)
        else:
            ck.holds(rid, inst, cps[0].where, "the counters of all n_nodes ranks are remembered (1..8 ranks)", cfg)
    # B. balance of total_msg_received: +c per thread, -(expected + c * threads) by the elected thread
    inst = "balance@total_msg_received"
    rm = [a for a in Q.atomics(g) if Q.atomic_kind(a) == "rmw" and Q.atomic_target(a)[1] == "total_msg_received" and len(a.children) > 1]
    consts = [(a, X.const_int(a.children[1])) for a in rm if X.const_int(a.children[1]) is not None and "node_sent_reduce" in _case_label_of(g, a)]
    subs = [a for a in rm if any(y.k == "DeclRefExpr" and y.name == "remote_msg_to_receive" for y in a.children[1].walk())]
    if len(consts) != 1 or len(subs) != 1:
        ck.inconclusive(rid, inst, g.where, "the per-thread ticket / the elected thread's subtraction were not recognised", cfg)
    else:
        c1 = consts[0][1]
        sgn = -1 if Q.RMW_OPS.get(subs[0].aop) == "sub" else 1
        bad = None
        unk = False
        for T in range(1, 9):
            for R in (0, 3, 10):
                v = ceval.ev(subs[0].children[1], {"remote_msg_to_receive": R, "global_config.n_threads": T})
                if v is None:
                    unk = True
                    break
                if sgn * v != -(R + c1 * T) and bad is None:
                    bad = (T, R, sgn * v, -(R + c1 * T))
        if unk:
            ck.inconclusive(rid, inst, subs[0].where, "the subtracted amount is not a function of the expected count and the thread count", cfg)
        elif bad:
            ck.violated(rid, inst, subs[0].where, "with %d thread(s) and %d expected message(s) the counter changes by %d but the threads' tickets and the expected messages sum to %d: it never returns to zero (or does so early) and the round stalls (or closes with messages in flight)" % (bad[0], bad[1], bad[2], -bad[3]), cfg)
        else:
            ck.holds(rid, inst, subs[0].where, "every thread adds %d, the elected thread subtracts expected + %d x threads" % (c1, c1), cfg)
    # C. the elected thread releases the others only when all have arrived (c_d == threads)
    inst = "leader-waits@c_d"
    rel = [a for a in Q.atomics(g) if Q.atomic_kind(a) == "rmw" and Q.atomic_target(a)[1] == "c_c" and "node_min_reduce_wait" in _case_label_of(g, a)]
    if len(rel) != 1:
        ck.inconclusive(rid, inst, g.where, "the release of c_c by the elected thread was not recognised", cfg)
    else:
        paths, complete = Q.path_conditions(g, rel[0])
        ok_all = bool(paths) and complete
        why = None
        for conds in paths:
            found = False
            for core, t in conds:
                loads = [y for y in core.walk() if y.k == "AtomicExpr" and Q.atomic_kind(y) == "load" and Q.atomic_target(y)[1] == "c_d"]
                if not loads:
                    continue
                a = loads[0]
                c0, neg = X.strip_bool(core)
                good = True
                for T in range(1, 9):
                    for v in range(0, T + 1):
                        tr = _counter_test_truth(c0, neg, a, v, T)
                        if tr is None:
                            good = False
                        elif (tr == t) != (v == T) and (tr == t):
                            good = False
                            why = "with %d threads the release is reached with c_d == %d" % (T, v)
                if good:
                    found = True
            if not found:
                ok_all = False
        if ok_all:
            ck.holds(rid, inst, rel[0].where, "c_c is released only when c_d equals the thread count: every thread has taken its copy of the result", cfg)
        elif not paths or not complete:
            ck.inconclusive(rid, inst, rel[0].where, "paths to the release not enumerated", cfg)
        else:
            ck.violated(rid, inst, rel[0].where, "the elected thread releases the round (c_c) without waiting for every thread to have arrived (c_d == threads)%s: a thread that arrives late finds the counters of the NEXT round" % ((": " + why) if why else ""), cfg)
    # D. the last state of a round puts both automata back
    inst = "round-end-resets"
    idle = P.enum_const("thread_phase_idle")
    first = P.enum_const("node_phase_redux_first")
    got = {}
    for s in g.walk():
        if s.k == "BinaryOperator" and s.op == "=" and "node_done" in _case_label_of(g, s):
            tgt = X.show(X.strip(s.children[0]))
            got[tgt] = ceval.ev(s.children[1], {})
    if got.get("thread_phase") == idle and got.get("node_phase") == first and idle is not None:
        ck.holds(rid, inst, g.where, "node_done sets thread_phase = idle and node_phase = first reduction", cfg)
    else:
        ck.violated(rid, inst, g.where, "the last state of a round does not put %s back: %s" % (
            "the thread automaton to idle (the thread keeps stepping a round nobody else is in and never sees the next GVT_START)" if got.get("thread_phase") != idle else "the node automaton to its first state", got), cfg)
    # G. successors of the two reduction states
    inst = "phase-successor"
    second = P.enum_const("node_phase_redux_second")
    want = {first: P.enum_const("node_sent_reduce"), second: P.enum_const("node_min_reduce")}
    upd = [s for s in g.walk() if "node_phase_redux_first" in _case_label_of(g, s) and (
        (s.k == "UnaryOperator" and s.op in ("++",) and X.show(X.strip(s.children[0])) == "node_phase") or
        (s.k in ("BinaryOperator", "CompoundAssignOperator") and (s.k == "CompoundAssignOperator" or s.op == "=") and X.show(X.strip(s.children[0])) == "node_phase"))]
    if len(upd) != 1 or None in want.values():
        ck.inconclusive(rid, inst, g.where, "the state update after a reduction was not recognised", cfg)
    else:
        s0 = upd[0]
        bad = None
        for ph, nxt in want.items():
            if s0.k == "UnaryOperator":
                new = ph + 1
            elif s0.k == "CompoundAssignOperator":
                d = ceval.ev(s0.children[1], {"node_phase": ph})
                new = None if d is None else (ph + d if s0.op == "+=" else None)
            else:
                new = ceval.ev(s0.children[1], {"node_phase": ph})
            if new is None:
                bad = "?"
                break
            if new != nxt and bad is None:
                bad = (ph, new, nxt)
        if bad == "?":
            ck.inconclusive(rid, inst, s0.where, "state update `%s` not evaluable" % X.show(s0)[:60], cfg)
        elif bad:
            ck.violated(rid, inst, s0.where, "after the %s reduction the node automaton goes to state %d instead of %d (%s): the round repeats the message count forever or skips it" % (
                "first" if bad[0] == first else "second", bad[1], bad[2], "message count" if bad[0] == first else "minimum reduction"), cfg)
        else:
            ck.holds(rid, inst, s0.where, "first reduction -> message count, second reduction -> minimum reduction (enumerator values)", cfg)
