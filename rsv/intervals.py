"""F8 — interval evaluation of integer / double expressions with branch refinement.

Real-number semantics for doubles (rounding and underflow ignored, listed as an assumption); integers are evaluated
in unbounded arithmetic and clipped to the range of the node's C type where a conversion or wrap-around can occur
(a wrap makes the result the full range of the type).  Variables are resolved through their reaching definition when
that is unique on every path; branch conditions that hold on every path from that definition to the use refine the
interval.  `None` = not evaluable (the caller reports *inconclusive*).
"""
import math

from . import expr as X
from . import query as Q

INF = float("inf")


class Iv:
    __slots__ = ("lo", "hi", "lo_open", "hi_open", "exact")

    def __init__(self, lo, hi, lo_open=False, hi_open=False, exact=True):
        self.lo, self.hi, self.lo_open, self.hi_open, self.exact = lo, hi, lo_open, hi_open, exact

    def contains(self, v):
        if v < self.lo or v > self.hi:
            return False
        if v == self.lo and self.lo_open:
            return False
        if v == self.hi and self.hi_open:
            return False
        return True

    def __repr__(self):
        return "%s%s, %s%s" % ("(" if self.lo_open else "[", _fmt(self.lo), _fmt(self.hi), ")" if self.hi_open else "]")


def _fmt(v):
    if isinstance(v, float):
        if v in (INF, -INF) or v != v:
            return str(v)
        if v == int(v) and abs(v) < 1e18:
            return str(int(v))
        return repr(v)
    if isinstance(v, int) and abs(v) >= (1 << 40):
        return hex(v)
    return repr(v)


def type_range(ti):
    w, s = ti
    if s:
        return Iv(-(1 << (w - 1)), (1 << (w - 1)) - 1)
    return Iv(0, (1 << w) - 1)


def hull(a, b):
    if a is None or b is None:
        return None
    lo, lo_open = (a.lo, a.lo_open) if (a.lo < b.lo or (a.lo == b.lo and not a.lo_open)) else (b.lo, b.lo_open)
    hi, hi_open = (a.hi, a.hi_open) if (a.hi > b.hi or (a.hi == b.hi and not a.hi_open)) else (b.hi, b.hi_open)
    return Iv(lo, hi, lo_open, hi_open, a.exact and b.exact)


def _mul(x, y):
    if x == 0 or y == 0:
        return 0
    return x * y


def arith(op, a, b):
    if a is None or b is None:
        return None
    ex = a.exact and b.exact
    if op == "+":
        return Iv(a.lo + b.lo, a.hi + b.hi, a.lo_open or b.lo_open, a.hi_open or b.hi_open, ex)
    if op == "-":
        return Iv(a.lo - b.hi, a.hi - b.lo, a.lo_open or b.hi_open, a.hi_open or b.lo_open, ex)
    if op == "*":
        cands = []
        for (x, xo) in ((a.lo, a.lo_open), (a.hi, a.hi_open)):
            for (y, yo) in ((b.lo, b.lo_open), (b.hi, b.hi_open)):
                op_ = (xo and not (y == 0 and not yo)) or (yo and not (x == 0 and not xo))
                cands.append((_mul(x, y), op_))
        lo = min(cands, key=lambda c: (c[0], c[1]))
        hi = max(cands, key=lambda c: (c[0], not c[1]))
        return Iv(lo[0], hi[0], lo[1], hi[1], ex)
    if op == "/":
        if b.contains(0) or (b.lo < 0 < b.hi):
            return None
        inv = Iv(1.0 / b.hi if b.hi not in (0,) else INF, 1.0 / b.lo if b.lo != 0 else (INF if b.hi > 0 else -INF), b.hi_open, b.lo_open, b.exact)
        if b.hi == 0:
            inv = Iv(-INF, 1.0 / b.lo, True, b.lo_open, b.exact)
        return arith("*", a, inv)
    return None


def compare_possible(op, a, b):
    """Set of truth values the comparison a op b can take."""
    if a is None or b is None:
        return {True, False}
    out = set()
    # can a < b ?  exists x in a, y in b with x < y
    def lt_possible(a, b):
        return a.lo < b.hi
    def gt_possible(a, b):
        return a.hi > b.lo
    def eq_possible(a, b):
        lo = max(a.lo, b.lo)
        hi = min(a.hi, b.hi)
        if lo > hi:
            return False
        if lo == hi:
            return a.contains(lo) and b.contains(lo)
        return True
    lt, gt, eq = lt_possible(a, b), gt_possible(a, b), eq_possible(a, b)
    table = {"<": (lt, gt or eq), ">": (gt, lt or eq), "<=": (lt or eq, gt), ">=": (gt or eq, lt), "==": (eq, lt or gt), "!=": (lt or gt, eq)}
    t, f = table[op]
    if t:
        out.add(True)
    if f:
        out.add(False)
    return out


def _low_zero_bits(node):
    """k such that the value of node is a multiple of 2^k by construction (x << k)."""
    n = X.strip(node) if node is not None else None
    if n is not None and n.k == "BinaryOperator" and n.op == "<<":
        c = X.const_int(n.children[1])
        if c is not None:
            return c
    return 0


def _disjoint_or(na, a, nb, b):
    """a | b where one operand is (x << k) and the other stays below 2^k: the bit ranges are disjoint, OR is a sum."""
    for (nx, x, ny, y) in ((na, a, nb, b), (nb, b, na, a)):
        k = _low_zero_bits(nx)
        if k and y.hi < (1 << k):
            return Iv(x.lo + y.lo, x.hi + y.hi, exact=x.exact and y.exact)
    return None


class Evaluator:
    def __init__(self, P, summaries=None):
        self.P = P
        self.summaries = summaries or {}      # callee name -> Iv
        self.assumptions = set()

    # ---- definitions of a local variable
    def defs(self, f, did):
        out = []
        for n in f.walk():
            if n.k == "VarDecl" and n.did == did:
                out.append(n)
            elif n.k in ("BinaryOperator", "CompoundAssignOperator") and (n.k == "CompoundAssignOperator" or n.op == "="):
                t = X.strip(n.children[0])
                if t.k == "DeclRefExpr" and t.did == did:
                    out.append(n)
            elif n.k == "UnaryOperator" and n.op in ("++", "--"):
                t = X.strip(n.children[0])
                if t.k == "DeclRefExpr" and t.did == did:
                    out.append(n)
            elif n.k == "UnaryOperator" and n.op == "&":
                t = X.strip(n.children[0])
                if t.k == "DeclRefExpr" and t.did == did:
                    p = n.parent
                    while p is not None and p.k in ("ImplicitCastExpr", "ParenExpr", "CStyleCastExpr"):
                        p = p.parent
                    if p is not None and p.k == "CallExpr" and p.callee in ("memcpy", "__builtin_memcpy", "__builtin___memcpy_chk") and p.children[1] is not None and n.is_inside(p.children[1]):
                        out.append(p)     # written through memcpy(&v, ...)
        return out

    def reaching_def(self, f, use, did):
        """The unique definition of the variable that reaches `use` on every path, or None."""
        g = f.cfg
        ds = [d for d in self.defs(f, did) if g.position(d) is not None]
        up = g.position(use)
        if up is None:
            return None
        cands = [d for d in ds if g.dominates(d, use) and not use.is_inside(d)]
        best = None
        for d in cands:
            if best is None or g.dominates(best, d):
                best = d
        if best is None:
            return None
        # no other definition may lie between best and the use
        others = {d.id for d in ds if d is not best}
        reach = g.reachable_from(g.position(best), barrier_ids={use.id})
        # a definition inside a loop that contains both is fine only if it is `best` itself
        if others & reach:
            # allowed when those other defs cannot reach the use without passing `best` again
            for o in ds:
                if o.id in (others & reach):
                    if g.escapes(g.position(o), {best.id}, goal="none", goal_ids={use.id}):
                        return None
        return best

    def common_conditions(self, f, frm, use):
        """Conditions (core, truth) taken on EVERY path from the definition `frm` to `use`."""
        g = f.cfg
        paths, complete = Q.path_conditions(f, use, start_block=g.position(frm)[0])
        if not paths or not complete:
            return []
        common = None
        for conds in paths:
            s = {(c.id, t) for c, t in conds}
            common = s if common is None else (common & s)
        nodes = {}
        for conds in paths:
            for c, t in conds:
                nodes[c.id] = c
        out = []
        for (cid, t) in common or ():
            c = nodes[cid]
            if g.position(c) is not None and (g.dominates(frm, c) or c.is_inside(frm)):
                out.append((c, t))
        return out

    # ---- main
    def ev(self, n, f, depth=0):
        if n is None or depth > 40:
            return None
        k = n.k
        if k in ("ParenExpr", "ConstantExpr", "ChooseExpr"):
            return self.ev(n.children[0], f, depth + 1)
        if k in ("IntegerLiteral", "CharacterLiteral"):
            v = n.d.get("val")
            if v is None and "vals" in n.d:
                v = int(n.d["vals"])
            return Iv(v, v)
        if k == "FloatingLiteral":
            return Iv(n.d["val"], n.d["val"])
        if "cv" in n.d and k != "DeclRefExpr":
            return Iv(n.d["cv"], n.d["cv"])
        if "cvs" in n.d:
            return Iv(int(n.d["cvs"]), int(n.d["cvs"]))
        if "cvf" in n.d:
            return Iv(n.d["cvf"], n.d["cvf"])
        if k in ("ImplicitCastExpr", "CStyleCastExpr"):
            v = self.ev(n.children[0], f, depth + 1)
            ti = n.d.get("ti")
            if v is None:
                return type_range(ti) if ti and n.ck != "LValueToRValue" and False else None
            if ti and n.ck in ("IntegralCast", "FloatingToIntegral"):
                r = type_range(ti)
                if n.ck == "FloatingToIntegral":
                    v = Iv(math.floor(v.lo) if v.lo > -INF else v.lo, math.floor(v.hi) if v.hi < INF else v.hi, False, False, v.exact)
                if v.lo < r.lo or v.hi > r.hi:
                    return Iv(r.lo, r.hi, exact=False)        # wraps: anything of the type
            return v
        if k == "DeclRefExpr":
            if n.d.get("dk") == "enum":
                return Iv(n.d["val"], n.d["val"])
            if n.d.get("sc") in ("local", "param"):
                return self.var(n, f, depth)
            return None
        if k == "UnaryOperator":
            if n.op == "-":
                v = self.ev(n.children[0], f, depth + 1)
                return None if v is None else Iv(-v.hi, -v.lo, v.hi_open, v.lo_open, v.exact)
            if n.op in ("+", "__extension__"):
                return self.ev(n.children[0], f, depth + 1)
            return None
        if k == "BinaryOperator":
            op = n.op
            a = self.ev(n.children[0], f, depth + 1)
            b = self.ev(n.children[1], f, depth + 1)
            ti = n.d.get("ti")
            if op in ("+", "-", "*"):
                if op == "*" and a is not None and X.show(n.children[0]) == X.show(n.children[1]) and not any(x.k == "CallExpr" for x in n.children[0].walk()):
                    # a square: [0, max(lo^2, hi^2)]
                    m = max(abs(a.lo), abs(a.hi))
                    m_open = (a.lo_open if abs(a.lo) >= abs(a.hi) else a.hi_open) and abs(a.lo) != abs(a.hi)
                    lo0 = 0 if a.lo <= 0 <= a.hi else min(a.lo * a.lo, a.hi * a.hi)
                    return Iv(lo0, m * m, False, m_open, a.exact)
                r = arith(op, a, b)
                if r is not None and (self._shares_var(n.children[0], n.children[1])):
                    r.exact = False
                if r is not None and ti:
                    tr = type_range(ti)
                    if r.lo < tr.lo or r.hi > tr.hi:
                        return Iv(tr.lo, tr.hi, exact=False)
                return r
            if op == "/":
                if a is None or b is None:
                    return None
                if ti:
                    if b.lo <= 0:
                        return None
                    return Iv(a.lo // b.hi if a.lo >= 0 else -((-a.lo) // b.lo), a.hi // b.lo if a.hi >= 0 else 0, exact=a.exact and b.exact)
                return arith("/", a, b)
            if op == ">>" and a is not None and b is not None and b.lo == b.hi and a.lo >= 0:
                return Iv(a.lo >> b.lo, a.hi >> b.lo, exact=a.exact)
            if op == "<<" and a is not None and b is not None and a.lo >= 0 and b.lo >= 0:
                r = Iv(a.lo << b.lo, a.hi << b.hi, exact=a.exact and b.exact)
                if ti:
                    tr = type_range(ti)
                    if r.hi > tr.hi:
                        return Iv(tr.lo, tr.hi, exact=False)
                return r
            if op == "&" and b is not None and b.lo == b.hi and b.lo >= 0:
                return Iv(0, b.lo, exact=False)
            if op == "&" and a is not None and a.lo == a.hi and a.lo >= 0:
                return Iv(0, a.lo, exact=False)
            if op == "|" and a is not None and b is not None and a.lo >= 0 and b.lo >= 0:
                d = _disjoint_or(n.children[0], a, n.children[1], b)
                if d is not None:
                    return d
                return Iv(max(a.lo, b.lo), (1 << max(int(a.hi).bit_length(), int(b.hi).bit_length())) - 1, exact=False)
            if op == ",":
                return b
            return None
        if k == "ConditionalOperator":
            return hull(self.ev(n.children[1], f, depth + 1), self.ev(n.children[2], f, depth + 1))
        if k == "StmtExpr":
            body = n.children[0] if n.children else None
            last = body.children[-1] if body is not None and body.children else None
            return self.ev(last, f, depth + 1) if last is not None else None
        if k == "CallExpr":
            c = n.callee
            args = X.callee_args(n)
            if c == "__builtin_expect":
                return self.ev(n.children[1], f, depth + 1)
            if c in self.summaries:
                s = self.summaries[c]
                return Iv(s.lo, s.hi, s.lo_open, s.hi_open, True)
            if c in ("__builtin_clz", "__builtin_clzl", "__builtin_clzll", "__builtin_ctz", "__builtin_ctzl", "__builtin_ctzll"):
                w = {"": 32, "l": 64, "ll": 64}[c.replace("__builtin_clz", "").replace("__builtin_ctz", "")]
                a = self.ev(args[0], f, depth + 1)
                if a is not None and a.lo >= 1:
                    hi = w - 1
                    lo = 0
                    if c.startswith("__builtin_clz"):
                        lo = max(0, w - int(a.hi).bit_length())
                        hi = w - int(a.lo).bit_length()
                    return Iv(lo, hi, exact=a.exact)
                return None      # argument may be zero: undefined
            if c in ("floor",):
                a = self.ev(args[0], f, depth + 1)
                return None if a is None else Iv(math.floor(a.lo) if abs(a.lo) < INF else a.lo, math.floor(a.hi) if abs(a.hi) < INF else a.hi, False, False, a.exact)
            if c in ("sqrt",):
                a = self.ev(args[0], f, depth + 1)
                if a is None or a.lo < 0:
                    return None
                return Iv(math.sqrt(a.lo), math.sqrt(a.hi) if a.hi < INF else INF, a.lo_open, a.hi_open, a.exact)
            if c in ("log",):
                a = self.ev(args[0], f, depth + 1)
                if a is None or a.lo < 0 or (a.lo == 0 and not a.lo_open):
                    return None
                lo = -INF if a.lo == 0 else math.log(a.lo)
                return Iv(lo, math.log(a.hi) if a.hi < INF else INF, a.lo_open, a.hi_open, a.exact)
            if c in ("exp",):
                a = self.ev(args[0], f, depth + 1)
                if a is None:
                    return None
                return Iv(0.0 if a.lo == -INF else math.exp(a.lo), INF if a.hi > 700 else math.exp(a.hi), a.lo_open or a.lo == -INF, a.hi_open, a.exact)
            return None
        if k == "MemberExpr" or k == "ArraySubscriptExpr":
            return None
        return None

    def _leaf_vars(self, n):
        return {x.did for x in n.walk() if x.k == "DeclRefExpr" and x.d.get("dk") == "var"} | \
               {("call", x.callee, x.id) for x in n.walk() if x.k == "CallExpr" and x.callee in self.summaries and False}

    def _shares_var(self, a, b):
        return bool(self._leaf_vars(a) & self._leaf_vars(b))

    def var(self, ref, f, depth):
        d = self.reaching_def(f, ref, ref.did)
        if d is None:
            fp = self.loop_carried(f, ref, depth)
            if fp is not None:
                return fp
            # a parameter whose modifications (if any) cannot reach this use: range of its type
            g = f.cfg
            if ref.d.get("sc") == "param" and not any(g.position(x) is not None and ref.id in g.reachable_from(g.position(x)) for x in self.defs(f, ref.did)):
                ti = ref.d.get("ti")
                # caller-supplied: its documented domain is unknown to the analysis, so never "exact"
                if ti:
                    tr = type_range(ti)
                    return self.refine(Iv(tr.lo, tr.hi, exact=False), ref, f, None)
                if ref.d.get("tf"):
                    return self.refine(Iv(-INF, INF, exact=False), ref, f, None)
            return None
        v = None
        if d.k == "VarDecl":
            v = self.ev(d.children[0], f, depth + 1) if d.children else None
        elif d.k == "BinaryOperator":
            v = self.ev(d.children[1], f, depth + 1)
        elif d.k == "CompoundAssignOperator":
            prev = self.var_before(d, ref, f, depth)
            rhs = self.ev(d.children[1], f, depth + 1)
            op = d.op[:-1]
            ti = (d.d.get("comp") or {}).get("ti") or d.children[0].d.get("ti")
            if op in ("+", "-", "*"):
                v = arith(op, prev, rhs)
            elif op == ">>" and prev is not None and rhs is not None and rhs.lo == rhs.hi and prev.lo >= 0:
                v = Iv(prev.lo >> rhs.lo, prev.hi >> rhs.lo, exact=prev.exact)
            elif op == "<<":
                v = None
                if prev is not None and rhs is not None and prev.lo >= 0 and rhs.lo >= 0:
                    v = Iv(prev.lo << rhs.lo, prev.hi << rhs.hi, exact=False)
            elif op == "|" and prev is not None and rhs is not None and prev.lo >= 0 and rhs.lo >= 0:
                v = _disjoint_or(None, prev, d.children[1], rhs)
                if v is None:
                    v = Iv(max(prev.lo, rhs.lo), (1 << max(int(prev.hi).bit_length(), int(rhs.hi).bit_length())) - 1, exact=False)
            lt = d.children[0].d.get("ti")
            if lt:
                tr = type_range(lt)
                if v is None or v.lo < tr.lo or v.hi > tr.hi:
                    v = Iv(tr.lo, tr.hi, exact=False)
        elif d.k == "UnaryOperator":
            prev = self.var_before(d, ref, f, depth)
            v = arith("+" if d.op == "++" else "-", prev, Iv(1, 1))
        if v is None:
            ti = ref.d.get("ti")
            if ti and d.k in ("VarDecl", "BinaryOperator", "CompoundAssignOperator", "UnaryOperator"):
                v = Iv(type_range(ti).lo, type_range(ti).hi, exact=False)
            else:
                return None
        return self.refine(v, ref, f, d)

    def loop_carried(self, f, ref, depth):
        """v = init; loop { v op= e }  ->  least fixpoint of the interval recurrence (a few Kleene steps; sound only if it
        stabilises, otherwise None)."""
        ds = [d for d in self.defs(f, ref.did) if f.cfg.position(d) is not None]
        inits = [d for d in ds if d.k in ("VarDecl", "BinaryOperator") and (d.k != "VarDecl" or d.children)]
        comps = [d for d in ds if d.k == "CompoundAssignOperator" and d.op in ("*=", "+=", "-=")]
        if len(inits) != 1 or not comps or len(inits) + len(comps) != len([d for d in ds if d.k != "VarDecl" or d.children]):
            return None
        init = inits[0]
        if not all(f.cfg.dominates(init, c) for c in comps):
            return None
        cur = self.ev(init.children[0] if init.k == "VarDecl" else init.children[1], f, depth + 1)
        if cur is None:
            return None
        init_iv = cur
        first = None
        all_exact = cur.exact
        for it in range(6):
            nxt = cur
            for c in comps:
                e = self.ev(c.children[1], f, depth + 1)
                step = arith(c.op[:-1], cur, e)
                if step is None:
                    return None
                all_exact = all_exact and e is not None and e.exact
                nxt = hull(nxt, step)
            if it == 0:
                first = nxt
            if (nxt.lo, nxt.hi, nxt.lo_open, nxt.hi_open) == (cur.lo, cur.hi, cur.lo_open, cur.hi_open):
                # Every value of the first iterate is attained (initial value after 0 rounds, one exact step after 1 round).  If the
                # recurrence is already stable there and the single loop update leaves no gap next to the initial value, the fixpoint
                # is attained point by point; otherwise only its bounds are known.
                stable_at_first = first is not None and (first.lo, first.hi, first.lo_open, first.hi_open) == (cur.lo, cur.hi, cur.lo_open, cur.hi_open)
                cur.exact = bool(all_exact and stable_at_first and len(comps) == 1)
                return cur
            cur = nxt
        return None

    def var_before(self, d, ref, f, depth):
        """Value of the variable just before the (compound) definition d."""
        t = X.strip(d.children[0])
        return self.var(t, f, depth + 1) if t.k == "DeclRefExpr" else None

    def refine(self, v, ref, f, d):
        g = f.cfg
        if d is not None:
            conds = self.common_conditions(f, d, ref)
        else:
            paths, complete = Q.path_conditions(f, ref)
            conds = []
            if paths and complete:
                common = None
                nodes = {}
                for cs in paths:
                    s = {(c.id, t) for c, t in cs}
                    common = s if common is None else common & s
                    for c, t in cs:
                        nodes[c.id] = c
                conds = [(nodes[i], t) for (i, t) in common]
        lo, hi, lo_open, hi_open = v.lo, v.hi, v.lo_open, v.hi_open
        for core, t in conds:
            c = X.strip(core)
            if c.k == "DeclRefExpr" and c.did == ref.did:
                # truthiness
                if t is False:
                    lo = hi = 0
                    lo_open = hi_open = False
                else:
                    if lo == 0 and not lo_open:
                        if ref.d.get("ti"):
                            lo = 1
                        else:
                            lo_open = True
                    if hi == 0 and not hi_open:
                        hi_open = True
                continue
            if c.k != "BinaryOperator" or c.op not in ("<", "<=", ">", ">=", "==", "!="):
                continue
            l, r = X.strip(c.children[0]), X.strip(c.children[1])
            op = c.op
            if r.k == "DeclRefExpr" and r.did == ref.did and not (l.k == "DeclRefExpr" and l.did == ref.did):
                l, r = r, l
                op = {"<": ">", ">": "<", "<=": ">=", ">=": "<=", "==": "==", "!=": "!="}[op]
            if not (l.k == "DeclRefExpr" and l.did == ref.did):
                continue
            k = X.const_float(r)
            if k is None:
                kv = self.ev(r, f, 30)
                if kv is None or kv.lo != kv.hi:
                    continue
                k = kv.lo
            if not t:
                op = {"<": ">=", ">": "<=", "<=": ">", ">=": "<", "==": "!=", "!=": "=="}[op]
            integer = bool(ref.d.get("ti"))
            if op == "<":
                if integer:
                    hi = min(hi, math.ceil(k) - 1)
                elif k < hi or (k == hi):
                    hi, hi_open = min(hi, k), True if k <= hi else hi_open
            elif op == "<=":
                if k < hi:
                    hi, hi_open = (math.floor(k) if integer else k), False
            elif op == ">":
                if integer:
                    lo = max(lo, math.floor(k) + 1)
                elif k > lo or k == lo:
                    lo, lo_open = max(lo, k), True if k >= lo else lo_open
            elif op == ">=":
                if k > lo:
                    lo, lo_open = (math.ceil(k) if integer else k), False
            elif op == "==":
                lo, hi, lo_open, hi_open = k, k, False, False
            elif op == "!=":
                if k == lo and not lo_open:
                    if integer:
                        lo += 1
                    else:
                        lo_open = True
                if k == hi and not hi_open:
                    if integer:
                        hi -= 1
                    else:
                        hi_open = True
        return Iv(lo, hi, lo_open, hi_open, v.exact)
