"""F7 comparator recogniser (C16; reused by C01, C10, C15).

The order used by the runtime is  msg_is_before(a,b) := ta < tb || (ta == tb && ext(a,b))  with
ext = msg_is_before_extended, a cascade of stages  `if (k(a) != k(b)) return k(a) OP k(b);`  and a final byte
comparison.  A lexicographic composition of strict weak orders over key projections is a strict weak order; the
rules below establish that the code *is* such a composition, that it reads content fields only, and that every
ordering decision in the runtime goes through it.
"""
from . import expr as X

CONTENT_FIELDS = {"dest_t", "raw_flags", "flags", "m_type", "pl_size", "pl", "extra_pl"}
STRICT = {"<", ">"}
FLIP = {"<": ">", ">": "<", "<=": ">=", ">=": "<="}


def _subst_show(n, frm, to):
    """Canonical text with parameter `frm` renamed to `to`."""
    s = X.show(n)
    # parameters are single identifiers; canonical text separates tokens with non-identifier characters
    import re
    return re.sub(r"\b%s\b" % re.escape(frm), to, s)


def _fields_read(n):
    out = []
    for x in n.walk():
        if x.k == "MemberExpr" and x.d.get("name"):
            out.append((x.rec, x.name, x))
    return out


def _address_uses(n, params):
    """Uses of a comparator parameter other than as the base of a field access: the pointer value itself."""
    out = []
    for x in n.walk():
        if x.k == "DeclRefExpr" and x.name in params:
            p = x.parent
            while p is not None and p.k in ("ImplicitCastExpr", "ParenExpr"):
                p = p.parent
            if p is None or not (p.k == "MemberExpr" or (p.k == "UnaryOperator" and p.op == "*") or p.k == "ArraySubscriptExpr"):
                out.append(x)
    return out


def _guarded_bytes(ck, P, rid_cascade, rid_content, st, guard, ret, a, b, seen_keys, anti, cfgname):
    """A stage `if(G) return memcmp(pa, pb, len) OP 0;` (a fast path for some payload sizes).  Handled here (returns True) when
    the returned value is a byte comparison; the verdict is recorded."""
    rv = X.strip(ret.children[0])
    if rv.k != "BinaryOperator" or rv.op not in FLIP:
        return False
    call, zero = X.strip(rv.children[0]), rv.children[1]
    if X.is_zero(call):
        call, zero = X.strip(rv.children[1]), rv.children[0]
    if not (call.k == "CallExpr" and call.callee in ("memcmp", "__builtin_memcmp") and X.is_zero(zero)):
        return False
    inst = "guarded-bytes@%d" % st.line
    pa, pb, ln = X.callee_args(call)
    if rv.op not in STRICT:
        ck.violated(rid_cascade, inst, st.where, "byte-comparison stage is not strict (%s 0)" % rv.op, cfgname)
        return True
    if _subst_show(pa, a, b) != X.show(pb) and _subst_show(pa, b, a) != X.show(pb):
        ck.violated(rid_cascade, inst, st.where, "byte comparison of different projections: %s vs %s" % (X.show(pa), X.show(pb)), cfgname)
        return True
    lnkey = X.show(ln)
    lnkey_other = _subst_show(ln, a, b) if X.refs_var(ln, name=a) else _subst_show(ln, b, a)
    # the guard may only read keys that earlier stages made equal (so it is the same for both arguments) and constants
    core, neg = X.strip_bool(guard)
    gkeys = [X.show(m) for m in core.walk() if m.k == "MemberExpr" and not (m.parent is not None and m.parent.k == "MemberExpr")]
    bad_guard = [k for k in gkeys if k not in seen_keys and _swap_show(k, a, b) not in seen_keys]
    if bad_guard:
        ck.violated(rid_cascade, inst, st.where, "the fast path is chosen by %s, which no earlier stage made equal for the two events: the order is not symmetric" % bad_guard[0], cfgname)
        return True
    if lnkey in seen_keys or lnkey_other in seen_keys:
        ck.holds(rid_cascade, inst, st.where, "if(%s) return memcmp(%s, %s, %s) %s 0: length equalised by an earlier stage, guard reads equalised keys only" % (X.show(core), X.show(pa), X.show(pb), lnkey, rv.op), cfgname)
        for rec, name, node in _fields_read(call):
            _content_field(ck, rid_content, P, rec, name, node, anti, cfgname)
        return True
    n = X.const_int(ln)
    if n is not None:
        # a constant length is the payload only if the guard pins the size key to it
        pinned = core.k == "BinaryOperator" and core.op == "==" and not neg and n in (X.const_int(core.children[0]), X.const_int(core.children[1]))
        if pinned:
            ck.holds(rid_cascade, inst, st.where, "compares %d bytes where the payload size is %d" % (n, n), cfgname)
        else:
            ck.violated(rid_cascade, inst, st.where, "under `%s` the stage compares %d bytes whatever the payload size: bytes after the payload (left over from the buffer's earlier "
                        "use, not content) decide the order of two events with equal content" % (X.show(core), n), cfgname)
        return True
    ck.violated(rid_cascade, inst, st.where, "length %s of the byte comparison is not the payload size equalised by an earlier stage (stages: %s)" % (lnkey, seen_keys), cfgname)
    return True


def _swap_show(text, a, b):
    import re
    return re.sub(r"\b(%s|%s)\b" % (re.escape(a), re.escape(b)), lambda m: b if m.group(1) == a else a, text)


def check_extended(ck, P, rid_cascade, rid_content):
    cfgname = P.config
    f = P.fn("msg_is_before_extended")
    if len(f.params) != 2:
        ck.inconclusive(rid_cascade, "msg_is_before_extended", f.where, "not a binary comparator", cfgname)
        return
    a, b = f.params[0]["name"], f.params[1]["name"]
    anti = P.enum_const("MSG_FLAG_ANTI")
    body = f.root.children
    stages = []
    ok = True
    seen_keys = []
    for st in body:
        if st.k == "IfStmt":
            cond = X.strip(st.children[0]) if st.children[0].k != "Null" else None
            # clang IfStmt children: [cond, then, (else)] possibly preceded by init/condvar Nulls; find them by kind
            kids = [c for c in st.children if c.k != "Null"]
            cond, then = X.strip(kids[0]), kids[1]
            if len(kids) > 2:
                ck.inconclusive(rid_cascade, "stage@%d" % len(stages), st.where, "stage has an else branch", cfgname)
                ok = False
                continue
            ret = then if then.k == "ReturnStmt" else (then.children[0] if then.k == "CompoundStmt" and len(then.children) == 1 else None)
            if ret is not None and ret.k == "ReturnStmt" and ret.children and _guarded_bytes(ck, P, rid_cascade, rid_content, st, kids[0], ret, a, b, seen_keys, anti, cfgname):
                continue
            if cond.k != "BinaryOperator" or cond.op != "!=" or ret is None or ret.k != "ReturnStmt":
                ck.inconclusive(rid_cascade, "stage@%d" % len(stages), st.where, "not of the form if(k(a) != k(b)) return ...", cfgname)
                ok = False
                continue
            L, R = cond.children
            key = X.show(L)
            inst = "stage:" + key
            if _subst_show(L, a, b) != X.show(R) or not X.refs_var(L, name=a) or X.refs_var(L, name=b):
                ck.violated(rid_cascade, inst, st.where, "key is not the same projection on both sides: %s vs %s" % (X.show(L), X.show(R)), cfgname)
                ok = False
                continue
            rv = X.strip(ret.children[0])
            if rv.k != "BinaryOperator" or rv.op not in FLIP:
                ck.violated(rid_cascade, inst, ret.where, "stage does not return an order comparison of its key: %s" % X.show(rv), cfgname)
                ok = False
                continue
            l2, r2 = X.show(rv.children[0]), X.show(rv.children[1])
            if not ((l2 == X.show(L) and r2 == X.show(R)) or (l2 == X.show(R) and r2 == X.show(L))):
                ck.violated(rid_cascade, inst, ret.where, "stage compares %s with %s but was guarded on %s" % (l2, r2, key), cfgname)
                ok = False
                continue
            # under k(a) != k(b), <= is < : both accepted
            ck.holds(rid_cascade, inst, st.where, "if(%s != %s) return %s %s %s: symmetric key, total order on the key, strict under the guard" % (X.show(L), X.show(R), l2, rv.op, r2), cfgname)
            stages.append((key, L))
            seen_keys.append(key)
            # content check
            for rec, name, node in _fields_read(L) + _fields_read(R) + _fields_read(rv):
                _content_field(ck, rid_content, P, rec, name, node, anti, cfgname)
        elif st.k == "ReturnStmt":
            rv = X.strip(st.children[0])
            inst = "final"
            if rv.k == "BinaryOperator" and rv.op in FLIP:
                call = X.strip(rv.children[0])
                zero = rv.children[1]
                if X.is_zero(call):
                    call, zero = X.strip(rv.children[1]), rv.children[0]
                if call.k == "CallExpr" and call.callee in ("memcmp", "__builtin_memcmp") and X.is_zero(zero):
                    args = X.callee_args(call)
                    pa, pb, ln = args
                    if rv.op not in STRICT:
                        ck.violated(rid_cascade, inst, st.where, "last stage is not strict (%s %s 0): two events with equal content would each be before the other" % (X.show(call), rv.op), cfgname)
                        ok = False
                        continue
                    if _subst_show(pa, a, b) != X.show(pb) and _subst_show(pa, b, a) != X.show(pb):
                        ck.violated(rid_cascade, inst, st.where, "byte comparison of different projections: %s vs %s" % (X.show(pa), X.show(pb)), cfgname)
                        ok = False
                        continue
                    lnkey = X.show(ln)
                    lnkey_other = _subst_show(ln, a, b) if X.refs_var(ln, name=a) else _subst_show(ln, b, a)
                    if lnkey not in seen_keys and lnkey_other not in seen_keys:
                        ck.violated(rid_cascade, inst, st.where, "length %s of the byte comparison is not equalised by an earlier stage (stages: %s)" % (lnkey, seen_keys), cfgname)
                        ok = False
                        continue
                    for rec, name, node in _fields_read(call):
                        _content_field(ck, rid_content, P, rec, name, node, anti, cfgname)
                    ck.holds(rid_cascade, inst, st.where, "return memcmp(%s, %s, %s) %s 0: strict, symmetric, length equalised by stage %s" % (X.show(pa), X.show(pb), lnkey, rv.op, lnkey), cfgname)
                    stages.append(("memcmp", call))
                    continue
                # a plain last key comparison is also a valid strict stage
                L, R = rv.children
                if rv.op in STRICT and _subst_show(L, a, b) == X.show(R):
                    ck.holds(rid_cascade, inst, st.where, "return %s %s %s (strict, symmetric key)" % (X.show(L), rv.op, X.show(R)), cfgname)
                    for rec, name, node in _fields_read(rv):
                        _content_field(ck, rid_content, P, rec, name, node, anti, cfgname)
                    stages.append((X.show(L), L))
                    continue
                if _subst_show(L, a, b) == X.show(R):
                    ck.violated(rid_cascade, inst, st.where, "last stage %s is not strict" % X.show(rv), cfgname)
                    ok = False
                    continue
            ck.inconclusive(rid_cascade, inst, st.where, "unrecognised final stage: %s" % X.show(rv), cfgname)
            ok = False
        else:
            ck.inconclusive(rid_cascade, "stmt", st.where, "unrecognised statement kind %s in comparator" % st.k, cfgname)
            ok = False
    for x in _address_uses(f.root, (a, b)):
        ck.violated(rid_content, "address:%s" % x.name, x.where, "comparator uses the address of an event (%s), which is not content" % X.show(x.parent), cfgname)
    ck.expect(rid_cascade, len(stages), 2, "comparator stages")
    return ok


def _content_field(ck, rid, P, rec, name, node, anti, cfgname):
    inst = "field:%s.%s" % (rec, name)
    if rec != "lp_msg" or name not in CONTENT_FIELDS:
        ck.violated(rid, inst, node.where, "comparator reads %s.%s, which is not event content (timestamp, cancel flag, type, size, payload)" % (rec, name), cfgname)
        return
    if name in ("raw_flags", "flags"):
        # only the ANTI bit is content; the other bits carry the sender id / GVT colours for remote events
        p = node.parent
        while p is not None and p.k in ("ImplicitCastExpr", "ParenExpr"):
            p = p.parent
        if p is None or p.k != "BinaryOperator" or p.op != "&" or X.const_int(p.children[1]) != anti and X.const_int(p.children[0]) != anti:
            ck.violated(rid, inst + ":unmasked", node.where, "comparator reads flag bits other than the cancellation bit", cfgname)
            return
    ck.holds(rid, inst, node.where, "content field", cfgname)


def recognise_top(n, P):
    """Recognise  X.T < Y.T || (X.T == Y.T && msg_is_before_extended(X', Y'))  at node n.
    Returns dict(a=, b=, kind=) or a string describing why not."""
    n = X.strip(n)
    if n.k != "BinaryOperator" or n.op != "||":
        return "top is not ||"
    lt, rest = X.strip(n.children[0]), X.strip(n.children[1])
    if lt.k != "BinaryOperator" or lt.op not in STRICT:
        return "first disjunct is not a strict comparison: " + X.show(lt)
    if rest.k != "BinaryOperator" or rest.op != "&&":
        return "second disjunct is not (eq && ext)"
    eq, ext = X.strip(rest.children[0]), X.strip(rest.children[1])
    if eq.k != "BinaryOperator" or eq.op != "==":
        return "tie test is not ==: " + X.show(eq)
    if ext.k != "CallExpr" or ext.callee != "msg_is_before_extended":
        return "tie is not broken by msg_is_before_extended: " + X.show(ext)
    ta, tb = lt.children
    if lt.op == ">":
        ta, tb = tb, ta
    sa, sb = X.show(ta), X.show(tb)
    ea, eb = X.show(eq.children[0]), X.show(eq.children[1])
    if {sa, sb} != {ea, eb}:
        return "tie test compares other operands (%s == %s) than the order test (%s < %s)" % (ea, eb, sa, sb)
    xa, xb = X.callee_args(ext)
    A, B = X.show(xa), X.show(xb)
    fa = X.strip(ta)
    fb = X.strip(tb)
    if fa.k != "MemberExpr" or fb.k != "MemberExpr" or fa.name != fb.name:
        return "timestamps are not the same field of two objects"
    oa, ob = X.show(fa.children[0]), X.show(fb.children[0])
    if fa.name == "dest_t" and fa.rec == "lp_msg":
        if (oa, ob) != (A, B):
            return "tie-break arguments (%s,%s) differ from the compared messages (%s,%s)" % (A, B, oa, ob)
        return {"a": oa, "b": ob, "kind": "msg"}
    if fa.name == "t" and fa.rec == "q_elem":
        # (ma).t vs ma.m
        ma, mb = X.strip(xa), X.strip(xb)
        if ma.k != "MemberExpr" or ma.name != "m" or X.show(ma.children[0]) != oa or mb.k != "MemberExpr" or mb.name != "m" or X.show(mb.children[0]) != ob:
            return "tie-break arguments are not the .m of the compared queue elements"
        return {"a": oa, "b": ob, "kind": "q_elem"}
    return "unknown timestamp field %s.%s" % (fa.rec, fa.name)


def comparator_sites(P):
    """All recognised or unrecognised top-level comparator expansions: list of (fn, node, macro, result)."""
    out = []
    for f in P.all_functions():
        for macro in ("msg_is_before", "q_elem_is_before"):
            for n in X.expansions(f.root, macro):
                out.append((f, n, macro, recognise_top(n, P)))
    return out


def check_uses(ck, P, rid):
    """One order everywhere: every ordering decision over events goes through a recognised comparator expansion."""
    cfgname = P.config
    sites = comparator_sites(P)
    good_nodes = []
    n_ok = 0
    for f, n, macro, res in sites:
        inst = "%s@%s" % (macro, f.name)
        if isinstance(res, str):
            ck.violated(rid, inst, n.where, "expansion of %s is not the canonical order: %s" % (macro, res), cfgname)
        else:
            n_ok += 1
            good_nodes.append(n)
            ck.holds(rid, inst, n.where, "%s(%s, %s): timestamp first, content tie-break on the same pair" % (macro, res["a"], res["b"]), cfgname)
    # every call of the tie-break and every relational comparison of two event timestamps sits inside one
    for f in P.all_functions():
        if f.name == "msg_is_before_extended":
            continue
        for n in f.walk():
            bad = None
            if n.k == "CallExpr" and n.callee == "msg_is_before_extended":
                bad = "call of the tie-break"
            elif n.k == "BinaryOperator" and n.op in ("<", ">", "<=", ">="):
                l, r = X.strip(n.children[0]), X.strip(n.children[1])
                if all(x.k == "MemberExpr" and ((x.name == "dest_t" and x.rec == "lp_msg") or (x.name == "t" and x.rec == "q_elem")) for x in (l, r)):
                    bad = "comparison of two event timestamps"
            elif n.k == "CallExpr" and n.callee in ("memcmp", "__builtin_memcmp"):
                if any(x.k == "MemberExpr" and x.name == "pl" and x.rec == "lp_msg" for a in X.callee_args(n) for x in a.walk()):
                    bad = "byte comparison of two payloads"
            if bad and not any(n is g or n.is_inside(g) for g in good_nodes):
                ck.violated(rid, "adhoc:%s" % f.name, n.where, "%s outside the canonical comparator: %s" % (bad, X.show(n)), cfgname)
    # heap operations on event heaps take the comparator
    n_heap = 0
    for f in P.all_functions():
        for n in f.walk():
            if n.k == "StmtExpr" and n.macros and n.macros[0] in ("heap_insert", "heap_extract", "heap_insert_n"):
                m = n.macros[0]
                inside = [g for g in good_nodes if g.is_inside(n)]
                need = 2 if m == "heap_extract" else 1
                inst = "%s@%s" % (m, f.name)
                # is this an event heap?  element type mentions lp_msg or q_elem
                txt = n.d.get("mcall", "")
                n_heap += 1
                if len(inside) >= need:
                    ck.holds(rid, inst, n.where, "%s uses the canonical comparator at its %d decision point(s)" % (m, len(inside)), cfgname)
                else:
                    ck.violated(rid, inst, n.where, "%s decides the heap order without the canonical comparator (%s)" % (m, txt[:80]), cfgname)
    ck.expect(rid, len(sites), 8 if cfgname == "asbuilt" else 10, "comparator expansions")
    ck.expect(rid, n_heap, 6, "heap operations on event heaps")
    return sites
