"""F7 comparator recogniser (C16; reused by C01, C10, C15).

The order used by the runtime is  msg_is_before(a,b) := ta < tb || (ta == tb && ext(a,b))  with
ext = msg_is_before_extended, a cascade of stages  `if (k(a) != k(b)) return k(a) OP k(b);`  and a final byte
comparison.  A lexicographic composition of strict weak orders over key projections is a strict weak order; the
rules below establish that the code *is* such a composition, that it reads content fields only, and that every
ordering decision in the runtime goes through it.
"""
from . import expr as X

CONTENT_FIELDS = {"dest_t", "raw_flags", "flags", "m_type", "pl_size", "pl", "extra_pl"}
STRICT = {"<", ">"}
FLIP = {"<": ">", ">": "<", "<=": ">=", ">=": "<="}


def _subst_show(n, frm, to):
    """Canonical text with parameter `frm` renamed to `to`."""
    s = X.show(n)
    # parameters are single identifiers; canonical text separates tokens with non-identifier characters
    import re
    return re.sub(r"\b%s\b" % re.escape(frm), to, s)


def _fields_read(n):
    out = []
    for x in n.walk():
        if x.k == "MemberExpr" and x.d.get("name"):
            out.append((x.rec, x.name, x))
    return out


def _address_uses(n, params):
    """Uses of a comparator parameter other than as the base of a field access: the pointer value itself."""
    out = []
    for x in n.walk():
        if x.k == "DeclRefExpr" and x.name in params:
            p = x.parent
            while p is not None and p.k in ("ImplicitCastExpr", "ParenExpr"):
                p = p.parent
            if p is None or not (p.k == "MemberExpr" or (p.k == "UnaryOperator" and p.op == "*") or p.k == "ArraySubscriptExpr"):
                out.append(x)
    return out


def _guarded_bytes(ck, P, rid_cascade, rid_content, st, guard, ret, a, b, seen_keys, anti, cfgname):
    """A stage `if(G) return memcmp(pa, pb, len) OP 0;` (a fast path for some payload sizes).  Handled here (returns True) when
    the returned value is a byte comparison; the verdict is recorded."""
    rv = X.strip(ret.children[0])
    if rv.k != "BinaryOperator" or rv.op not in FLIP:
        return False
    call, zero = X.strip(rv.children[0]), rv.children[1]
    if X.is_zero(call):
        call, zero = X.strip(rv.children[1]), rv.children[0]
    if not (call.k == "CallExpr" and call.callee in ("memcmp", "__builtin_memcmp") and X.is_zero(zero)):
        return False
    inst = "guarded-bytes@%d" % st.line
    pa, pb, ln = X.callee_args(call)
    if rv.op not in STRICT:
        ck.violated(rid_cascade, inst, st.where, "byte-comparison stage is not strict (%s 0)" % rv.op, cfgname)
        return True
    if _subst_show(pa, a, b) != X.show(pb) and _subst_show(pa, b, a) != X.show(pb):
        ck.violated(rid_cascade, inst, st.where, "byte comparison of different projections: %s vs %s" % (X.show(pa), X.show(pb)), cfgname)
        return True
    lnkey = X.show(ln)
    lnkey_other = _subst_show(ln, a, b) if X.refs_var(ln, name=a) else _subst_show(ln, b, a)
    # the guard may only read keys that earlier stages made equal (so it is the same for both arguments) and constants
    core, neg = X.strip_bool(guard)
    gkeys = [X.show(m) for m in core.walk() if m.k == "MemberExpr" and not (m.parent is not None and m.parent.k == "MemberExpr")]
    bad_guard = [k for k in gkeys if k not in seen_keys and _swap_show(k, a, b) not in seen_keys]
    if bad_guard:
        ck.violated(rid_cascade, inst, st.where, "the fast path is chosen by %s, which no earlier stage made equal for the two events: the order is not symmetric" % bad_guard[0], cfgname)
        return True
    if lnkey in seen_keys or lnkey_other in seen_keys:
        ck.holds(rid_cascade, inst, st.where, "if(%s) return memcmp(%s, %s, %s) %s 0: length equalised by an earlier stage, guard reads equalised keys only" % (X.show(core), X.show(pa), X.show(pb), lnkey, rv.op), cfgname)
        for rec, name, node in _fields_read(call):
            _content_field(ck, rid_content, P, rec, name, node, anti, cfgname)
        return True
    n = X.const_int(ln)
    if n is not None:
        # a constant length is the payload only if the guard pins the size key to it
        pinned = core.k == "BinaryOperator" and core.op == "==" and not neg and n in (X.const_int(core.children[0]), X.const_int(core.children[1]))
        if pinned:
            ck.holds(rid_cascade, inst, st.where, "compares %d bytes where the payload size is %d" % (n, n), cfgname)
        else:
            ck.violated(rid_cascade, inst, st.where, "under `%s` the stage compares %d bytes whatever the payload size: bytes after the payload (left over from the buffer's earlier "
                        "use, not content) decide the order of two events with equal content" % (X.show(core), n), cfgname)
        return True
    ck.violated(rid_cascade, inst, st.where, "length %s of the byte comparison is not the payload size equalised by an earlier stage (stages: %s)" % (lnkey, seen_keys), cfgname)
    return True


def _swap_show(text, a, b):
    import re
    return re.sub(r"\b(%s|%s)\b" % (re.escape(a), re.escape(b)), lambda m: b if m.group(1) == a else a, text)


def check_extended(ck, P, rid_cascade, rid_content):
    cfgname = P.config
    f = P.fn("msg_is_before_extended")
    if len(f.params) != 2:
        ck.inconclusive(rid_cascade, "msg_is_before_extended", f.where, "not a binary comparator", cfgname)
        return
    a, b = f.params[0]["name"], f.params[1]["name"]
    anti = P.enum_const("MSG_FLAG_ANTI")
    body = f.root.children
    stages = []
    ok = True
    seen_keys = []
    for st in body:
        if st.k == "IfStmt":
            cond = X.strip(st.children[0]) if st.children[0].k != "Null" else None
            # clang IfStmt children: [cond, then, (else)] possibly preceded by init/condvar Nulls; find them by kind
            kids = [c for c in st.children if c.k != "Null"]
            cond, then = X.strip(kids[0]), kids[1]
            if len(kids) > 2:
                ck.inconclusive(rid_cascade, "stage@%d" % len(stages), st.where, "stage has an else branch", cfgname)
                ok = False
                continue
            ret = then if then.k == "ReturnStmt" else (then.children[0] if then.k == "CompoundStmt" and len(then.children) == 1 else None)
            if ret is not None and ret.k == "ReturnStmt" and ret.children and _guarded_bytes(ck, P, rid_cascade, rid_content, st, kids[0], ret, a, b, seen_keys, anti, cfgname):
                continue
            if cond.k != "BinaryOperator" or cond.op != "!=" or ret is None or ret.k != "ReturnStmt":
                ck.inconclusive(rid_cascade, "stage@%d" % len(stages), st.where, "not of the form if(k(a) != k(b)) return ...", cfgname)
                ok = False
                continue
            L, R = cond.children
            key = X.show(L)
            inst = "stage:" + key
            if _subst_show(L, a, b) != X.show(R) or not X.refs_var(L, name=a) or X.refs_var(L, name=b):
                ck.violated(rid_cascade, inst, st.where, "key is not the same projection on both sides: %s vs %s" % (X.show(L), X.show(R)), cfgname)
                ok = False
                continue
            rv = X.strip(ret.children[0])
            if rv.k != "BinaryOperator" or rv.op not in FLIP:
                ck.violated(rid_cascade, inst, ret.where, "stage does not return an order comparison of its key: %s" % X.show(rv), cfgname)
                ok = False
                continue
            l2, r2 = X.show(rv.children[0]), X.show(rv.children[1])
            if not ((l2 == X.show(L) and r2 == X.show(R)) or (l2 == X.show(R) and r2 == X.show(L))):
                ck.violated(rid_cascade, inst, ret.where, "stage compares %s with %s but was guarded on %s" % (l2, r2, key), cfgname)
                ok = False
                continue
            # under k(a) != k(b), <= is < : both accepted
            ck.holds(rid_cascade, inst, st.where, "if(%s != %s) return %s %s %s: symmetric key, total order on the key, strict under the guard" % (X.show(L), X.show(R), l2, rv.op, r2), cfgname)
            stages.append((key, L))
            seen_keys.append(key)
            # content check
            for rec, name, node in _fields_read(L) + _fields_read(R) + _fields_read(rv):
                _content_field(ck, rid_content, P, rec, name, node, anti, cfgname)
        elif st.k == "ReturnStmt":
            rv = X.strip(st.children[0])
            inst = "final"
            if rv.k == "BinaryOperator" and rv.op in FLIP:
                call = X.strip(rv.children[0])
                zero = rv.children[1]
                if X.is_zero(call):
                    call, zero = X.strip(rv.children[1]), rv.children[0]
                if call.k == "CallExpr" and call.callee in ("memcmp", "__builtin_memcmp") and X.is_zero(zero):
                    args = X.callee_args(call)
                    pa, pb, ln = args
                    if rv.op not in STRICT:
                        ck.violated(rid_cascade, inst, st.where, "last stage is not strict (%s %s 0): two events with equal content would each be before the other" % (X.show(call), rv.op), cfgname)
                        ok = False
                        continue
                    if _subst_show(pa, a, b) != X.show(pb) and _subst_show(pa, b, a) != X.show(pb):
                        ck.violated(rid_cascade, inst, st.where, "byte comparison of different projections: %s vs %s" % (X.show(pa), X.show(pb)), cfgname)
                        ok = False
                        continue
                    lnkey = X.show(ln)
                    lnkey_other = _subst_show(ln, a, b) if X.refs_var(ln, name=a) else _subst_show(ln, b, a)
                    if lnkey not in seen_keys and lnkey_other not in seen_keys:
                        ck.violated(rid_cascade, inst, st.where, "length %s of the byte comparison is not equalised by an earlier stage (stages: %s)" % (lnkey, seen_keys), cfgname)
                        ok = False
                        continue
                    for rec, name, node in _fields_read(call):
                        _content_field(ck, rid_content, P, rec, name, node, anti, cfgname)
                    ck.holds(rid_cascade, inst, st.where, "return memcmp(%s, %s, %s) %s 0: strict, symmetric, length equalised by stage %s" % (X.show(pa), X.show(pb), lnkey, rv.op, lnkey), cfgname)
                    stages.append(("memcmp", call))
                    continue
                # a plain last key comparison is also a valid strict stage
                L, R = rv.children
                if rv.op in STRICT and _subst_show(L, a, b) == X.show(R):
                    ck.holds(rid_cascade, inst, st.where, "return %s %s %s (strict, symmetric key)" % (X.show(L), rv.op, X.show(R)), cfgname)
                    for rec, name, node in _fields_read(rv):
                        _content_field(ck, rid_content, P, rec, name, node, anti, cfgname)
                    stages.append((X.show(L), L))
                    continue
                if _subst_show(L, a, b) == X.show(R):
                    ck.violated(rid_cascade, inst, st.where, "last stage %s is not strict" % X.show(rv), cfgname)
                    ok = False
                    continue
            cex = _refute_final(rv, a, b)
            if cex:
                ck.violated(rid_cascade, inst, st.where, "the last stage `%s` makes each of two events come before the other (%s): not a strict order, and the byte comparison runs over a length the shorter payload does not have" % (X.show(rv)[:70], cex), cfgname)
                ok = False
                continue
            ck.inconclusive(rid_cascade, inst, st.where, "unrecognised final stage: %s" % X.show(rv), cfgname)
            ok = False
        else:
            ck.inconclusive(rid_cascade, "stmt", st.where, "unrecognised statement kind %s in comparator" % st.k, cfgname)
            ok = False
    for x in _address_uses(f.root, (a, b)):
        ck.violated(rid_content, "address:%s" % x.name, x.where, "comparator uses the address of an event (%s), which is not content" % X.show(x.parent), cfgname)
    # the "sign of a difference" idiom: k(a) - k(b) stored in a signed integer and compared with 0 is an order only if the difference
    # cannot wrap, i.e. both keys are narrower than the variable.  Two full-width 32-bit keys are not.
    diffs = _wrapping_differences(f)
    for node, lt, rt, into in diffs:
        ck.violated(rid_cascade, "difference:%s" % X.show(node)[:40], node.where, "the order of two events is taken from the sign of `%s` (%s - %s) kept in %s: for keys more than 2^31 apart the "
                    "difference wraps, so a < b < c < a is possible — not transitive, heaps and straggler detection become inconsistent" % (X.show(node)[:60], lt, rt, into), cfgname)
    if not diffs:
        ck.expect(rid_cascade, len(stages), 2, "comparator stages")
    return ok


def _wrapping_differences(f):
    out = []
    signed_ints = {}
    for v in f.walk():
        if v.k == "VarDecl" and v.d.get("ti") and v.d["ti"][1] and v.d["ti"][0] <= 32:
            signed_ints[v.did] = v
    def full_width(e):
        e = X.strip(e, casts=True)
        ti = e.d.get("ti")
        if not ti or ti[0] < 32:
            return None
        # masked with a small constant / a comparison result: narrow
        if e.k == "BinaryOperator" and e.op == "&" and any((X.const_int(c) is not None and X.const_int(c) < (1 << 30)) for c in e.children):
            return None
        if e.k == "BinaryOperator" and e.op in ("<", ">", "<=", ">=", "==", "!="):
            return None
        if X.const_int(e) is not None:
            return None
        if e.k == "CallExpr":
            return None
        return e.t or "%d-bit" % ti[0]
    for n in f.walk():
        rhs = None
        tgt = None
        if n.k == "VarDecl" and n.did in signed_ints and n.children:
            rhs, tgt = n.children[-1], n
        elif n.k == "BinaryOperator" and n.op == "=":
            t = X.strip(n.children[0])
            if t.k == "DeclRefExpr" and t.did in signed_ints:
                rhs, tgt = n.children[1], signed_ints[t.did]
        if rhs is None:
            continue
        e = X.strip(rhs, casts=True)
        if e.k == "BinaryOperator" and e.op == "-":
            lt, rt = full_width(e.children[0]), full_width(e.children[1])
            if lt and rt:
                out.append((e, lt, rt, "`%s %s`" % (tgt.t, tgt.name)))
    return out


def _content_field(ck, rid, P, rec, name, node, anti, cfgname):
    inst = "field:%s.%s" % (rec, name)
    if rec != "lp_msg" or name not in CONTENT_FIELDS:
        ck.violated(rid, inst, node.where, "comparator reads %s.%s, which is not event content (timestamp, cancel flag, type, size, payload)" % (rec, name), cfgname)
        return
    if name in ("raw_flags", "flags"):
        # only the ANTI bit is content; the other bits carry the sender id / GVT colours for remote events
        p = node.parent
        while p is not None and p.k in ("ImplicitCastExpr", "ParenExpr"):
            p = p.parent
        if p is None or p.k != "BinaryOperator" or p.op != "&" or X.const_int(p.children[1]) != anti and X.const_int(p.children[0]) != anti:
            ck.violated(rid, inst + ":unmasked", node.where, "comparator reads flag bits other than the cancellation bit", cfgname)
            return
    ck.holds(rid, inst, node.where, "content field", cfgname)


def recognise_top(n, P):
    """Recognise  X.T < Y.T || (X.T == Y.T && msg_is_before_extended(X', Y'))  at node n.
    Returns dict(a=, b=, kind=) or a string describing why not."""
    n = X.strip(n)
    if n.k != "BinaryOperator" or n.op != "||":
        return "top is not ||"
    lt, rest = X.strip(n.children[0]), X.strip(n.children[1])
    if lt.k != "BinaryOperator" or lt.op not in STRICT:
        return "first disjunct is not a strict comparison: " + X.show(lt)
    if rest.k != "BinaryOperator" or rest.op != "&&":
        return "second disjunct is not (eq && ext)"
    eq, ext = X.strip(rest.children[0]), X.strip(rest.children[1])
    if eq.k != "BinaryOperator" or eq.op != "==":
        return "tie test is not ==: " + X.show(eq)
    if ext.k != "CallExpr" or ext.callee != "msg_is_before_extended":
        return "tie is not broken by msg_is_before_extended: " + X.show(ext)
    ta, tb = lt.children
    if lt.op == ">":
        ta, tb = tb, ta
    sa, sb = X.show(ta), X.show(tb)
    ea, eb = X.show(eq.children[0]), X.show(eq.children[1])
    if {sa, sb} != {ea, eb}:
        return "tie test compares other operands (%s == %s) than the order test (%s < %s)" % (ea, eb, sa, sb)
    xa, xb = X.callee_args(ext)
    A, B = X.show(xa), X.show(xb)
    fa = X.strip(ta)
    fb = X.strip(tb)
    if fa.k != "MemberExpr" or fb.k != "MemberExpr" or fa.name != fb.name:
        return "timestamps are not the same field of two objects"
    oa, ob = X.show(fa.children[0]), X.show(fb.children[0])
    if fa.name == "dest_t" and fa.rec == "lp_msg":
        if (oa, ob) != (A, B):
            return "tie-break arguments (%s,%s) differ from the compared messages (%s,%s)" % (A, B, oa, ob)
        return {"a": oa, "b": ob, "kind": "msg"}
    if fa.name == "t" and fa.rec == "q_elem":
        # (ma).t vs ma.m
        ma, mb = X.strip(xa), X.strip(xb)
        if ma.k != "MemberExpr" or ma.name != "m" or X.show(ma.children[0]) != oa or mb.k != "MemberExpr" or mb.name != "m" or X.show(mb.children[0]) != ob:
            return "tie-break arguments are not the .m of the compared queue elements"
        return {"a": oa, "b": ob, "kind": "q_elem"}
    return "unknown timestamp field %s.%s" % (fa.rec, fa.name)


def _refute_final(rv, a, b):
    """Evaluate an unrecognised last stage (reached with every earlier key equal) on small abstract pairs: payload sizes 0..2 and the sign
    of the byte comparison per compared length (memcmp(y, x, n) = -memcmp(x, y, n); a longer comparison agrees with a shorter one that
    already differs).  Returns a description of a pair (x, y) with before(x, y) and before(y, x) both true, or None."""
    import itertools

    def ev(n, env, swapped):
        n = X.strip(n)
        c = X.const_int(n)
        if c is not None:
            return c
        if n.k == "MemberExpr":
            t = X.show(n)
            if swapped:
                t = t.replace(a + "->", "\0").replace(b + "->", a + "->").replace("\0", b + "->")
            return env.get(t)
        if n.k == "CallExpr" and n.callee in ("memcmp", "__builtin_memcmp"):
            ar = X.callee_args(n)
            ln = ev(ar[2], env, swapped)
            if ln is None:
                return None
            first_is_a = X.show(X.strip(ar[0])).startswith(a + "->")
            sign = env["sign"].get(ln, 0)
            # sign is that of cmp(A-payload, B-payload); which payload is first depends on the roles
            return sign if (first_is_a != swapped) else -sign
        if n.k == "UnaryOperator" and n.op == "!":
            v = ev(n.children[0], env, swapped)
            return None if v is None else (0 if v else 1)
        if n.k == "BinaryOperator":
            if n.op in ("&&", "||"):
                l = ev(n.children[0], env, swapped)
                if l is None:
                    return None
                if n.op == "&&" and not l:
                    return 0
                if n.op == "||" and l:
                    return 1
                r = ev(n.children[1], env, swapped)
                return None if r is None else (1 if r else 0)
            l, r = ev(n.children[0], env, swapped), ev(n.children[1], env, swapped)
            if l is None or r is None:
                return None
            return {"<": l < r, ">": l > r, "<=": l <= r, ">=": l >= r, "==": l == r, "!=": l != r, "+": l + r, "-": l - r}.get(n.op)
        if n.k == "ConditionalOperator":
            c = ev(n.children[0], env, swapped)
            return None if c is None else ev(n.children[1] if c else n.children[2], env, swapped)
        return None
    for sa, sb in itertools.product((0, 1, 2), repeat=2):
        for s1, s2 in itertools.product((-1, 0, 1), repeat=2):
            if s1 != 0 and s2 != s1:
                continue
            env = {a + "->pl_size": sa, b + "->pl_size": sb, "sign": {0: 0, 1: s1, 2: s2}}
            xy, yx = ev(rv, env, False), ev(rv, env, True)
            if xy is None or yx is None:
                return None
            if xy and yx:
                return "payload sizes %d and %d, bytes comparing %s over 1 byte / %s over 2" % (sa, sb, {-1: "below", 0: "equal", 1: "above"}[s1], {-1: "below", 0: "equal", 1: "above"}[s2])
    return None


def comparator_sites(P):
    """All recognised or unrecognised top-level comparator expansions: list of (fn, node, macro, result)."""
    out = []
    for f in P.all_functions():
        for macro in ("msg_is_before", "q_elem_is_before"):
            for n in X.expansions(f.root, macro):
                out.append((f, n, macro, recognise_top(n, P)))
    return out


def check_uses(ck, P, rid):
    """One order everywhere: every ordering decision over events goes through a recognised comparator expansion."""
    cfgname = P.config
    sites = comparator_sites(P)
    good_nodes = []
    n_ok = 0
    for f, n, macro, res in sites:
        inst = "%s@%s" % (macro, f.name)
        if isinstance(res, str):
            ck.violated(rid, inst, n.where, "expansion of %s is not the canonical order: %s" % (macro, res), cfgname)
        else:
            n_ok += 1
            good_nodes.append(n)
            ck.holds(rid, inst, n.where, "%s(%s, %s): timestamp first, content tie-break on the same pair" % (macro, res["a"], res["b"]), cfgname)
    # every call of the tie-break and every relational comparison of two event timestamps sits inside one
    for f in P.all_functions():
        if f.name == "msg_is_before_extended":
            continue
        for n in f.walk():
            bad = None
            if n.k == "CallExpr" and n.callee == "msg_is_before_extended":
                bad = "call of the tie-break"
            elif n.k == "BinaryOperator" and n.op in ("<", ">", "<=", ">="):
                l, r = X.strip(n.children[0]), X.strip(n.children[1])
                if all(x.k == "MemberExpr" and ((x.name == "dest_t" and x.rec == "lp_msg") or (x.name == "t" and x.rec == "q_elem")) for x in (l, r)):
                    bad = "comparison of two event timestamps"
            elif n.k == "CallExpr" and n.callee in ("memcmp", "__builtin_memcmp"):
                if any(x.k == "MemberExpr" and x.name == "pl" and x.rec == "lp_msg" for a in X.callee_args(n) for x in a.walk()):
                    bad = "byte comparison of two payloads"
            if bad and not any(n is g or n.is_inside(g) for g in good_nodes):
                ck.violated(rid, "adhoc:%s" % f.name, n.where, "%s outside the canonical comparator: %s" % (bad, X.show(n)), cfgname)
    # heap operations on event heaps take the comparator
    n_heap = 0
    for f in P.all_functions():
        for n in f.walk():
            if n.k == "StmtExpr" and n.macros and n.macros[0] in ("heap_insert", "heap_extract", "heap_insert_n"):
                m = n.macros[0]
                inside = [g for g in good_nodes if g.is_inside(n)]
                need = 2 if m == "heap_extract" else 1
                inst = "%s@%s" % (m, f.name)
                # is this an event heap?  element type mentions lp_msg or q_elem
                txt = n.d.get("mcall", "")
                n_heap += 1
                if len(inside) >= need:
                    ck.holds(rid, inst, n.where, "%s uses the canonical comparator at its %d decision point(s)" % (m, len(inside)), cfgname)
                else:
                    ck.violated(rid, inst, n.where, "%s decides the heap order without the canonical comparator (%s)" % (m, txt[:80]), cfgname)
    ck.expect(rid, len(sites), 8 if cfgname == "asbuilt" else 10, "comparator expansions")
    ck.expect(rid, n_heap, 6, "heap operations on event heaps")
    return sites


# ---------------------------------------------------------------------------------------------------------------
# heap shape: the sift loops of heap_insert / heap_extract, at every expansion on an event heap

def _find(n, pred):
    return [x for x in n.walk() if pred(x)]


def _assign_to(st, name):
    """If st is `name = rhs` return rhs."""
    e = X.strip(st)
    if e is not None and e.k == "BinaryOperator" and e.op == "=":
        t = X.strip(e.children[0])
        if t.k == "DeclRefExpr" and t.name == name:
            return e.children[1]
    return None


def _store_elem(st, arr):
    """If st is `arr[idx] = rhs` return (idx, rhs)."""
    e = X.strip(st)
    if e is not None and e.k == "BinaryOperator" and e.op == "=":
        t = X.strip(e.children[0])
        if t.k == "ArraySubscriptExpr" and X.strip(t.children[0]).k == "DeclRefExpr" and X.strip(t.children[0]).name == arr:
            return t.children[1], e.children[1]
    return None


def _subscripts(n, arr):
    return [x for x in n.walk() if x.k == "ArraySubscriptExpr" and X.strip(x.children[0]).k == "DeclRefExpr" and X.strip(x.children[0]).name == arr]


def check_heap_shape(ck, P, rid, sites):
    """Insert and extract must agree on the tree: extract's child function C and insert's parent function P satisfy
    P(C(j)) = P(C(j)+1) = j; the comparisons have the operand roles and polarity of a min-heap; the sibling is looked at whenever it
    exists; the moved element and the hole index are updated in the order that keeps `hole = parent of candidate`."""
    from . import ceval
    cfgname = P.config
    good = {}
    for f, n, macro, res in sites:
        if not isinstance(res, str):
            good[n.id] = (n, res)
    parents = []       # (site, fn(v) -> parent index)
    children = []      # (site, fn(j) -> first child)
    n_sites = 0
    for f in P.all_functions():
        for n in f.walk():
            if not (n.k == "StmtExpr" and n.macros and n.macros[0] in ("heap_insert", "heap_extract")):
                continue
            macro = n.macros[0]
            inst = "shape:%s@%s" % (macro, f.name)
            comps = [(g, res) for g, res in good.values() if g.is_inside(n)]
            body = n.children[0]
            loops = [s for s in body.children if s.k == "WhileStmt"]
            if len(loops) != 1:
                ck.inconclusive(rid, inst, n.where, "sift loop not recognised", cfgname)
                continue
            n_sites += 1
            lp = loops[0]
            cond = X.strip(lp.children[-2]) if len(lp.children) >= 2 else None
            lbody = lp.children[-1]
            stmts = lbody.children if lbody.k == "CompoundStmt" else [lbody]
            after = body.children[body.children.index(lp) + 1:]
            if macro == "heap_insert":
                # while(H && cmp(elem, items[P(H)])) { items[H] = items[P(H)]; H = P(H); }  items[H] = elem;
                if cond is None or cond.k != "BinaryOperator" or cond.op != "&&" or X.strip(cond.children[0]).k != "DeclRefExpr":
                    ck.inconclusive(rid, inst, lp.where, "sift-up condition is not `hole && cmp(...)`", cfgname)
                    continue
                H = X.strip(cond.children[0]).name
                core, neg = X.strip_bool(cond.children[1])
                cmpn = [(g, res) for g, res in comps if g is core or g is cond.children[1] or g.is_inside(cond.children[1]) or core.is_inside(g)]
                if len(cmpn) != 1:
                    ck.inconclusive(rid, inst, lp.where, "comparison in the sift-up condition not recognised", cfgname)
                    continue
                g, res = cmpn[0]
                subs = _subscripts(g, "items")
                if not subs:
                    ck.inconclusive(rid, inst, lp.where, "no heap element in the sift-up comparison", cfgname)
                    continue
                Pn = subs[0].children[1]
                ptxt = X.show(subs[0])
                a_is_parent, b_is_parent = ptxt in res["a"], ptxt in res["b"]
                # continue iff elem < parent :  cmp(elem, parent)  or  !cmp(parent, elem) [ties keep climbing: still a heap]
                ok_role = (b_is_parent and not a_is_parent and not neg) or (a_is_parent and not b_is_parent and neg)
                if not ok_role:
                    ck.violated(rid, inst, g.where, "sift-up continues when %s%s(%s, %s): the new element climbs over parents that come before it, so the minimum is no longer at the root"
                                % ("!" if neg else "", "cmp", res["a"], res["b"]), cfgname)
                    continue
                if neg and f.file.endswith("serial/serial.c"):
                    # the serial main loop dispatches the root, lets the handler insert new events, and only then extracts "the root":
                    # an inserted event that is merely not-after the root must not climb over it
                    ck.violated(rid, inst, g.where, "sift-up is not strict (continues while !cmp(parent, elem)): an event scheduled by the handler that ties with the event being processed "
                                "(same time, type, size and payload, possibly for another LP) climbs to the root; the serial loop then extracts and frees the new event instead of the "
                                "processed one, which is dispatched again", cfgname)
                    continue
                mv = [(_store_elem(s, "items"), s) for s in stmts]
                mv = [(m, s) for m, s in mv if m]
                up = [(_assign_to(s, H), s) for s in stmts]
                up = [(m, s) for m, s in up if m is not None]
                fin = [(_store_elem(s, "items"), s) for s in after]
                fin = [(m, s) for m, s in fin if m]
                if len(mv) != 1 or len(up) != 1 or not fin:
                    ck.inconclusive(rid, inst, lp.where, "sift-up body is not `items[hole] = items[parent]; hole = parent`", cfgname)
                    continue
                (mi, mr), ms = mv[0]
                if X.show(X.strip(mi)) != H or X.show(X.strip(mr)) != ptxt or X.show(X.strip(up[0][0])) != X.show(X.strip(Pn)) or stmts.index(ms) > stmts.index(up[0][1]):
                    ck.violated(rid, inst, ms.where, "sift-up moves `%s` and then sets the hole to `%s`, but compared with %s: the element is written to a position other than the one whose parent was tested"
                                % (X.show(X.strip(ms)), X.show(X.strip(up[0][0])), ptxt), cfgname)
                    continue
                (fi, fr), fs = fin[0]
                elem_txt = res["a"] if b_is_parent else res["b"]
                if X.show(X.strip(fi)) != H:
                    ck.violated(rid, inst, fs.where, "the new element is stored at `%s`, not at the hole `%s`" % (X.show(X.strip(fi)), H), cfgname)
                    continue
                pf = (lambda node, var: (lambda v: ceval.ev(node, {var: v})))(Pn, H)
                bad = [v for v in range(1, 2049) if pf(v) is None or not (0 <= pf(v) < v)]
                if bad:
                    ck.violated(rid, inst, subs[0].where, "parent index `%s` is not below the hole for hole = %d" % (X.show(X.strip(Pn)), bad[0]), cfgname)
                    continue
                parents.append((inst, n, pf, X.show(X.strip(Pn))))
                ck.holds(rid, inst, n.where, "sift-up: while(hole && elem < items[%s]) move the parent down; element stored at the hole" % X.show(X.strip(Pn)), cfgname)
            else:
                # while(i < cnt) { i += (i+1 < cnt && cmp(items[i+1], items[i])); if(!cmp(items[i], last)) break; items[j] = items[i]; j = i; i = C(i); } items[j] = last;
                if cond is None or cond.k != "BinaryOperator" or cond.op not in ("<", ">", "!=") :
                    ck.inconclusive(rid, inst, lp.where, "sift-down condition is not `child < count`", cfgname)
                    continue
                l, r = X.strip(cond.children[0]), X.strip(cond.children[1])
                if cond.op == ">":
                    l, r = r, l
                if l.k != "DeclRefExpr" or r.k != "DeclRefExpr":
                    ck.inconclusive(rid, inst, lp.where, "sift-down condition is not `child < count`", cfgname)
                    continue
                I, CNT = l.name, r.name
                # count taken after the pop
                decls = {v.name: (k, v) for k, s in enumerate(body.children) for v in s.children if s.k == "DeclStmt" and v.k == "VarDecl"}
                pops = [k for k, s in enumerate(body.children) if any(x.k == "UnaryOperator" and x.op == "--" for x in s.walk())]
                if CNT not in decls or not pops or decls[CNT][0] < pops[0]:
                    ck.violated(rid, inst, lp.where, "the sift-down bound `%s` is read before the last element is popped: the popped slot is treated as a live child" % CNT, cfgname)
                    continue
                sib = [s for s in stmts if X.strip(s).k == "CompoundAssignOperator" and X.strip(s).op == "+=" and X.strip(X.strip(s).children[0]).k == "DeclRefExpr" and X.strip(X.strip(s).children[0]).name == I]
                ifs = [s for s in stmts if s.k == "IfStmt"]
                if len(sib) == 0 and len(ifs) == 2:
                    # if(i + 1 < cnt && cmp(items[i+1], items[i])) i++;
                    first = ifs[0]
                    kids = [c for c in first.children if c.k != "Null"]
                    inc = [x for x in kids[1].walk() if (x.k == "UnaryOperator" and x.op == "++") or (x.k == "CompoundAssignOperator" and x.op == "+=")]
                    if inc:
                        sib = [first]
                        sib_expr = kids[0]
                        ifs = ifs[1:]
                    else:
                        sib_expr = None
                elif sib:
                    sib_expr = X.strip(sib[0]).children[1]
                else:
                    sib_expr = None
                if sib_expr is None or len(ifs) != 1:
                    ck.inconclusive(rid, inst, lp.where, "sibling selection / stop test not recognised", cfgname)
                    continue
                se = X.strip(sib_expr)
                while se.k in ("ImplicitCastExpr", "ParenExpr", "CStyleCastExpr"):
                    se = X.strip(se.children[0])
                if se.k != "BinaryOperator" or se.op != "&&":
                    ck.inconclusive(rid, inst, sib[0].where, "sibling selection is not `guard && cmp(...)`", cfgname)
                    continue
                guard = se.children[0]
                gcmp = [(g, res) for g, res in comps if g is se.children[1] or g.is_inside(se.children[1]) or X.strip(se.children[1]).is_inside(g)]
                core, neg = X.strip_bool(se.children[1])
                if len(gcmp) != 1:
                    ck.inconclusive(rid, inst, sib[0].where, "sibling comparison not recognised", cfgname)
                    continue
                g, res = gcmp[0]
                # the guard admits the sibling whenever it exists
                miss = None
                over = None
                for cnt in range(1, 9):
                    for i in range(1, cnt):
                        v = ceval.ev(guard, {I: i, CNT: cnt})
                        if v is None:
                            miss = "?"
                        elif (i + 1 < cnt) and not v:
                            miss = (i, cnt)
                        elif not (i + 1 < cnt) and v:
                            over = (i, cnt)
                if miss == "?":
                    ck.inconclusive(rid, inst, guard.where, "sibling guard `%s` cannot be evaluated" % X.show(guard), cfgname)
                    continue
                if miss:
                    ck.violated(rid, inst, guard.where, "sibling guard `%s` is false for child %d of a heap with %d elements although element %d exists: the smaller child can be the one not looked at"
                                % (X.show(guard), miss[0], miss[1], miss[0] + 1), cfgname)
                    continue
                # roles: right sibling first, then i moves onto it
                sa = [x for x in _subscripts(g, "items") if X.show(x) in res["a"]]
                sb = [x for x in _subscripts(g, "items") if X.show(x) in res["b"]]
                def idx(sub, i):
                    return ceval.ev(sub.children[1], {I: i})
                role_ok = sa and sb and all(idx(sa[0], i) == i + 1 and idx(sb[0], i) == i for i in (1, 3, 6)) and not neg
                role_ok_alt = sa and sb and all(idx(sa[0], i) == i and idx(sb[0], i) == i + 1 for i in (1, 3, 6)) and neg
                if not (role_ok or role_ok_alt):
                    ck.violated(rid, inst, g.where, "the candidate moves to the right child when %s%s(%s, %s): it ends on the child that comes later, so an element is placed above one that comes before it"
                                % ("!" if neg else "", "cmp", res["a"], res["b"]), cfgname)
                    continue
                # stop test
                kids = [c for c in ifs[0].children if c.k != "Null"]
                brk = [x for x in kids[1].walk() if x.k == "BreakStmt"]
                core, neg = X.strip_bool(kids[0])
                scmp = [(gg, rr) for gg, rr in comps if gg is kids[0] or gg.is_inside(kids[0]) or core.is_inside(gg) or gg is core]
                LAST = None
                for nm, (k, v) in decls.items():
                    if any(x.k == "UnaryOperator" and x.op == "--" for x in v.walk()):
                        LAST = nm
                if not brk or len(scmp) != 1 or LAST is None:
                    ck.inconclusive(rid, inst, ifs[0].where, "stop test not recognised", cfgname)
                    continue
                gg, rr = scmp[0]
                child_txt = "items[%s]" % I
                a_child, b_child = child_txt in rr["a"], child_txt in rr["b"]
                a_last, b_last = LAST in rr["a"], LAST in rr["b"]
                stop_ok = (a_child and b_last and neg) or (a_last and b_child and not neg)
                if not stop_ok:
                    ck.violated(rid, inst, gg.where, "sift-down stops when %scmp(%s, %s): it must stop as soon as the chosen child does not come before the element being placed"
                                % ("!" if neg else "", rr["a"], rr["b"]), cfgname)
                    continue
                # moves
                mv = [(k, _store_elem(s, "items")) for k, s in enumerate(stmts)]
                mv = [(k, m) for k, m in mv if m]
                holes = [nm for nm, (k, v) in decls.items() if nm not in (I, CNT, LAST) and v.children and X.const_int(v.children[-1]) == 0]
                if len(mv) != 1 or len(holes) != 1:
                    ck.inconclusive(rid, inst, lp.where, "move of the child into the hole not recognised", cfgname)
                    continue
                J = holes[0]
                kmv, (mi, mr) = mv[0]
                kj = [k for k, s in enumerate(stmts) if _assign_to(s, J) is not None]
                ki = [k for k, s in enumerate(stmts) if _assign_to(s, I) is not None]
                if len(kj) != 1 or len(ki) != 1:
                    ck.inconclusive(rid, inst, lp.where, "hole / child updates not recognised", cfgname)
                    continue
                Cn = _assign_to(stmts[ki[0]], I)
                if X.show(X.strip(mi)) != J or X.show(X.strip(mr)) != child_txt or X.show(X.strip(_assign_to(stmts[kj[0]], J))) != I or not (kmv < kj[0] < ki[0]):
                    ck.violated(rid, inst, stmts[kmv].where, "sift-down must do `items[%s] = items[%s]; %s = %s; %s = child(%s)` in this order; found `%s; %s; %s`"
                                % (J, I, J, I, I, I, X.show(X.strip(stmts[min(kmv, kj[0], ki[0])])), X.show(X.strip(stmts[sorted((kmv, kj[0], ki[0]))[1]])), X.show(X.strip(stmts[max(kmv, kj[0], ki[0])]))), cfgname)
                    continue
                fin = [(_store_elem(s, "items"), s) for s in after]
                fin = [(m, s) for m, s in fin if m]
                if not fin or X.show(X.strip(fin[0][0][0])) != J or X.show(X.strip(fin[0][0][1])) != LAST:
                    ck.violated(rid, inst, (fin[0][1] if fin else lp).where, "the popped element is not stored at the final hole `%s`" % J, cfgname)
                    continue
                i0 = X.const_int(decls[I][1].children[-1]) if decls[I][1].children else None
                cf = (lambda node, var: (lambda v: ceval.ev(node, {var: v})))(Cn, I)
                children.append((inst, n, cf, X.show(X.strip(Cn)), i0))
                ck.holds(rid, inst, n.where, "sift-down: smaller child chosen whenever a sibling exists, stops when it does not come before the placed element, child = %s" % X.show(X.strip(Cn)), cfgname)
    # agreement of the two index functions
    for cinst, cn, cf, ctxt, i0 in children:
        for pinst, pn, pf, ptxt in parents:
            if pn.file != cn.file:
                continue        # a different heap (the serial runtime's and the parallel queue's are separate)
            bad = None
            if i0 is None or pf(i0) != 0 or pf(i0 + 1) != 0:
                bad = "the first candidate %s is not a child of the root under parent(i) = %s" % (i0, ptxt)
            for j in range(1, 1024):
                c = cf(j)
                if c is None or pf(c) != j or pf(c + 1) != j:
                    bad = bad or "child(%d) = %s but parent(%s) = %s, parent(%s) = %s" % (j, c, c, pf(c) if c is not None else "?", (c + 1) if c is not None else "?", pf(c + 1) if c is not None else "?")
                    break
            inst = "tree:%s~%s" % (cinst.split(":", 1)[1], pinst.split(":", 1)[1])
            if bad:
                ck.violated(rid, inst, cn.where, "insert and extract disagree on the heap's tree: %s (child(i) = %s, parent(i) = %s)" % (bad, ctxt, ptxt), cfgname)
            else:
                ck.holds(rid, inst, cn.where, "parent(child(j)) = parent(child(j)+1) = j for j < 1024 with child(i) = %s, parent(i) = %s" % (ctxt, ptxt), cfgname)
    ck.expect(rid, n_sites, 6, "heap sift loops on event heaps")
