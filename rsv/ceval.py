"""Finite-domain evaluation of side-effect-free C integer expressions under an environment {variable name: value}.

Used to evaluate guards over a *finite set of representative values* (flag classes, barrier phases, bit layouts).
Integer semantics follow the dumped type of every node (width, signedness): results are wrapped to the node's type.
Returns None when the expression contains something it cannot evaluate (unknown variable, call, memory read)."""
from . import expr as X


def _wrap(v, ti):
    if ti is None or v is None:
        return v
    w, s = ti
    v &= (1 << w) - 1
    if s and v >= (1 << (w - 1)):
        v -= (1 << w)
    return v


def ev(n, env):
    if n is None:
        return None
    k = n.k
    ti = n.d.get("ti")
    if k in ("ParenExpr", "ConstantExpr", "ChooseExpr"):
        return ev(n.children[0], env)
    if k in ("ImplicitCastExpr", "CStyleCastExpr"):
        v = ev(n.children[0], env)
        if v is None:
            return None
        if n.ck in ("IntegralToBoolean", "PointerToBoolean"):
            return 1 if v else 0
        if isinstance(v, float):
            if ti is not None:
                return _wrap(int(v), ti)
            return v
        if n.d.get("tf"):
            return float(v)
        return _wrap(v, ti)
    if k in ("IntegerLiteral", "CharacterLiteral"):
        v = n.d.get("val")
        if v is None and "vals" in n.d:
            v = int(n.d["vals"])
        return _wrap(v, ti)
    if k == "FloatingLiteral":
        return n.d.get("val")
    if k == "DeclRefExpr":
        if n.d.get("dk") == "enum":
            return n.d.get("val")
        key = n.name
        if key in env:
            return _wrap(env[key], ti) if ti and not isinstance(env[key], float) else env[key]
        return None
    if k == "MemberExpr" or k == "ArraySubscriptExpr":
        key = X.show(n)
        if key in env:
            return _wrap(env[key], ti) if ti and not isinstance(env[key], float) else env[key]
        return None
    if k == "CallExpr" and n.callee == "__builtin_expect":
        return ev(n.children[1], env)
    if "cv" in n.d and k not in ("BinaryOperator", "UnaryOperator", "ConditionalOperator"):
        return n.d["cv"]
    if k == "UnaryExprOrTypeTraitExpr" or k == "OffsetOfExpr":
        return n.d.get("cv")
    if k == "UnaryOperator":
        v = ev(n.children[0], env)
        if v is None:
            return None
        op = n.op
        if op == "!":
            return 0 if v else 1
        if op == "-":
            return _wrap(-v, ti) if not isinstance(v, float) else -v
        if op == "~":
            return _wrap(~v, ti)
        if op in ("+", "__extension__"):
            return v
        return None
    if k == "BinaryOperator":
        op = n.op
        if op == "&&":
            a = ev(n.children[0], env)
            if a is not None and not a:
                return 0
            b = ev(n.children[1], env)
            if b is not None and not b:
                return 0
            if a is None or b is None:
                return None
            return 1
        if op == "||":
            a = ev(n.children[0], env)
            if a is not None and a:
                return 1
            b = ev(n.children[1], env)
            if b is not None and b:
                return 1
            if a is None or b is None:
                return None
            return 0
        if op == ",":
            return ev(n.children[1], env)
        a, b = ev(n.children[0], env), ev(n.children[1], env)
        if a is None or b is None:
            return None
        try:
            if op == "+":
                r = a + b
            elif op == "-":
                r = a - b
            elif op == "*":
                r = a * b
            elif op == "/":
                if b == 0:
                    return None
                r = (abs(a) // abs(b)) * (1 if (a >= 0) == (b >= 0) else -1) if not isinstance(a, float) and not isinstance(b, float) else a / b
            elif op == "%":
                if b == 0:
                    return None
                r = abs(a) % abs(b) * (1 if a >= 0 else -1)
            elif op == "<<":
                if b < 0 or b > 63:
                    return None
                r = a << b
            elif op == ">>":
                if b < 0 or b > 63:
                    return None
                r = a >> b
            elif op == "&":
                r = a & b
            elif op == "|":
                r = a | b
            elif op == "^":
                r = a ^ b
            elif op == "<":
                return 1 if a < b else 0
            elif op == ">":
                return 1 if a > b else 0
            elif op == "<=":
                return 1 if a <= b else 0
            elif op == ">=":
                return 1 if a >= b else 0
            elif op == "==":
                return 1 if a == b else 0
            elif op == "!=":
                return 1 if a != b else 0
            else:
                return None
        except TypeError:
            return None
        if isinstance(r, float):
            return r
        return _wrap(r, ti)
    if k == "ConditionalOperator":
        c = ev(n.children[0], env)
        if c is None:
            return None
        return ev(n.children[1] if c else n.children[2], env)
    if k == "StmtExpr" and n.children and n.children[0].k == "CompoundStmt" and n.children[0].children:
        # ({ T _a = e1; T _b = e2; _a < _b ? _a : _b; }): declarations with initialisers followed by one value expression
        body = n.children[0].children
        local = dict(env)
        for s in body[:-1]:
            if s.k != "DeclStmt":
                return None
            for v in s.children:
                if v.k != "VarDecl" or not v.children:
                    return None
                val = ev(v.children[-1], local)
                if val is None:
                    return None
                vti = v.d.get("ti")
                local[v.name] = _wrap(val, vti) if vti and not isinstance(val, float) else val
        return ev(body[-1], local)
    return None


def feasible_paths(fn, env, start_block=None, stop_ids=()):
    """Follow the CFG from start_block evaluating every two-way branch under env.  Branches that cannot be evaluated
    are followed on both sides.  Yields, per maximal acyclic path, the list of element nodes visited and a flag telling
    whether every branch on it was decided."""
    g = fn.cfg
    start = g.entry if start_block is None else start_block
    out = []

    def rec(b, elems, decided, visited, depth):
        if depth > 400 or len(out) > 2000:
            return
        B = g.blocks[b]
        elems = elems + B.elems
        if B.abort or b == g.exit or not [s for s in B.succs if s is not None]:
            out.append((elems, decided, "abort" if B.abort else "exit"))
            return
        if B.cond is not None and len(B.raw_succs) == 2 and B.termk != "SwitchStmt":
            v = ev(B.cond, env)
            sides = [(0, B.succs[0]), (1, B.succs[1])]
            if v is not None:
                sides = [sides[0]] if v else [sides[1]]
            else:
                decided = False
            for _, s in sides:
                if s is None or (s in visited and visited.count(s) > 1):
                    continue
                rec(s, elems, decided, visited + [s], depth + 1)
        elif B.termk == "SwitchStmt" and B.cond is not None:
            v = ev(B.cond, env)
            tg = g.switch_targets(b)
            chosen = None
            if v is not None:
                for val, s in tg:
                    if val == v:
                        chosen = [s]
                if chosen is None:
                    chosen = [s for val, s in tg if val in ("default", None)]
            else:
                decided = False
                chosen = [s for _, s in tg]
            for s in chosen:
                if s in visited and visited.count(s) > 1:
                    continue
                rec(s, elems, decided, visited + [s], depth + 1)
        else:
            for s in B.succs:
                if s is None or (s in visited and visited.count(s) > 1):
                    continue
                rec(s, elems, decided, visited + [s], depth + 1)

    rec(start, [], True, [start], 0)
    return out
