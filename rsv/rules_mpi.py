"""Signatures of the MPI calls in distributed/mpi.c (the suite never runs with more than one rank, so none of this executes).

Everything is read from the typed AST: the MPI constants are recognised by the macro they were written with, the C types of
the buffers by their dumped types."""
from . import expr as X


def _args(c):
    out = []
    for a in X.callee_args(c):
        s = X.strip(a, casts=True)
        mac = [m for m in ((a.d.get("m") or []) + (s.d.get("m") or [])) if m.startswith("MPI_") or m.startswith("RS_")]
        name = mac[-1] if mac else None
        if name is None and s is not None and s.k == "DeclRefExpr" and s.d.get("dk") == "enum":
            name = s.name
        out.append((name, s, a))
    return out


def _mpi_calls(P):
    out = []
    for f in P.all_functions():
        if f.file.endswith("distributed/mpi.c"):
            for c in f.calls():
                if c.callee and c.callee.startswith("MPI_"):
                    out.append((f, c))
    return out


def _pointee(node):
    """The C type text a buffer argument points to (through & / array decay / pointer variable)."""
    n = node
    while n is not None and n.k in ("ImplicitCastExpr", "CStyleCastExpr", "ParenExpr"):
        n = n.children[0]
    if n is None:
        return None
    if n.k == "UnaryOperator" and n.op == "&":
        return (X.strip(n.children[0]).t or "").replace("const ", "").strip()
    t = (n.t or "")
    t = t.replace("const ", "").strip()
    if t.endswith("*"):
        return t[:-1].strip()
    if "[" in t:
        return t[:t.index("[")].strip()
    return None


SEND = ("MPI_Isend", "MPI_Send", "MPI_Issend", "MPI_Ssend")
PROBE = ("MPI_Improbe", "MPI_Mprobe", "MPI_Iprobe", "MPI_Probe")


def check_p2p(ck, P, rid):
    """Point-to-point: byte datatype on both sides and in the size query, the tag a receiver probes for is the tag its senders use,
    the world communicator everywhere, and the threading level that concurrent callers need."""
    cfg = P.config
    calls = _mpi_calls(P)
    n = 0
    sent_tags, probed_tags = {}, {}
    for f, c in calls:
        a = _args(c)
        inst = "%s@%s:%d" % (c.callee, f.name, 0)
        if c.callee in SEND:
            n += 1
            inst = "send@%s" % f.name
            dt, tag, comm = a[2][0], a[4][0], a[5][0]
            sent_tags.setdefault(tag, []).append((f, c))
            if dt != "MPI_BYTE":
                ck.violated(rid, inst, c.where, "%s sends a byte count with datatype %s: the receiver's MPI_Get_count(MPI_BYTE) no longer equals the size the kinds are told apart by" % (f.name, dt), cfg)
            elif comm != "MPI_COMM_WORLD":
                ck.violated(rid, inst, c.where, "%s sends on %s, the receivers probe MPI_COMM_WORLD" % (f.name, comm), cfg)
            elif tag is None:
                ck.inconclusive(rid, inst, c.where, "tag is not one of the runtime's tag constants", cfg)
            else:
                ck.holds(rid, inst, c.where, "MPI_BYTE, %s, MPI_COMM_WORLD" % tag, cfg)
        elif c.callee in PROBE:
            n += 1
            inst = "probe@%s" % f.name
            src, tag, comm = a[0], a[1][0], a[2][0]
            probed_tags.setdefault(tag, []).append((f, c, src))
            if comm != "MPI_COMM_WORLD":
                ck.violated(rid, inst, c.where, "%s probes %s" % (f.name, comm), cfg)
            else:
                ck.holds(rid, inst, c.where, "probes %s from %s on MPI_COMM_WORLD" % (tag, src[0] or X.show(src[1])), cfg)
        elif c.callee == "MPI_Get_count":
            n += 1
            inst = "size@%s" % f.name
            if a[1][0] != "MPI_BYTE":
                ck.violated(rid, inst, c.where, "%s asks for the size in units of %s: the size tests that tell control / anti / event messages apart are in bytes" % (f.name, a[1][0]), cfg)
            else:
                ck.holds(rid, inst, c.where, "size taken in bytes", cfg)
        elif c.callee in ("MPI_Mrecv", "MPI_Recv"):
            n += 1
            inst = "recv@%s:%s" % (f.name, X.show(a[0][1])[:20])
            if a[2][0] != "MPI_BYTE":
                ck.violated(rid, inst, c.where, "%s receives with datatype %s instead of MPI_BYTE" % (f.name, a[2][0]), cfg)
            else:
                ck.holds(rid, inst, c.where, "received as bytes", cfg)
        elif c.callee == "MPI_Init_thread":
            n += 1
            inst = "thread-level"
            if a[2][0] != "MPI_THREAD_MULTIPLE":
                ck.violated(rid, inst, c.where, "MPI is initialised with %s, but every worker thread sends, probes and receives concurrently" % a[2][0], cfg)
            else:
                # the provided level is checked
                tests = [x for x in f.walk() if x.k == "BinaryOperator" and x.op in ("<", "!=", ">=", "==") and any("MPI_THREAD_MULTIPLE" in ((y.d.get("m") or [])) or y.d.get("name") == "MPI_THREAD_MULTIPLE" for y in x.walk())]
                if tests:
                    ck.holds(rid, inst, c.where, "MPI_THREAD_MULTIPLE requested and the provided level tested", cfg)
                else:
                    ck.violated(rid, inst, c.where, "the thread level MPI provides is not compared with MPI_THREAD_MULTIPLE", cfg)
    # tag agreement, per channel: the asynchronous message channel (non-blocking sends, polled with Improbe) and the blocking
    # data exchange (Send / Mprobe) must not share a tag, or one receiver takes the other's messages
    def channel(callee):
        return "async" if callee in ("MPI_Isend", "MPI_Issend", "MPI_Improbe", "MPI_Iprobe") else "blocking"
    probed_by_channel = {}
    for tag, sites in probed_tags.items():
        for f, c, src in sites:
            probed_by_channel.setdefault(channel(c.callee), set()).add(tag)
    for tag, sites in sorted(sent_tags.items(), key=lambda kv: str(kv[0])):
        for f, c in sites:
            ch = channel(c.callee)
            other = "blocking" if ch == "async" else "async"
            inst = "tag@%s" % f.name
            if tag not in probed_by_channel.get(ch, set()):
                ck.violated(rid, inst, c.where, "%s sends with tag %s, but the %s receivers probe for %s: the message is never received%s"
                            % (f.name, tag, "polling" if ch == "async" else "blocking", sorted(map(str, probed_by_channel.get(ch, set()))),
                               " (and is taken by the other receive path instead)" if tag in probed_by_channel.get(other, set()) else ""), cfg)
            elif tag in probed_by_channel.get(other, set()):
                ck.violated(rid, inst, c.where, "tag %s is probed by both the polling and the blocking receive path" % tag, cfg)
            else:
                ck.holds(rid, inst, c.where, "tag %s is the one the %s receivers probe for" % (tag, "polling" if ch == "async" else "blocking"), cfg)
    for ch, tags in probed_by_channel.items():
        for tag in tags:
            if not any(channel(c.callee) == ch for f, c in sent_tags.get(tag, [])):
                ck.violated(rid, "tag:%s" % tag, [c for f, c, s2 in probed_tags[tag]][0].where, "tag %s is probed for but nothing sends it on that path" % tag, cfg)
    # the asynchronous message paths accept any source; the blocking data exchange names its peer
    for tag, sites in probed_tags.items():
        for f, c, src in sites:
            asynchronous = c.callee in ("MPI_Improbe", "MPI_Iprobe")
            inst = "source@%s" % f.name
            if asynchronous and src[0] != "MPI_ANY_SOURCE":
                ck.violated(rid, inst, c.where, "%s polls for messages from %s only: messages of other ranks are never received" % (f.name, src[0] or X.show(src[1])), cfg)
            elif asynchronous:
                ck.holds(rid, inst, c.where, "polls MPI_ANY_SOURCE", cfg)
    ck.expect(rid, n, 15, "point-to-point MPI calls")


def check_collectives(ck, P, rid):
    """Reductions: operator, datatype = C type of the buffers, one element, separate send and receive buffers, and the request the
    *_done sibling tests is the one the reduction started."""
    cfg = P.config
    calls = _mpi_calls(P)
    want = {"mpi_reduce_min": ("MPI_MIN", "MPI_DOUBLE", ("double", "simtime_t")),
            "mpi_reduce_sum_scatter": ("MPI_SUM", "MPI_UINT32_T", ("uint32_t", "unsigned int", "__uint32_t"))}
    tests = {}
    for f, c in calls:
        if c.callee == "MPI_Test":
            tests[f.name] = (c, X.show(_args(c)[0][1]))
    n = 0
    for f, c in calls:
        if f.name not in want or not c.callee.startswith("MPI_I"):
            continue
        n += 1
        op, dt, ctypes = want[f.name]
        a = _args(c)
        inst = "collective@%s" % f.name
        got_dt, got_op, comm = a[3][0], a[4][0], a[5][0]
        cnt = X.const_int(a[2][1])
        ts, tr = _pointee(a[0][2]), _pointee(a[1][2])
        req = X.show(a[6][1])
        sib = tests.get(f.name + "_done")
        if got_op != op:
            ck.violated(rid, inst, c.where, "%s reduces with %s instead of %s: with more than one rank %s" % (f.name, got_op, op,
                        "the GVT is not the minimum over the ranks" if op == "MPI_MIN" else "the number of messages a rank waits for is not the number sent to it"), cfg)
        elif got_dt != dt or (ts and ts not in ctypes) or (tr and tr not in ctypes):
            ck.violated(rid, inst, c.where, "%s reduces %s / %s buffers as %s" % (f.name, ts, tr, got_dt), cfg)
        elif cnt != 1:
            ck.violated(rid, inst, c.where, "%s reduces %s element(s) per rank instead of 1" % (f.name, cnt), cfg)
        elif comm != "MPI_COMM_WORLD":
            ck.violated(rid, inst, c.where, "%s reduces over %s" % (f.name, comm), cfg)
        elif X.show(a[0][1]) == X.show(a[1][1]):
            ck.violated(rid, inst, c.where, "send and receive buffer of the reduction are the same object (not allowed without MPI_IN_PLACE)", cfg)
        elif sib is None or sib[1] != req:
            ck.violated(rid, inst, c.where, "%s_done tests %s, not the request %s this reduction started" % (f.name, sib[1] if sib else "nothing", req), cfg)
        else:
            ck.holds(rid, inst, c.where, "%s over one %s per rank on MPI_COMM_WORLD, separate buffers, completion tested on %s" % (op, dt, req), cfg)
        # a send buffer that must outlive the call: not an automatic variable
        sb = a[0][1]
        base = sb
        while base is not None and base.k in ("UnaryOperator", "ArraySubscriptExpr", "MemberExpr"):
            base = X.strip(base.children[0])
        if base is not None and base.k == "DeclRefExpr" and base.d.get("sc") == "local":
            ck.violated(rid, inst + ":lifetime", c.where, "the non-blocking reduction reads `%s`, an automatic variable that is gone when %s returns" % (base.name, f.name), cfg)
    ck.expect(rid, n, 2, "non-blocking reductions")
