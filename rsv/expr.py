"""Expression utilities over the dumped AST: normalisation, canonical printing, small pattern helpers."""

TRANSPARENT = ("ParenExpr", "ImplicitCastExpr", "ConstantExpr", "ChooseExpr")
CASTS = ("CStyleCastExpr",)


def strip(n, casts=True):
    """Skip parentheses, implicit casts, chosen __builtin_choose_expr, (optionally) explicit casts and
    __builtin_expect(x, c)."""
    while n is not None:
        k = n.k
        if k in TRANSPARENT and n.children:
            n = n.children[0]
        elif k == "MemberExpr" and n.d.get("name") == "" and n.children:
            n = n.children[0]      # implicit access through an anonymous struct/union
        elif casts and k in CASTS and n.children:
            n = n.children[0]
        elif k == "UnaryOperator" and n.d.get("op") == "__extension__" and n.children:
            n = n.children[0]
        elif k == "CallExpr" and n.callee == "__builtin_expect" and len(n.children) >= 2:
            n = n.children[1]
        else:
            return n
    return n


def strip_bool(n):
    """Like strip, additionally removes pairs of logical negations and int<->bool conversions.
    Returns (core, negated)."""
    neg = False
    while True:
        n = strip(n)
        if n is None:
            return n, neg
        if n.k == "UnaryOperator" and n.op == "!":
            neg = not neg
            n = n.children[0]
            continue
        # x != 0  / x == 0 against a literal zero
        if n.k == "BinaryOperator" and n.op in ("!=", "==") and len(n.children) == 2:
            a, b = strip(n.children[0]), strip(n.children[1])
            if is_zero(b) and not is_zero(a):
                neg ^= (n.op == "==")
                n = a
                continue
            if is_zero(a) and not is_zero(b):
                neg ^= (n.op == "==")
                n = b
                continue
        return n, neg


def const_int(n):
    """Integer constant value of an expression if the compiler could fold it."""
    if n is None:
        return None
    m = strip(n)
    for x in (n, m):
        if x is None:
            continue
        if x.k == "IntegerLiteral" or x.k == "CharacterLiteral":
            v = x.d.get("val")
            if v is None and "vals" in x.d:
                return int(x.d["vals"])
            return v
        if "cv" in x.d:
            return x.d["cv"]
        if "cvs" in x.d:
            return int(x.d["cvs"])
        if x.k == "DeclRefExpr" and x.d.get("dk") == "enum":
            return x.d.get("val")
    return None


def const_float(n):
    m = strip(n)
    for x in (n, m):
        if x is None:
            continue
        if x.k == "FloatingLiteral":
            return x.d.get("val")
        if "cvf" in x.d:
            return x.d["cvf"]
    ci = const_int(n)
    if ci is not None:
        return float(ci)
    return None


def is_zero(n):
    n = strip(n)
    if n is None:
        return False
    if n.k in ("IntegerLiteral", "CharacterLiteral"):
        return n.d.get("val") == 0
    if n.k == "FloatingLiteral":
        return n.d.get("val") == 0.0
    if n.k == "GNUNullExpr":
        return True
    if "cv" in n.d and n.k not in ("DeclRefExpr",):
        return n.d["cv"] == 0 and n.k in ("CStyleCastExpr", "UnaryOperator", "BinaryOperator")
    return False


def is_null(n):
    """NULL in its usual spellings: ((void*)0), 0."""
    m = strip(n)
    return m is not None and (is_zero(m) or (m.k == "CStyleCastExpr" and is_zero(m.children[0])))


def show(n, casts=False):
    """Canonical text of an expression.  Implicit casts and parentheses vanish; explicit casts are shown unless
    casts=False; __builtin_expect is transparent."""
    n = strip(n, casts=not casts)
    if n is None:
        return "?"
    k = n.k
    c = n.children
    if k == "DeclRefExpr":
        return n.name
    if k == "MemberExpr":
        arrow = n.arrow
        inner = c[0]
        while inner is not None and inner.k in ("ParenExpr", "ImplicitCastExpr") and inner.children:
            inner = inner.children[0]
        if inner is not None and inner.k == "MemberExpr" and inner.d.get("name") == "":
            arrow = inner.arrow
        return show(c[0], casts) + ("->" if arrow else ".") + n.name
    if k == "ArraySubscriptExpr":
        return "%s[%s]" % (show(c[0], casts), show(c[1], casts))
    if k in ("IntegerLiteral", "CharacterLiteral"):
        return str(n.d.get("val", n.d.get("vals")))
    if k == "FloatingLiteral":
        return repr(n.d.get("val"))
    if k == "StringLiteral":
        return repr(n.d.get("val"))
    if k in ("BinaryOperator", "CompoundAssignOperator"):
        return "(%s %s %s)" % (show(c[0], casts), n.op, show(c[1], casts))
    if k == "UnaryOperator":
        if n.postfix and n.op in ("++", "--"):
            return "%s%s" % (show(c[0], casts), n.op)
        return "%s%s" % (n.op, show(c[0], casts))
    if k == "CallExpr":
        name = n.callee or show(c[0], casts)
        return "%s(%s)" % (name, ", ".join(show(a, casts) for a in c[1:]))
    if k == "ConditionalOperator":
        return "(%s ? %s : %s)" % (show(c[0], casts), show(c[1], casts), show(c[2], casts))
    if k == "CStyleCastExpr":
        return "(%s)%s" % (n.t, show(c[0], casts))
    if k == "UnaryExprOrTypeTraitExpr":
        return "sizeof(%s)" % (n.argt,)
    if k == "OffsetOfExpr":
        return "offsetof#%s" % (n.d.get("cv"),)
    if k == "AtomicExpr":
        return "%s(%s)" % (n.aop, ", ".join(show(a, casts) for a in c))
    if k == "StmtExpr":
        ms = n.macros
        return "({%s})" % (ms[0] if ms else "...")
    if k == "InitListExpr":
        return "{%s}" % ", ".join(show(a, casts) for a in c)
    if k == "CompoundLiteralExpr":
        return "(%s)%s" % (n.t, show(c[0], casts) if c else "")
    if k == "VarDecl":
        return n.name
    return "<%s>" % k


def same(a, b):
    return show(a) == show(b)


def refs_var(n, did=None, name=None):
    """Does the expression mention a given variable?"""
    for x in n.walk():
        if x.k == "DeclRefExpr" and ((did is not None and x.did == did) or (name is not None and x.name == name)):
            return True
    return False


def callee_args(call):
    return call.children[1:]


def member_chain(n):
    """For a.b->c.d returns (base_node, ['b','c','d'])."""
    names = []
    n = strip(n)
    while n is not None and n.k == "MemberExpr":
        names.append(n.name)
        n = strip(n.children[0])
    names.reverse()
    return n, names


def find_members(n, field, rec=None):
    return [x for x in n.walk() if x.k == "MemberExpr" and x.name == field and (rec is None or x.rec == rec)]


def is_write_target(n):
    """Is node n (an lvalue expression) the target of an assignment / compound assignment / ++ / --, or has its
    address taken / array-decayed into a call argument?  Returns one of 'assign', 'compound', 'incdec',
    'addr', None."""
    cur = n
    p = n.parent
    while p is not None and p.k in ("ParenExpr",):
        cur, p = p, p.parent
    if p is None:
        return None
    if p.k == "BinaryOperator" and p.op == "=" and p.children[0] is cur:
        return "assign"
    if p.k == "CompoundAssignOperator" and p.children[0] is cur:
        return "compound"
    if p.k == "UnaryOperator" and p.op in ("++", "--"):
        return "incdec"
    if p.k == "UnaryOperator" and p.op == "&":
        return "addr"
    return None


MEMORY_ORDER = {0: "relaxed", 1: "consume", 2: "acquire", 3: "release", 4: "acq_rel", 5: "seq_cst"}


def order_has_release(o):
    return o in (3, 4, 5)


def order_has_acquire(o):
    return o in (1, 2, 4, 5)   # consume is promoted to acquire by every compiler in use


def expansions(root, macro):
    """Top-most nodes that span an expansion of `macro`: first AND last token produced directly by its body."""
    out = []
    stack = [root]
    while stack:
        n = stack.pop()
        ms = n.macros
        me = n.d.get("me") or []
        if ms and ms[0] == macro and me and me[0] == macro:
            out.append(n)
            continue
        stack.extend(reversed(n.children))
    return out


def in_macro(n, macro):
    return macro in n.macros


def enclosing_macro_node(n, macro, kind=None):
    """Nearest ancestor-or-self produced directly by `macro` (optionally of a given kind)."""
    cur = n
    best = None
    while cur is not None:
        ms = cur.macros
        if ms and ms[0] == macro and (kind is None or cur.k == kind):
            best = cur
        cur = cur.parent
    return best
