"""Numerical rules: shift widths (C11, C18), Random() range, singular points, generator isolation (C18)."""
import math
import struct

from . import expr as X
from . import query as Q
from . import intervals as I

INF = float("inf")
U64 = (1 << 64) - 1


def _summaries():
    return {"Random": I.Iv(0.0, 1.0, False, True), "RandomU64": I.Iv(0, U64)}


# --------------------------------------------------------------------------------------------------------------
def check_shift_widths(ck, P, rid, only_files=None):
    cfg = P.config
    E = I.Evaluator(P, _summaries())
    n = n_ok = n_inc = 0
    for f in P.all_functions():
        if only_files and not any(f.file.endswith(x) for x in only_files):
            continue
        if not f.d.get("cfg"):
            continue
        for s in f.walk():
            if not ((s.k == "BinaryOperator" and s.op in ("<<", ">>")) or (s.k == "CompoundAssignOperator" and s.op in ("<<=", ">>="))):
                continue
            if f.cfg.position(s) is None:
                continue        # unevaluated context
            ti = s.d.get("ti") if s.k == "BinaryOperator" else ((s.d.get("comp") or {}).get("ti") or s.children[0].d.get("ti"))
            if not ti:
                continue
            width = ti[0]
            n += 1
            amt = s.children[1]
            inst = "shift@%s:%s" % (f.name, X.show(s)[:50])
            c = X.const_int(amt)
            if c is not None:
                if 0 <= c < width:
                    n_ok += 1
                    continue
                ck.violated(rid, inst, s.where, "constant shift amount %d on a %d-bit operand" % (c, width), cfg)
                continue
            try:
                iv = E.ev(amt, f)
            except RecursionError:
                iv = None
            if iv is None:
                n_inc += 1
                if n_inc <= 12:
                    ck.inconclusive(rid, inst, s.where, "shift amount `%s` is not an exact expression of bounded inputs" % X.show(amt)[:60], cfg)
                continue
            if iv.lo >= 0 and iv.hi < width:
                n_ok += 1
                ck.holds(rid, inst, s.where, "amount in %r < %d" % (iv, width), cfg)
            elif iv.exact and iv.contains(iv.hi) and iv.hi >= width:
                ck.violated(rid, inst, s.where, "shift amount `%s` ranges over %r and reaches %s on a %d-bit operand: undefined behaviour (every dominating test admits that value)" % (
                    X.show(amt), iv, iv.hi, width), cfg)
            elif iv.exact and iv.lo < 0 and iv.contains(iv.lo):
                ck.violated(rid, inst, s.where, "shift amount `%s` can be negative (%r)" % (X.show(amt), iv), cfg)
            else:
                n_inc += 1
                if n_inc <= 12:
                    ck.inconclusive(rid, inst, s.where, "amount interval %r is not exact; cannot tell whether %d is reached" % (iv, width), cfg)
    ck.meta["shifts_total"] = n
    ck.meta["shifts_constant_or_proved"] = n_ok
    ck.meta["shifts_inconclusive"] = n_inc
    ck.expect(rid, n, 10 if only_files else 40, "shift operations")


# --------------------------------------------------------------------------------------------------------------
def _bits_to_double(b):
    return struct.unpack("<d", struct.pack("<Q", b))[0]


def check_random_range(ck, P, rid):
    """Random(): the zero draw returns 0.0; otherwise the assembled bit pattern is a positive normal double below 1."""
    cfg = P.config
    f = P.fn("Random")
    E = I.Evaluator(P, _summaries())
    pun = [c for c in f.calls() if c.callee in ("memcpy", "__builtin_memcpy", "__builtin___memcpy_chk")]
    rets = [r for r in f.walk() if r.k == "ReturnStmt"]
    inst = "range@Random"
    if len(pun) != 1 or len(rets) != 2:
        # another construction: if it is plain floating arithmetic on the raw output, evaluate it in IEEE double arithmetic at the
        # extreme raw outputs (an interval over the reals would miss that (double)(2^64 - 1) rounds up to 2^64)
        worst = None
        evaluated = 0
        for r in rets:
            if not r.children or r.children[0].k == "Null":
                continue
            e = Q.resolve_local(f, r.children[0])
            for u in (0, 1, 2, (1 << 52) + 1, (1 << 53) - 1, (1 << 53) + 1, (1 << 63) - 1, 1 << 63, U64 - 2048, U64 - 1024, U64 - 1023, U64 - 1, U64):
                v = _fev(e, {"RandomU64()": u})
                if v is None:
                    continue
                evaluated += 1
                if not (0.0 <= float(v) < 1.0) and worst is None:
                    worst = (u, float(v))
        if worst:
            ck.violated(rid, inst, f.where, "for the raw generator output %d Random() returns %r, outside [0, 1): RandomRange then exceeds its maximum, Expent() takes log(0) and the topology library picks a region that does not exist" % worst, cfg)
        else:
            ck.inconclusive(rid, inst, f.where, "Random() is not of the known bit-assembly shape%s" % (" (no counterexample among %d extreme raw outputs evaluated in double arithmetic)" % evaluated if evaluated else ""), cfg)
        return
    m = pun[0]
    src = X.strip(X.callee_args(m)[1])
    if not (src.k == "UnaryOperator" and src.op == "&"):
        ck.inconclusive(rid, inst, m.where, "type pun not recognised", cfg)
        return
    bits = X.strip(src.children[0])
    iv = E.ev(bits, f)
    zero_ret = [r for r in rets if X.const_float(r.children[0]) == 0.0]
    if not zero_ret:
        ck.violated(rid, inst + ":zero", f.where, "no path returns exactly 0.0 for the zero draw", cfg)
    if iv is None:
        ck.inconclusive(rid, inst, m.where, "cannot bound the assembled bit pattern", cfg)
        return
    lo, hi = int(iv.lo), int(iv.hi)
    if lo < 0 or hi > U64 or hi >= (1 << 63):
        ck.violated(rid, inst, m.where, "assembled bit pattern ranges over %s..%s: sign bit may be set / not a double below 1" % (hex(lo), hex(hi)), cfg)
        return
    dlo, dhi = _bits_to_double(lo), _bits_to_double(hi)
    elo, ehi = lo >> 52, hi >> 52
    if 1 <= elo and ehi <= 1022 and dhi < 1.0 and dlo > 0.0:
        ck.holds(rid, inst, m.where, "bit pattern in [%s, %s]: biased exponent %d..%d, value in [%r, %r] which lies in (0,1); zero draw returns 0.0" % (hex(lo), hex(hi), elo, ehi, dlo, dhi), cfg)
    elif iv.exact or ehi >= 1023:
        ck.violated(rid, inst, m.where, "assembled double ranges over biased exponents %d..%d (values up to %r): Random() is not confined to [0,1)" % (elo, ehi, dhi), cfg)
    else:
        ck.inconclusive(rid, inst, m.where, "bit pattern interval [%s,%s] is not exact" % (hex(lo), hex(hi)), cfg)


# --------------------------------------------------------------------------------------------------------------
def _attainable(E, f, node, var_ref, point):
    """Is `var == point` compatible with every condition on the paths to `node` that mentions the variable only inside
    compound expressions?  (Conditions directly on the variable were already used to refine its interval.)"""
    paths, complete = Q.path_conditions(f, node)
    if not paths:
        return True
    for conds in paths:
        ok = True
        for core, t in conds:
            c = X.strip(core)
            if not X.refs_var(c, did=var_ref.did):
                continue
            if c.k == "BinaryOperator" and c.op in ("<", "<=", ">", ">=", "==", "!="):
                l = _ev_with(E, f, c.children[0], var_ref, point)
                r = _ev_with(E, f, c.children[1], var_ref, point)
                poss = I.compare_possible(c.op, l, r)
                if t not in poss:
                    ok = False
        if ok:
            return True
    return False


def _ev_with(E, f, n, var_ref, point):
    """Interval of n with one variable pinned to a point value."""
    n = X.strip(n)
    if n.k == "DeclRefExpr" and n.did == var_ref.did:
        return I.Iv(point, point)
    if n.k == "BinaryOperator" and n.op in ("+", "-", "*", "/"):
        a, b = _ev_with(E, f, n.children[0], var_ref, point), _ev_with(E, f, n.children[1], var_ref, point)
        return I.arith(n.op, a, b)
    return E.ev(n, f)


def check_singular_points(ck, P, rid, fnames=("Normal", "Gamma", "Poisson", "Zipf", "RandomRange", "RandomRangeNonUniform")):
    cfg = P.config
    E = I.Evaluator(P, _summaries())
    n = 0
    for fname in fnames:
        f = P.fn_opt(fname)
        if f is None:
            continue
        for s in f.walk():
            if f.cfg.position(s) is None:
                continue
            # floating division
            if s.k in ("BinaryOperator", "CompoundAssignOperator") and s.op in ("/", "/=") and (s.d.get("tf") or (s.d.get("comp") or {}).get("tf")):
                n += 1
                d = s.children[1]
                inst = "div@%s:%s" % (fname, X.show(d)[:30])
                c = X.const_float(d)
                if c is not None:
                    if c == 0:
                        ck.violated(rid, inst, s.where, "division by the constant 0", cfg)
                    else:
                        ck.holds(rid, inst, s.where, "constant divisor %r" % c, cfg)
                    continue
                iv = E.ev(d, f)
                if iv is None:
                    ck.inconclusive(rid, inst, s.where, "divisor `%s` cannot be bounded (depends on a caller-supplied argument or an unsupported expression)" % X.show(d)[:50], cfg)
                elif not iv.contains(0.0):
                    ck.holds(rid, inst, s.where, "divisor in %r excludes 0" % iv, cfg)
                else:
                    dv = X.strip(d)
                    att = iv.exact and (dv.k != "DeclRefExpr" or _attainable(E, f, s, dv, 0.0))
                    if att:
                        ck.violated(rid, inst, s.where, "divisor `%s` ranges over %r, which contains 0, and every test on the way admits 0: the quotient is infinite / NaN" % (X.show(d), iv), cfg)
                    else:
                        ck.inconclusive(rid, inst, s.where, "divisor interval %r contains 0 but attainability is not established" % iv, cfg)
            if s.k == "CallExpr" and s.callee in ("log", "sqrt"):
                n += 1
                a = X.callee_args(s)[0]
                inst = "%s@%s:%s" % (s.callee, fname, X.show(a)[:30])
                iv = E.ev(a, f)
                if iv is None:
                    ck.inconclusive(rid, inst, s.where, "argument `%s` cannot be bounded" % X.show(a)[:60], cfg)
                elif s.callee == "log":
                    if iv.lo > 0 or (iv.lo == 0 and iv.lo_open):
                        ck.holds(rid, inst, s.where, "argument in %r is strictly positive: log is finite" % iv, cfg)
                    elif iv.lo == 0 and iv.exact:
                        ck.violated(rid, inst, s.where, "log argument `%s` ranges over %r and reaches 0: the result is -infinity" % (X.show(a), iv), cfg)
                    elif iv.lo < 0 and iv.exact:
                        ck.violated(rid, inst, s.where, "log argument `%s` ranges over %r: negative values give NaN" % (X.show(a), iv), cfg)
                    else:
                        ck.inconclusive(rid, inst, s.where, "log argument interval %r not exact" % iv, cfg)
                else:
                    if iv.lo >= 0:
                        ck.holds(rid, inst, s.where, "argument in %r is non-negative" % iv, cfg)
                    elif iv.exact:
                        ck.violated(rid, inst, s.where, "sqrt argument `%s` ranges over %r: negative values give NaN" % (X.show(a), iv), cfg)
                    else:
                        ck.inconclusive(rid, inst, s.where, "sqrt argument interval %r not exact" % iv, cfg)
    ck.expect(rid, n, 6, "divisions / log / sqrt in the numerical library")


def check_return_ranges(ck, P, rid):
    """Poisson(): finite and >= 0.  RandomRange(min,max) on representative argument pairs: result within [min,max]."""
    cfg = P.config
    E = I.Evaluator(P, _summaries())
    f = P.fn("Poisson")
    for r in [x for x in f.walk() if x.k == "ReturnStmt"]:
        iv = E.ev(r.children[0], f)
        inst = "return@Poisson"
        if iv is None:
            ck.inconclusive(rid, inst, r.where, "returned expression cannot be bounded (an argument of log may reach its singular point: see the log rule)", cfg)
        elif iv.lo >= 0 and (iv.hi < INF or iv.hi_open) and (iv.lo > -INF):
            ck.holds(rid, inst, r.where, "returns a value in %r: finite and non-negative for every generator state" % iv, cfg)
        else:
            ck.violated(rid, inst, r.where, "Poisson() can return a value in %r (not finite / negative)" % iv, cfg)
    f = P.fn("RandomRange")
    rets = [x for x in f.walk() if x.k == "ReturnStmt"]
    if len(rets) == 1:
        pmin, pmax = f.params[0]["name"], f.params[1]["name"]
        bad = None
        pairs = [(0, 0), (0, 6), (-3, 4), (5, 5), (1, 2), (-7, -7), (0, 1000000)]
        for (a, b) in pairs:
            iv = _ev_params(E, f, rets[0].children[0], {pmin: a, pmax: b})
            if iv is None:
                bad = ("inconclusive", "cannot evaluate for (%d,%d)" % (a, b))
                break
            if iv.lo < a or iv.hi > b or (iv.hi == b + 0 and False):
                if iv.exact:
                    bad = ("violated", "RandomRange(%d, %d) ranges over %r" % (a, b, iv))
                else:
                    bad = ("inconclusive", "interval %r for (%d,%d) not exact" % (iv, a, b))
                break
        inst = "return@RandomRange"
        if bad is None:
            # the interval argument above treats doubles as reals.  Evaluate the returned expression once more in IEEE double arithmetic at the
            # two extreme values Random() can return (from its bit pattern, C18.1): an addition inside the floor can round up to max + 1
            rcalls = [c for c in rets[0].walk() if c.k == "CallExpr" and c.callee == "Random"]
            riv = E.ev(rcalls[0], f) if rcalls else None
            extremes = (5.421010862427522e-20, 0.9999999999999999)      # what C18.1 derives from Random()'s bit pattern
            if riv is not None and riv.hi <= 1.0 and riv.lo >= 0.0:
                hi = riv.hi if not riv.hi_open else math.nextafter(riv.hi, 0.0)
                extremes = (riv.lo if riv.lo > 0 or not riv.lo_open else math.nextafter(0.0, 1.0), hi)
            for (a, b) in pairs + [(2, 3), (10, 20), (1 << 30, (1 << 30) + 1), (1, 6)]:
                for r in extremes:
                    v = _fev(rets[0].children[0], {pmin: a, pmax: b, "Random()": r})
                    if v is None:
                        continue
                    if not (a <= v <= b) and bad is None:
                        bad = ("violated", "RandomRange(%d, %d) returns %d when Random() = %r (evaluated in double arithmetic: a sum inside the rounding is itself rounded)" % (a, b, v, r))
        if bad is None:
            ck.holds(rid, inst, rets[0].where, "for the representative argument pairs %s the result interval is within [min,max] for every generator state" % pairs, cfg)
        elif bad[0] == "violated":
            ck.violated(rid, inst, rets[0].where, bad[1] + ": outside [min,max]", cfg)
        else:
            ck.inconclusive(rid, inst, rets[0].where, bad[1], cfg)


def _fev(n, env):
    """IEEE-double evaluation of a small arithmetic expression (Python floats are doubles): parameters and Random() from env."""
    n = X.strip(n, casts=False)
    if n is None:
        return None
    c = X.const_int(n)
    if c is not None:
        return c
    if n.k == "FloatingLiteral":
        return n.d.get("val")
    if n.k == "DeclRefExpr":
        return env.get(n.name)
    if n.k in ("CStyleCastExpr", "ImplicitCastExpr"):
        v = _fev(n.children[0], env)
        if v is None:
            return None
        if n.d.get("tf"):
            return float(v)
        ti = n.d.get("ti")
        if ti and isinstance(v, float):
            return int(v)
        return v
    if n.k == "ParenExpr":
        return _fev(n.children[0], env)
    if n.k == "UnaryOperator" and n.op in ("-", "+"):
        v = _fev(n.children[0], env)
        return None if v is None else (-v if n.op == "-" else v)
    if n.k == "CallExpr":
        if n.callee == "Random":
            return env.get("Random()")
        if n.callee and (n.callee + "()") in env:
            return env[n.callee + "()"]
        a = _fev(X.callee_args(n)[0], env) if X.callee_args(n) else None
        if a is None:
            return None
        if n.callee == "floor":
            return float(math.floor(a))
        if n.callee == "ceil":
            return float(math.ceil(a))
        if n.callee == "trunc":
            return float(math.trunc(a))
        if n.callee in ("round", "lround"):
            return float(math.floor(a + 0.5)) if a >= 0 else -float(math.floor(-a + 0.5))
        if n.callee == "pow" and len(X.callee_args(n)) == 2:
            b2 = _fev(X.callee_args(n)[1], env)
            if b2 is None:
                return None
            try:
                return float(a) ** float(b2)
            except (OverflowError, ZeroDivisionError):
                return float("inf")
        return None
    if n.k == "BinaryOperator" and n.op in ("+", "-", "*", "/"):
        a, b = _fev(n.children[0], env), _fev(n.children[1], env)
        if a is None or b is None:
            return None
        if n.d.get("tf") or isinstance(a, float) or isinstance(b, float):
            a, b = float(a), float(b)
            return {"+": a + b, "-": a - b, "*": a * b, "/": a / b if b else None}[n.op]
        return {"+": a + b, "-": a - b, "*": a * b, "/": (a // b if b else None)}[n.op]
    return None


def _ev_params(E, f, n, env):
    n = X.strip(n)
    if n.k == "DeclRefExpr" and n.name in env:
        return I.Iv(env[n.name], env[n.name])
    if n.k == "BinaryOperator" and n.op in ("+", "-", "*"):
        a, b = _ev_params(E, f, n.children[0], env), _ev_params(E, f, n.children[1], env)
        return I.arith(n.op, a, b)
    if n.k == "CallExpr" and n.callee == "floor":
        a = _ev_params(E, f, X.callee_args(n)[0], env)
        if a is None:
            return None
        hi = math.floor(a.hi)
        if a.hi_open and hi == a.hi:
            hi -= 1
        return I.Iv(math.floor(a.lo), hi, False, False, a.exact)
    if n.k == "CallExpr" and n.callee in ("round", "lround", "nearbyint", "rint", "ceil", "trunc"):
        a = _ev_params(E, f, X.callee_args(n)[0], env)
        if a is None:
            return None
        if n.callee == "ceil":
            lo = math.ceil(a.lo)
            if a.lo_open and lo == a.lo:
                lo += 1
            return I.Iv(lo, math.ceil(a.hi), False, False, a.exact)
        if n.callee == "trunc":
            return I.Iv(math.trunc(a.lo), math.trunc(a.hi) - (1 if a.hi_open and math.trunc(a.hi) == a.hi and a.hi > 0 else 0), False, False, a.exact)
        # round to nearest: x in [lo, hi) reaches floor(hi + 0.5) unless hi + 0.5 is an integer that the open end excludes
        hi = math.floor(a.hi + 0.5)
        if a.hi_open and hi == a.hi + 0.5:
            hi -= 1
        return I.Iv(math.floor(a.lo + 0.5), hi, False, False, a.exact)
    if n.k in ("CStyleCastExpr", "ImplicitCastExpr", "ParenExpr"):
        return _ev_params(E, f, n.children[0], env)
    return E.ev(n, f)


# --------------------------------------------------------------------------------------------------------------
def check_generator_isolation(ck, P, rid):
    """The numerical library writes nothing but the calling LP's generator state and its own locals."""
    cfg = P.config
    fns = [f for f in P.all_functions() if f.file.endswith("lib/random/random.c")]
    n = 0
    for f in fns:
        inst = "isolation@%s" % f.name
        bad = []
        for s in f.walk():
            tgt = None
            if s.k in ("BinaryOperator", "CompoundAssignOperator") and (s.k == "CompoundAssignOperator" or s.op == "="):
                tgt = X.strip(s.children[0])
            elif s.k == "UnaryOperator" and s.op in ("++", "--"):
                tgt = X.strip(s.children[0])
            if tgt is None:
                continue
            b = tgt
            while b is not None and b.k in ("MemberExpr", "ArraySubscriptExpr"):
                b = X.strip(b.children[0])
            if b is not None and b.k == "DeclRefExpr" and b.d.get("sc") in ("local", "param"):
                # through a pointer local: only the generator context may be written
                if b.d.get("tp") and tgt.k != "DeclRefExpr":
                    txt = X.show(tgt)
                    if "state" not in txt:
                        bad.append((s, "store through pointer %s" % txt))
                continue
            if b is not None and b.k == "DeclRefExpr" and b.d.get("sc") in ("static_local", "file_static", "global", "extern"):
                bad.append((s, "store to %s variable `%s`" % (b.d.get("sc").replace("_", " "), b.name)))
        for v in f.walk():
            if v.k == "VarDecl" and v.sc == "static_local":
                bad.append((v, "function-static variable `%s` (state shared between LPs and not rolled back)" % v.name))
        n += 1
        if bad:
            ck.violated(rid, inst, bad[0][0].where, "%s: %s" % (f.name, bad[0][1]), cfg)
        else:
            ck.holds(rid, inst, f.where, "writes only locals and the generator state it was handed", cfg)
    for name, lst in P.globals.items():
        for g in lst:
            if g.get("file", "").endswith("lib/random/random.c") and g.get("def") and not g.get("tc") and not g.get("elem_const") and not g.get("func"):
                ck.violated(rid, "global:%s" % name, "%s:%s" % (g["file"], g.get("l")), "mutable file-scope variable `%s` in the numerical library" % name, cfg)
    ck.expect(rid, n, 8, "functions of lib/random/random.c")
    # every draw goes through current_lp->rng_ctx
    f = P.fn("RandomU64")
    ms = X.expansions(f.root, "random_u64")
    if ms and "current_lp->rng_ctx" in "".join(X.show(v.children[0]) for v in f.walk() if v.k == "VarDecl" and v.children):
        ck.holds(rid, "draw@RandomU64", f.where, "advances current_lp->rng_ctx->state only", cfg)
    else:
        ck.violated(rid, "draw@RandomU64", f.where, "RandomU64 does not advance the calling LP's generator", cfg)
    for g in fns:
        if g.name in ("RandomU64", "random_lib_lp_init"):
            continue
        if X.expansions(g.root, "random_u64"):
            ck.violated(rid, "draw@%s" % g.name, g.where, "%s advances a generator directly instead of drawing through RandomU64()" % g.name, cfg)


def check_float_to_int(ck, P, rid):
    """A double is converted to an integer type only where it is known to fit (out-of-range conversions are undefined and wrap to 0 or garbage
    in practice).  For every such conversion in the numerical library: either an upper-bound test of the converted variable holds on every
    path to it, or the value, evaluated in double arithmetic at the extreme draws of Random() for a few argument values, stays in range."""
    cfg = P.config
    n = 0
    for f in [g for g in P.all_functions() if g.file.endswith("lib/random/random.c")]:
        for c in f.walk():
            if c.k not in ("CStyleCastExpr", "ImplicitCastExpr") or c.ck != "FloatingToIntegral" or not c.d.get("ti"):
                continue
            op = X.strip(c.children[0], casts=False)
            tgt = c
            while tgt is not None and tgt.id not in f.cfg.pos:
                tgt = tgt.parent
            if tgt is None:
                continue
            n += 1
            inst = "float-to-int@%s:%s" % (f.name, X.show(op)[:30])
            width, signed = c.d["ti"]
            tmax = (1 << (width - (1 if signed else 0))) - 1
            guarded = False
            if op.k == "DeclRefExpr":
                paths, complete = Q.path_conditions(f, tgt)
                if complete and paths:
                    guarded = True
                    for conds in paths:
                        okp = False
                        for core, t in conds:
                            core = X.strip(core)
                            if core.k == "BinaryOperator" and core.op in (">", ">=", "<", "<="):
                                l, r = X.strip(core.children[0], casts=True), X.strip(core.children[1], casts=True)
                                if l.k == "DeclRefExpr" and l.did == op.did and ((core.op in (">", ">=") and t is False) or (core.op in ("<", "<=") and t is True)):
                                    okp = True
                                if r.k == "DeclRefExpr" and r.did == op.did and ((core.op in ("<", "<=") and t is False) or (core.op in (">", ">=") and t is True)):
                                    okp = True
                        if not okp:
                            guarded = False
            if guarded:
                ck.holds(rid, inst, c.where, "converted only on paths where an upper bound of `%s` was tested" % X.show(op), cfg)
                continue
            # value at the extreme draws
            expr = op
            if op.k == "DeclRefExpr":
                defs = [a for a in f.walk() if a.k == "BinaryOperator" and a.op == "=" and X.strip(a.children[0]).k == "DeclRefExpr" and X.strip(a.children[0]).did == op.did]
                expr = defs[0].children[1] if len(defs) == 1 else None
            worst = None
            evaluated = False
            if expr is not None:
                params = [p_["name"] for p_ in f.params]
                for r in (5.421010862427522e-20, 0.9999999999999999):
                    for pv in (0.5, 1.0, 2.0, 10.0, 6, 1000000):
                        env = {p_: pv for p_ in params}
                        env["Random()"] = r
                        v = _fev(expr, env)
                        if v is None:
                            continue
                        evaluated = True
                        if (v != v or v > tmax or v < -(tmax + 1)) and worst is None:
                            worst = (r, pv, v)
            if worst:
                ck.violated(rid, inst, c.where, "`%s` is converted to %s without an upper-bound test on the path; with Random() = %r (arguments %s) it is %r, outside the type's range: the "
                            "conversion is undefined and yields 0 or garbage in practice" % (X.show(op), c.t, worst[0], worst[1], worst[2]), cfg)
            elif evaluated:
                ck.holds(rid, inst, c.where, "in range at the extreme draws of Random() for the sampled arguments", cfg)
            else:
                ck.inconclusive(rid, inst, c.where, "value of `%s` not evaluable" % X.show(op), cfg)
    ck.expect(rid, n, 2, "float-to-integer conversions in the numerical library")
