"""'Every index' rules: a loop that must reach every rank / every thread really does.

The loop is evaluated by the finite-domain interpreter (rsv.interp) over its index alone, for counts 1..8: no data of the
program is involved, only the control variable and the count it is compared with.  What is compared is the set of indices at
which the visiting expression is evaluated."""
from . import interp
from . import expr as X


def _hi(ck):
    """Upper end (exclusive) of the thread / rank counts evaluated: 1..8 in the quick tier, 1..32 in the thorough tier."""
    return 33 if getattr(ck, "tier", "quick") == "thorough" else 9


def _opaque(P, f, known):
    """Runtime functions f calls that the index-only evaluation does not enter (other than the known ones)."""
    return sorted({c.callee for c in f.calls() if c.callee and c.callee not in known and P.fn_opt(c.callee) is not None})


def check_broadcast(ck, P, rid):
    cfg = P.config
    f = P.fn_opt("mpi_control_msg_broadcast")
    if f is None:
        ck.broken("%s: mpi_control_msg_broadcast not found" % rid)
        return
    inst = "every-rank@mpi_control_msg_broadcast"
    bad = None
    for n in range(1, _hi(ck)):
        outs = interp.Interp(f, max_visits=n + 4).run({"n_nodes": n, "ctrl": 1})
        done = [o for o in outs if o.how == "exit"]
        if outs and all(o.how == "loop-bound" for o in outs):
            ck.violated(rid, inst, f.where, "with %d rank(s) the broadcast loop runs more than %d times: it sends to ranks that do not exist" % (n, n + 4), cfg)
            return
        if len(done) != 1 or len(outs) != 1:
            ck.inconclusive(rid, inst, f.where, "the broadcast loop could not be evaluated for %d rank(s)" % n, cfg)
            return
        dests = sorted(a[1] for name, a, e in done[0].calls if name == "mpi_control_msg_send_to" and len(a) > 1 and a[1] is not None)
        unknown = [1 for name, a, e in done[0].calls if name == "mpi_control_msg_send_to" and (len(a) < 2 or a[1] is None)]
        if unknown:
            ck.inconclusive(rid, inst, f.where, "destination of a notice is not a function of the loop index", cfg)
            return
        missing = [d for d in range(n) if d not in dests]
        extra = [d for d in dests if not (0 <= d < n)]
        if (missing or extra) and bad is None:
            bad = (n, missing, extra, dests)
    if bad and _opaque(P, f, {"mpi_control_msg_send_to"}):
        ck.inconclusive(rid, inst, f.where, "the broadcast works through %s, which this evaluation does not enter" % _opaque(P, f, {"mpi_control_msg_send_to"}), cfg)
    elif bad:
        n, missing, extra, dests = bad
        ck.violated(rid, inst, f.where, "with %d rank(s) the broadcast sends to %s: %s — a GVT start or termination notice that a rank never gets leaves the others waiting for it forever"
                    % (n, dests, ("rank(s) %s get nothing" % missing) if missing else ("destination(s) %s do not exist" % extra)), cfg)
    else:
        ck.holds(rid, inst, f.where, "for 1..%d ranks the broadcast sends exactly one notice to every rank 0..n-1 (its own included)" % (_hi(ck) - 1), cfg)


def check_node_minimum(ck, P, rid):
    cfg = P.config
    f = P.fn_opt("gvt_node_reduce")
    if f is None:
        ck.broken("%s: gvt_node_reduce not found" % rid)
        return
    inst = "every-thread@gvt_node_reduce"
    bad = None
    for n in range(1, _hi(ck)):
        for p in range(n):
            env = {"global_config.n_threads": n}
            for k in range(n):
                env["reducing_p[%d]" % k] = 1.0 if k == p else 2.0
            outs = interp.Interp(f, max_visits=n + 4).run(env)
            done = [o for o in outs if o.how == "exit"]
            if outs and all(o.how == "loop-bound" for o in outs):
                ck.violated(rid, inst, f.where, "with %d thread(s) the reduction loop runs more than %d times: it reads local minima of threads that do not exist" % (n, n + 4), cfg)
                return
            if len(done) != 1 or len(outs) != 1 or done[0].ret is None:
                ck.inconclusive(rid, inst, f.where, "the reduction over the threads' minima could not be evaluated for %d thread(s)" % n, cfg)
                return
            if done[0].ret != 1.0 and bad is None:
                bad = (n, p, done[0].ret)
    if bad:
        ck.violated(rid, inst, f.where, "with %d thread(s), when thread %d holds the smallest local minimum the node's value is not it: that thread's events are not covered by the GVT" % (bad[0], bad[1]), cfg)
    else:
        ck.holds(rid, inst, f.where, "for 1..%d threads and every position of the smallest local minimum, the node's value is that minimum" % (_hi(ck) - 1), cfg)


def for_indices(loop, idx_name, env, limit=64):
    """Index values at which the body of a counted `for` runs, evaluating only init / condition / increment (rsv.ceval) under
    `env` (the count).  None if something else is involved."""
    from . import ceval
    init, cond, inc, body = loop.children[0], loop.children[2], loop.children[3], loop.children[4]
    for x in body.walk():
        if x.k == "DeclRefExpr" and x.name == idx_name and X.is_write_target(x):
            return None
    e = dict(env)
    v0 = None
    for x in init.walk():
        if x.k == "VarDecl" and x.name == idx_name and x.children:
            v0 = ceval.ev(x.children[-1], e)
        elif x.k == "BinaryOperator" and x.op == "=" and X.strip(x.children[0]).k == "DeclRefExpr" and X.strip(x.children[0]).name == idx_name:
            v0 = ceval.ev(x.children[1], e)
    if v0 is None:
        return None
    e[idx_name] = v0
    out = []
    for _ in range(limit):
        c = ceval.ev(cond, e) if cond is not None and cond.k != "Null" else 1
        if c is None:
            return None
        if not c:
            return out
        out.append(e[idx_name])
        i = X.strip(inc)
        if i.k == "UnaryOperator" and i.op in ("++", "--") and X.strip(i.children[0]).k == "DeclRefExpr" and X.strip(i.children[0]).name == idx_name:
            nv = e[idx_name] + (1 if i.op == "++" else -1)
            ti = X.strip(i.children[0]).d.get("ti")
            e[idx_name] = ceval._wrap(nv, tuple(ti)) if ti else nv
        elif i.k == "CompoundAssignOperator" and i.op in ("+=", "-=") and X.strip(i.children[0]).name == idx_name:
            d = ceval.ev(i.children[1], e)
            if d is None:
                return None
            nv = e[idx_name] + (d if i.op == "+=" else -d)
            ti = X.strip(i.children[0]).d.get("ti")
            e[idx_name] = ceval._wrap(nv, tuple(ti)) if ti else nv
        else:
            return None
    return "runaway"


def check_sent_totals(ck, P, rid):
    """gvt_node_phase_run adds this thread's per-destination send counts of the closed colour into total_sent[] for EVERY rank."""
    from . import query as Q
    cfg = P.config
    f = P.fn("gvt_node_phase_run")
    inst = "every-rank@total_sent"
    adds = [a for a in Q.atomics(f) if Q.atomic_kind(a) == "rmw" and any(x.k == "DeclRefExpr" and x.name == "total_sent" for x in a.children[0].walk())]
    loops = []
    for a in adds:
        lp = a.parent
        while lp is not None and lp.k != "ForStmt":
            lp = lp.parent
        if lp is not None:
            loops.append((a, lp))
    if len(loops) != 1:
        ck.inconclusive(rid, inst, f.where, "the loop that accumulates total_sent[] was not recognised", cfg)
        return
    a, lp = loops[0]
    sub = [x for x in a.children[0].walk() if x.k == "ArraySubscriptExpr"]
    idx = X.strip(sub[0].children[1]) if sub else None
    if idx is None or idx.k != "DeclRefExpr":
        ck.inconclusive(rid, inst, a.where, "total_sent is not indexed by the loop variable", cfg)
        return
    bad = None
    for n in range(1, _hi(ck)):
        got = for_indices(lp, idx.name, {"n_nodes": n})
        if got is None:
            ck.inconclusive(rid, inst, lp.where, "loop header is not a function of the index and n_nodes alone", cfg)
            return
        if got == "runaway" or sorted(got) != list(range(n)):
            bad = bad or (n, got)
    if bad:
        ck.violated(rid, inst, lp.where, "with %d rank(s) the send counts are accumulated for ranks %s only: a rank whose incoming count is left out stops waiting before all its messages of the closed colour arrived" % (bad[0], bad[1]), cfg)
    else:
        ck.holds(rid, inst, lp.where, "for 1..%d ranks the loop adds the send counts of every rank 0..n-1" % (_hi(ck) - 1), cfg)


def check_spawn_join(ck, P, rid):
    """parallel_simulation starts one worker per thread id 0..n-1 (the id is what the worker receives) and joins every one of them."""
    cfg = P.config
    f = P.fn_opt("parallel_simulation")
    if f is None:
        ck.broken("%s: parallel_simulation not found" % rid)
        return
    inst = "every-thread@parallel_simulation"
    bad = None
    for n in range(1, _hi(ck)):
        env = {"global_config.n_threads": n, "global_config.core_binding": 0}
        for k in range(n + 2):
            env["thrs[%d]" % k] = 1000 + k
        outs = interp.Interp(f, stubs={"thread_start": lambda a, e: 0, "thread_affinity_set": lambda a, e: 0}, max_visits=n + 4).run(env)
        done = [o for o in outs if o.how == "exit"]
        if outs and all(o.how == "loop-bound" for o in outs):
            ck.violated(rid, inst, f.where, "with %d thread(s) a start / join loop runs more than %d times" % (n, n + 4), cfg)
            return
        if len(done) != 1:
            ck.inconclusive(rid, inst, f.where, "start / join loops could not be evaluated for %d thread(s)" % n, cfg)
            return
        started = sorted(a[2] for name, a, e in done[0].calls if name == "thread_start" and len(a) > 2 and a[2] is not None)
        joined = sorted(a[0] - 1000 for name, a, e in done[0].calls if name == "thread_wait" and a and a[0] is not None)
        n_start = len([1 for name, a, e in done[0].calls if name == "thread_start"])
        n_join = len([1 for name, a, e in done[0].calls if name == "thread_wait"])
        if n_start != len(started) or n_join != len(joined):
            ck.inconclusive(rid, inst, f.where, "the id given to a worker / the handle joined is not a function of the loop index", cfg)
            return
        if started != list(range(n)) and bad is None:
            bad = (n, "workers are started with ids %s: %s" % (started, "an id that is missing has no thread to run its LPs and every barrier waits for it" if len(set(started)) < n else "ids outside 0..n-1"))
        if joined != list(range(n)) and bad is None:
            bad = (n, "thread handles %s are joined: the statistics and the LPs are finalised while thread(s) %s may still be running" % (joined, sorted(set(range(n)) - set(joined))))
    known = {"thread_start", "thread_affinity_set", "thread_wait", "parallel_global_init", "parallel_global_fini", "stats_global_time_take", "logger", "vlogger", "abort"}
    if bad and _opaque(P, f, known):
        ck.inconclusive(rid, inst, f.where, "threads are started / joined through %s, which this evaluation does not enter" % _opaque(P, f, known), cfg)
    elif bad:
        ck.violated(rid, inst, f.where, "with %d thread(s) %s" % bad, cfg)
    else:
        ck.holds(rid, inst, f.where, "for 1..%d threads one worker is started per id 0..n-1 and every handle is joined before the global finalisation" % (_hi(ck) - 1), cfg)


def check_array_loops(ck, P, rid, file_suffix, array, count_key, floor, what):
    """Every counted `for` loop in the given file whose body addresses `array[index]` visits index 0..count-1 exactly (header evaluated
    for counts 1..8)."""
    cfg = P.config
    n = 0
    for f in P.all_functions():
        if not f.file.endswith(file_suffix):
            continue
        for lp in f.walk():
            if lp.k != "ForStmt":
                continue
            body = lp.children[4]
            subs = [x for x in body.walk() if x.k == "ArraySubscriptExpr" and X.strip(x.children[0]).k == "DeclRefExpr" and X.strip(x.children[0]).name == array
                    and X.strip(x.children[1]).k == "DeclRefExpr"]
            if not subs:
                continue
            idx = X.strip(subs[0].children[1]).name
            # only loops whose own variable is the index
            own = [v for v in lp.children[0].walk() if (v.k == "VarDecl" and v.name == idx) or (v.k == "DeclRefExpr" and v.name == idx)]
            if not own:
                continue
            n += 1
            inst = "every-%s@%s:%d" % (what, f.name, n)
            bad = None
            unknown = False
            for cnt in range(1, _hi(ck)):
                got = for_indices(lp, idx, {count_key: cnt})
                if got is None:
                    unknown = True
                    break
                if got == "runaway" or sorted(got) != list(range(cnt)):
                    bad = bad or (cnt, got)
            if unknown:
                ck.inconclusive(rid, inst, lp.where, "loop header is not a function of the index and the count alone", cfg)
            elif bad:
                ck.violated(rid, inst, lp.where, "with %d %s(s) %s visits %s[%s] only for %s" % (bad[0], what, f.name, array, idx, bad[1]), cfg)
            else:
                ck.holds(rid, inst, lp.where, "%s visits %s[0 .. count-1]" % (f.name, array), cfg)
    ck.expect(rid, n, floor, "loops over %s[]" % array)


def check_partition_clear(ck, P, rid, bound_rid=None):
    """After a message count every thread zeroes its share of total_sent[]: the shares of threads 0..t-1 together cover the entries
    of ranks 0..n-1 (else a stale count makes a rank wait for messages that were already counted), and no share reaches past the
    array (`bound_rid`, memory safety)."""
    import re
    from . import ceval
    cfg = P.config
    f = P.fn("gvt_node_phase_run")
    inst = "clear-every-rank@total_sent"
    calls = [c for c in f.calls() if c.callee in ("memset", "__builtin_memset", "__builtin___memset_chk") and len(X.callee_args(c)) >= 3
             and any(x.k == "DeclRefExpr" and x.name == "total_sent" for x in X.callee_args(c)[0].walk())]
    decl = [v for v in f.walk() if v.k == "VarDecl" and v.name == "total_sent"]
    m = re.search(r"\[(\d+)\]", decl[0].d.get("t", "")) if decl else None
    if len(calls) != 1 or not m:
        if rid:
            ck.inconclusive(rid, inst, f.where, "the statement that zeroes total_sent[] after a count (one memset) was not recognised", cfg)
        if bound_rid:
            ck.inconclusive(bound_rid, "clear-in-bounds@total_sent", f.where, "the statement that zeroes total_sent[] was not recognised", cfg)
        return
    length = int(m.group(1))
    c = calls[0]
    dest = X.strip(X.callee_args(c)[0])
    off = None
    if dest.k == "DeclRefExpr":
        off = 0
    elif dest.k == "BinaryOperator" and dest.op == "+":
        a, b = dest.children
        if X.strip(a).k == "DeclRefExpr" and X.strip(a).name == "total_sent":
            off = b
        elif X.strip(b).k == "DeclRefExpr" and X.strip(b).name == "total_sent":
            off = a
    elif dest.k == "UnaryOperator" and dest.op == "&" and X.strip(dest.children[0]).k == "ArraySubscriptExpr":
        off = X.strip(dest.children[0]).children[1]
    esz = [x.d.get("cv") for x in X.callee_args(c)[2].walk() if x.k == "UnaryExprOrTypeTraitExpr" and x.d.get("cv")]
    if off is None or not esz:
        for r_, i_ in ((rid, inst), (bound_rid, "clear-in-bounds@total_sent")):
            if r_:
                ck.inconclusive(r_, i_, c.where, "start / length of the zeroed share are not of the form total_sent + e, k * sizeof(entry)", cfg)
        return
    esz = esz[0]
    # locals defined in the enclosing blocks in front of the memset, and the guards the memset sits under
    chain = []
    cur = c
    while cur.parent is not None and cur.parent.k not in ("SwitchStmt", "FunctionDecl"):
        chain.append((cur.parent, cur))
        cur = cur.parent

    def share(n, t, r):
        env = {"n_nodes": n, "global_config.n_threads": t, "rid": r}
        for par, child in reversed(chain):
            if par.k == "CompoundStmt":
                for s in par.children:
                    if s is child:
                        break
                    for v in s.walk():
                        if v.k == "VarDecl" and v.children:
                            val = ceval.ev(v.children[-1], env)
                            if val is not None:
                                env[v.name] = val
            elif par.k == "IfStmt":
                kids = [x for x in par.children if x.k != "Null"]
                if child is kids[0]:
                    continue
                cv = ceval.ev(kids[0], env)
                if cv is None:
                    return None
                if bool(cv) != (child is kids[1]):
                    return ()
        o = ceval.ev(off, env) if off != 0 else 0
        ln = ceval.ev(X.callee_args(c)[2], env)
        if o is None or ln is None:
            return None
        return (o, o + ln // esz) if ln > 0 else ()
    bad = oob = None
    unknown = False
    hi = _hi(ck)
    grid = [(n, t) for n in range(1, hi) for t in range(1, hi)]
    for n, t in grid + [(length - d, t) for d in (0, 1, 2, 3) for t in (1, 2, 3, hi - 1)]:
        covered = set()
        for r in range(t):
            sh = share(n, t, r)
            if sh is None:
                unknown = True
                break
            if not sh:
                continue
            if sh[0] < 0 or sh[1] > length:
                oob = oob or (n, t, r, sh)
            if n < hi:
                covered.update(range(max(sh[0], 0), min(sh[1], n)))
        if unknown:
            break
        if n < hi and len(covered) != n:
            bad = bad or (n, t, sorted(set(range(n)) - covered))
    if unknown:
        if rid:
            ck.inconclusive(rid, inst, c.where, "the share a thread zeroes is not a function of n_nodes, n_threads and rid alone", cfg)
        if bound_rid:
            ck.inconclusive(bound_rid, "clear-in-bounds@total_sent", c.where, "the share a thread zeroes is not a function of n_nodes, n_threads and rid alone", cfg)
        return
    if not rid:
        pass
    elif bad:
        ck.violated(rid, inst, c.where, "with %d rank(s) and %d thread(s) the entries of rank(s) %s are never zeroed after a count: the next count adds to the stale value, that rank waits for messages which were already received and the round never completes" % bad, cfg)
    else:
        ck.holds(rid, inst, c.where, "for 1..%d ranks x 1..%d threads the shares of all threads cover total_sent[0..n-1]" % (hi - 1, hi - 1), cfg)
    if bound_rid:
        if oob:
            ck.violated(bound_rid, "clear-in-bounds@total_sent", c.where, "with %d rank(s) and %d thread(s) thread %d zeroes entries [%d, %d) of an array of %d: a write past its end" % (oob[0], oob[1], oob[2], oob[3][0], oob[3][1], length), cfg)
        else:
            ck.holds(bound_rid, "clear-in-bounds@total_sent", c.where, "no share reaches past total_sent[%d] (ranks 1..%d and %d..%d evaluated)" % (length, hi - 1, length - 3, length), cfg)


def check_rank_has_worker(ck, P, rid):
    """lp_global_init lowers the thread count of a rank to the number of LPs it hosts.  A rank must not be left with zero workers: it
    would start no thread, never contribute to a GVT reduction, and every other rank would wait for it forever.  Evaluated over
    1..12 LPs x 1..8 ranks x 1..4 requested threads (ranks > LPs included): the function either aborts or leaves >= 1 thread."""
    cfg = P.config
    f = P.fn("lp_global_init")
    inst = "worker-per-rank@lp_global_init"
    bad = None
    n_eval = 0
    hi = 9 if _hi(ck) == 9 else 13
    for lps in range(1, 13):
        for nn in range(1, hi):
            for nid in range(nn):
                for thr in (1, 2, 4):
                    env = {"nid": nid, "n_nodes": nn, "global_config.lps": lps, "global_config.n_threads": thr}
                    outs = interp.Interp(f, stubs={"mm_alloc": lambda a, e: 4096, "logger": lambda a, e: 0, "vlogger": lambda a, e: 0}, max_visits=64).run(env)
                    if not outs or any(o.how == "loop-bound" or not o.decided for o in outs):
                        known = {"mm_alloc", "logger", "vlogger", "abort"}
                        ck.inconclusive(rid, inst, f.where, "lp_global_init could not be evaluated for %d LPs on %d ranks%s" % (lps, nn, (" (calls %s)" % _opaque(P, f, known)) if _opaque(P, f, known) else ""), cfg)
                        return
                    n_eval += 1
                    for o in outs:
                        if o.how == "exit" and (o.env.get("global_config.n_threads") or 0) < 1 and bad is None:
                            bad = (lps, nn, nid, o.env.get("n_lps_node"), o.env.get("global_config.n_threads"))
    if bad:
        ck.violated(rid, inst, f.where, "with %d LP(s) on %d ranks, rank %d hosts %s LP(s) and is left with %s worker thread(s): it never takes part in a GVT reduction and the other ranks wait for it forever (RootsimRun does not return)" % bad, cfg)
    else:
        ck.holds(rid, inst, f.where, "in %d configurations (ranks > LPs included) every rank either keeps >= 1 worker thread or refuses to start" % n_eval, cfg)
