"""Dynamic-array capacity discipline (datatypes/array.h), checked at every macro expansion (C11.7).

The grow / shrink decisions are tiny integer programs over (count, capacity).  They are evaluated as expressions over the
small domain count, capacity <= 12 (the decisions compare the two numbers and scale by small constants; nothing else is read),
never executed: a violation is a concrete (count, capacity) for which a write lands outside the reallocated block.
"""
from . import expr as X
from . import ceval

GROW = ("array_expand", "array_reserve")


def _member(n, name):
    for x in n.walk():
        if x.k == "MemberExpr" and x.name == name:
            return x
    return None


def _first_if(body):
    for s in body.children:
        if s.k == "IfStmt":
            return s
    return None


def _updates(n, key):
    """Compound assignments / assignments to the member whose canonical text is `key`, in source order."""
    out = []
    for x in n.walk():
        if x.k in ("CompoundAssignOperator", "BinaryOperator") and (x.k == "CompoundAssignOperator" or x.op == "=") and X.show(X.strip(x.children[0])) == key:
            out.append(x)
    return out


def _apply(u, env, key):
    if u.k == "CompoundAssignOperator":
        v = ceval.ev(u.children[1], env)
        if v is None:
            return None
        cur = env[key]
        return {"*=": cur * v, "+=": cur + v, "/=": cur // v if v else None, "-=": cur - v, "<<=": cur << v, ">>=": cur >> v}.get(u.op)
    return ceval.ev(u.children[1], env)


def check(ck, P, rid):
    cfg = P.config
    n_sites = 0
    seen_defs = {}
    for f in P.all_functions():
        if not f.file.startswith("src/"):
            continue
        for n in f.walk():
            if n.k != "StmtExpr" or not n.macros:
                continue
            m = n.macros[0]
            if m not in ("array_expand", "array_reserve", "array_shrink"):
                continue
            body = n.children[0]
            cnt, cap, items = _member(n, "count"), _member(n, "capacity"), _member(n, "items")
            inst = "%s@%s" % (m, f.name)
            if cnt is None or cap is None:
                ck.inconclusive(rid, inst, n.where, "count / capacity not found in the expansion", cfg)
                continue
            kc, kp = X.show(cnt), X.show(cap)
            ifs = _first_if(body)
            if ifs is None:
                ck.inconclusive(rid, inst, n.where, "no capacity test in the expansion", cfg)
                continue
            n_sites += 1
            kids = [c for c in ifs.children if c.k != "Null"]
            cond, then = kids[0], kids[1]
            ups = _updates(then, kp)
            loop = [x for x in then.walk() if x.k in ("DoStmt", "WhileStmt")]
            # locals declared before the test (array_reserve's tcnt = count + n)
            decls = [v for s in body.children if s.k == "DeclStmt" for v in s.children if v.k == "VarDecl" and v.children]
            bad = None
            unknown = None
            for capacity in range(1, 13):
                for count in range(0, capacity + 1):
                    env = {kc: count, kp: capacity}
                    need = 1
                    for v in decls:
                        val = ceval.ev(v.children[-1], env)
                        if val is None:
                            unknown = "initialiser of `%s` is not a function of count and capacity alone" % v.name
                            break
                        env[v.name] = val
                        need = max(need, val - count)
                    if unknown:
                        break
                    c = ceval.ev(cond, env)
                    if c is None:
                        unknown = "capacity test `%s` reads something else than count and capacity" % X.show(cond)
                        break
                    newcap = capacity
                    if c:
                        if not ups:
                            unknown = "no capacity update under the test"
                            break
                        if loop:
                            lc = [c2 for c2 in loop[0].children if c2.k not in ("CompoundStmt", "Null")]
                            lcond = lc[-1] if lc else None
                            for it in range(40):
                                newcap = _apply(ups[0], dict(env, **{kp: newcap}), kp)
                                if newcap is None or newcap > 1 << 40:
                                    break
                                again = ceval.ev(lcond, dict(env, **{kp: newcap})) if lcond is not None else 0
                                if again is None or not again:
                                    break
                            else:
                                bad = bad or (count, capacity, "the growth loop does not terminate")
                        else:
                            newcap = _apply(ups[0], env, kp)
                        if newcap is None:
                            unknown = "capacity update `%s` cannot be evaluated" % X.show(ups[0])
                            break
                    if m in GROW:
                        # room for the elements about to be written at positions count .. count+need-1
                        if newcap < count + need and bad is None:
                            bad = (count, capacity, "capacity is %d afterwards, but element(s) are then written up to position %d" % (newcap, count + need - 1))
                    else:
                        if newcap < count and bad is None:
                            bad = (count, capacity, "capacity is halved to %d below the %d live elements" % (newcap, count))
                if unknown:
                    break
            if unknown:
                ck.inconclusive(rid, inst, ifs.where, unknown, cfg)
                continue
            if bad:
                ck.violated(rid, inst, cond.where, "%s with count = %d, capacity = %d: %s (test `%s`)" % (m, bad[0], bad[1], bad[2], X.show(X.strip(cond))[:80]), cfg)
                continue
            # the reallocation uses the updated capacity times the element size and its result replaces items
            calls = [c for c in then.walk() if c.k == "CallExpr" and c.callee in ("mm_realloc", "realloc", "rs_realloc")]
            if len(calls) != 1:
                ck.inconclusive(rid, inst, then.where, "reallocation not recognised", cfg)
                continue
            call = calls[0]
            size = X.strip(X.callee_args(call)[1], casts=True)
            ok_size = False
            if size.k == "BinaryOperator" and size.op == "*":
                l, r = X.strip(size.children[0], casts=True), X.strip(size.children[1], casts=True)
                for a, b in ((l, r), (r, l)):
                    if X.show(a) == kp and b.k == "UnaryExprOrTypeTraitExpr":
                        ok_size = True
            order_ok = all(u.id < call.id for u in ups)
            assigned = call.parent
            while assigned is not None and assigned.k in ("ImplicitCastExpr", "ParenExpr", "CStyleCastExpr"):
                assigned = assigned.parent
            to_items = assigned is not None and assigned.k == "BinaryOperator" and assigned.op == "=" and X.strip(assigned.children[0]).k == "MemberExpr" and X.strip(assigned.children[0]).name == "items"
            if not ok_size:
                ck.violated(rid, inst, call.where, "the block is reallocated with size `%s`, not capacity * sizeof(element)" % X.show(size)[:80], cfg)
            elif not order_ok:
                ck.violated(rid, inst, call.where, "the block is reallocated before the capacity is updated", cfg)
            elif not to_items:
                ck.violated(rid, inst, call.where, "the reallocated block is not stored back into items", cfg)
            else:
                ck.holds(rid, inst, n.where, "for all count <= capacity <= 12: %s; reallocated to capacity * sizeof(element) and stored back"
                         % ("room for the element(s) written next" if m in GROW else "capacity stays >= count"), cfg)
    ck.expect(rid, n_sites, 10, "array_expand / array_reserve / array_shrink expansions")
    # writers: array_push and heap_insert store at a position the grow step covers
    n_push = 0
    for f in P.all_functions():
        if not f.file.startswith("src/"):
            continue
        for n in f.walk():
            if n.k == "StmtExpr" and n.macros and n.macros[0] in ("array_push", "array_add_at"):
                n_push += 1
                inst = "%s@%s" % (n.macros[0], f.name)
                body = n.children[0]
                grow = [k for k, s in enumerate(body.children) if any(x.k == "StmtExpr" and x.macros and x.macros[0] in GROW for x in s.walk())]
                stores = [(k, s) for k, s in enumerate(body.children) if X.strip(s).k == "BinaryOperator" and X.strip(s).op == "=" and X.strip(X.strip(s).children[0]).k == "ArraySubscriptExpr"]
                incs = [k for k, s in enumerate(body.children) if X.strip(s).k == "UnaryOperator" and X.strip(s).op == "++"]
                if not grow or not stores or not incs:
                    ck.inconclusive(rid, inst, n.where, "expansion not recognised", cfg)
                elif not (grow[0] < stores[0][0] < incs[0]):
                    ck.violated(rid, inst, n.where, "the element is stored / the count advanced before the capacity was checked", cfg)
                else:
                    ck.holds(rid, inst, n.where, "capacity check, then store, then count++", cfg)
    ck.expect(rid, n_push, 5, "array_push / array_add_at expansions")


def _arg_text(n):
    return X.show(X.strip(n, casts=True))


def _addr_index(n):
    """`&items[idx]` -> idx node; `items` -> 0 (returns ('zero', None)); else None."""
    n = X.strip(n, casts=True)
    while n is not None and n.k in ("ImplicitCastExpr", "CStyleCastExpr", "ParenExpr"):
        n = X.strip(n.children[0], casts=True)
    if n is None:
        return None
    if n.k == "UnaryOperator" and n.op == "&":
        s = X.strip(n.children[0], casts=True)
        if s.k == "ArraySubscriptExpr":
            return ("idx", s.children[1])
    if n.k == "MemberExpr" and n.name == "items":
        return ("zero", None)
    return None


def _len_parts(n):
    """`sizeof(elem) * E` -> E"""
    n = X.strip(n, casts=True)
    if n.k == "BinaryOperator" and n.op == "*":
        l, r = X.strip(n.children[0], casts=True), X.strip(n.children[1], casts=True)
        if l.k == "UnaryExprOrTypeTraitExpr":
            return r
        if r.k == "UnaryExprOrTypeTraitExpr":
            return l
    return None


def check_moves(ck, P, rid):
    """array_truncate_first / array_add_at: the memmove covers exactly the live elements that have to move."""
    cfg = P.config
    n_sites = 0
    for f in P.all_functions():
        if not f.file.startswith("src/"):
            continue
        for n in f.walk():
            if n.k != "StmtExpr" or not n.macros or n.macros[0] not in ("array_truncate_first", "array_add_at"):
                continue
            m = n.macros[0]
            inst = "%s@%s" % (m, f.name)
            body = n.children[0]
            mv = [c for c in body.walk() if c.k == "CallExpr" and c.callee in ("memmove", "__builtin_memmove", "__builtin___memmove_chk", "memcpy", "__builtin_memcpy", "__builtin___memcpy_chk")]
            cnt = _member(n, "count")
            if len(mv) != 1 or cnt is None:
                ck.inconclusive(rid, inst, n.where, "move not recognised", cfg)
                continue
            n_sites += 1
            call = mv[0]
            if call.callee in ("memcpy", "__builtin_memcpy", "__builtin___memcpy_chk"):
                ck.violated(rid, inst, call.where, "overlapping ranges are moved with memcpy", cfg)
                continue
            dst, src, ln = X.callee_args(call)[:3]
            d, s, le = _addr_index(dst), _addr_index(src), _len_parts(ln)
            kc = X.show(cnt)
            stmts = body.children
            pos = lambda node: next((k for k, st in enumerate(stmts) if node is st or node.is_inside(st)), None)
            if d is None or s is None or le is None:
                ck.inconclusive(rid, inst, call.where, "memmove operands not recognised", cfg)
                continue
            if m == "array_truncate_first":
                dec = [x for x in body.walk() if x.k == "CompoundAssignOperator" and x.op == "-=" and X.show(X.strip(x.children[0])) == kc]
                if len(dec) != 1:
                    ck.inconclusive(rid, inst, n.where, "count update not recognised", cfg)
                    continue
                ntxt = _arg_text(dec[0].children[1])
                before = pos(dec[0]) < pos(call)
                ltxt = _arg_text(le)
                want_len = kc if before else "(%s - %s)" % (kc, ntxt)
                ok = d[0] == "zero" or (d[0] == "idx" and X.const_int(d[1]) == 0)
                ok = ok and s[0] == "idx" and _arg_text(s[1]) == ntxt
                len_ok = ltxt == kc if before else (ltxt.replace(" ", "") in ("(%s-%s)" % (kc, ntxt)).replace(" ", ""))
                if not ok:
                    ck.violated(rid, inst, call.where, "after dropping the first %s elements the survivors must move from position %s to position 0; found memmove(%s, %s, ..)" % (ntxt, ntxt, X.show(X.strip(dst, casts=True))[:40], X.show(X.strip(src, casts=True))[:40]), cfg)
                elif not len_ok:
                    ck.violated(rid, inst, call.where, "the move must cover the %s surviving elements; found length `%s` elements" % ("count (already reduced)" if before else "count - n", ltxt), cfg)
                else:
                    ck.holds(rid, inst, call.where, "count -= %s, then the %s survivors move from position %s to 0" % (ntxt, kc, ntxt), cfg)
            else:
                st = [x for x in stmts if X.strip(x).k == "BinaryOperator" and X.strip(x).op == "=" and X.strip(X.strip(x).children[0]).k == "ArraySubscriptExpr"]
                if len(st) != 1 or s[0] != "idx" or d[0] != "idx":
                    ck.inconclusive(rid, inst, n.where, "insertion not recognised", cfg)
                    continue
                itxt = _arg_text(X.strip(X.strip(st[0]).children[0]).children[1])
                dtxt, stxt, ltxt = _arg_text(d[1]), _arg_text(s[1]), _arg_text(le)
                norm = lambda t: t.replace(" ", "").replace("(", "").replace(")", "")
                ok = norm(stxt) == norm(itxt) and norm(dtxt) == norm(itxt) + "+1" and norm(ltxt) == norm(kc) + "-" + norm(itxt) and pos(call) < pos(st[0])
                if not ok and pos(call) < pos(st[0]):
                    # the same positions written differently: compare the values for small indices and counts
                    from . import ceval
                    inode = X.strip(X.strip(st[0]).children[0]).children[1]
                    names = sorted({x.name for x in inode.walk() if x.k == "DeclRefExpr"})
                    same = len(names) == 1
                    for iv in range(0, 4) if same else ():
                        for cv in range(iv, 5):
                            env = {names[0]: iv, kc: cv}
                            vals = [ceval.ev(inode, env), ceval.ev(s[1], env), ceval.ev(d[1], env), ceval.ev(le, env)]
                            if None in vals or not (vals[1] == vals[0] and vals[2] == vals[0] + 1 and vals[3] == cv - vals[0]):
                                same = False
                    ok = same
                if ok:
                    ck.holds(rid, inst, call.where, "elements %s .. count-1 move up by one before the new element is stored at %s" % (itxt, itxt), cfg)
                else:
                    ck.violated(rid, inst, call.where, "inserting at %s must first move the count - %s elements from %s to %s + 1; found memmove(&items[%s], &items[%s], %s elements)" % (itxt, itxt, itxt, itxt, dtxt, stxt, ltxt), cfg)
    ck.expect(rid, n_sites, 3, "array_truncate_first / array_add_at expansions")


def check_cached_items(ck, P, rid, only=None):
    """heap_insert / heap_extract keep the element array in a local (`items`).  The array may be reallocated (array_expand, array_reserve,
    array_shrink) only BEFORE that local is loaded: afterwards the local would point to the freed block."""
    cfg = P.config
    n = 0
    for f in P.all_functions():
        if not f.file.startswith("src/"):
            continue
        for s0 in f.walk():
            if s0.k != "StmtExpr" or not s0.macros or s0.macros[0] not in ("heap_insert", "heap_extract", "heap_insert_n", "array_add_at", "array_push"):
                continue
            if only and s0.macros[0] not in only:
                continue
            body = s0.children[0]
            cache = None
            for k, st in enumerate(body.children):
                for v in st.children if st.k == "DeclStmt" else []:
                    init = X.strip(v.children[-1], casts=True) if v.k == "VarDecl" and v.children else None
                    if init is None or cache is not None:
                        continue
                    if init.k == "MemberExpr" and init.name == "items":
                        cache = (k, v)
                    elif (v.d.get("tp") or "*" in (v.t or "")) and any(x.k == "MemberExpr" and x.name == "items" for x in init.walk()):
                        cache = (k, v)          # a pointer into the element array (&items[i], items + i)
            if cache is None:
                continue
            if s0.macros[0] in ("heap_insert", "heap_extract", "heap_insert_n"):
                n += 1
            inst = "cached-items:%s@%s" % (s0.macros[0], f.name)
            k0, v = cache
            last_use = max([k for k, st in enumerate(body.children) if any(x.k == "DeclRefExpr" and x.did == v.did for x in st.walk())] or [k0])
            bad = None
            for k, st in enumerate(body.children):
                if k <= k0 or k > last_use:
                    continue
                for x in st.walk():
                    if x.k == "StmtExpr" and x.macros and x.macros[0] in ("array_expand", "array_reserve", "array_shrink"):
                        bad = x
                    if x.k == "CallExpr" and x.callee in ("mm_realloc", "realloc"):
                        bad = x
            if bad is not None:
                ck.violated(rid, inst, bad.where, "the element array can be reallocated (%s) after `%s` cached its address and before the last use of that copy: when the block moves, the "
                            "sift loop reads and writes freed memory" % (bad.macros[0] if bad.k == "StmtExpr" else bad.callee, v.name), cfg)
            else:
                ck.holds(rid, inst, s0.where, "no reallocation of the array between caching its address in `%s` and the last use of the copy" % v.name, cfg)
    if not only:
        ck.expect(rid, n, 6, "heap operations that cache the element array")
