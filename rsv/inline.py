"""Normalisation: a NEW static helper with a single call site is folded back into its caller before the rules run.

"Extract function" is the refactoring that most easily defeats rules anchored on a function (the statement they look for is now one
call away).  The functions of the pinned tree are the anchors the rule tables name (rsv/known_functions.json); any other static
function of src/ that has exactly one call site, whose call is a statement of its own (result unused) and whose parameters are never
written or address-taken, is inlined at the level of the dumped facts: its AST replaces the call statement (parameter references
replaced by the argument expressions) and its CFG blocks are spliced into the caller's block at the call element.  Helpers that return
a value that is used are left alone (rules handle those case by case with Q.with_helpers).  Any failure leaves the program as it was.
"""
import json
import os

KNOWN = set(json.load(open(os.path.join(os.path.dirname(os.path.abspath(__file__)), "known_functions.json"))))


def _subtree(nodes, root):
    out, todo = [], [root]
    while todo:
        i = todo.pop()
        out.append(i)
        todo.extend(nodes[i].get("c", []))
    return out


def _postorder(nodes, root):
    out = []
    for c in nodes[root].get("c", []):
        out += _postorder(nodes, c)
    out.append(root)
    return out


def _params_safe(gd):
    pn = {p["name"] for p in gd["params"]}
    nodes = gd["nodes"]
    for n in nodes:
        k = n.get("k")
        if k in ("BinaryOperator", "CompoundAssignOperator") and (k == "CompoundAssignOperator" or n.get("op") == "="):
            t = n["c"][0]
            while nodes[t].get("k") in ("ParenExpr",) and nodes[t].get("c"):
                t = nodes[t]["c"][0]
            if nodes[t].get("k") == "DeclRefExpr" and nodes[t].get("sc") == "param" and nodes[t].get("name") in pn:
                return False
        if k == "UnaryOperator" and n.get("op") in ("++", "--", "&"):
            t = n["c"][0]
            while nodes[t].get("k") in ("ParenExpr",) and nodes[t].get("c"):
                t = nodes[t]["c"][0]
            if nodes[t].get("k") == "DeclRefExpr" and nodes[t].get("sc") == "param" and nodes[t].get("name") in pn:
                return False
    return True


def inline_one(fd, gd, call_id, fmap=None):
    """Return a new function dict for the caller with g folded in at the call statement, or None."""
    fn = [dict(n) for n in fd["nodes"]]
    for n in fn:
        if "c" in n:
            n["c"] = list(n["c"])
    call = fn[call_id]
    par_of = {}
    for i, n in enumerate(fn):
        for c_ in n.get("c", []):
            par_of[c_] = i
    parent = par_of.get(call_id)
    if parent is None:
        return None
    void = (gd.get("ret") or {}).get("t") == "void"
    value_root = None       # for a value-returning helper: the node of g's single, final `return e;`
    stmt = call_id          # the statement of the caller that contains the call
    if void:
        if fn[parent].get("k") not in ("CompoundStmt", "ForStmt", "WhileStmt", "DoStmt", "IfStmt"):
            return None
    else:
        rets = [i for i, n in enumerate(gd["nodes"]) if n.get("k") == "ReturnStmt"]
        groot = gd["nodes"][gd["root"]]
        if not rets or any(not gd["nodes"][r].get("c") for r in rets):
            return None
        if len(rets) != 1 or not groot.get("c") or groot["c"][-1] != rets[0]:
            return _inline_condition_helper(fd, gd, call_id)
        value_root = rets[0]
        # a helper that is ONE return statement is an expression: it may replace its call anywhere (nothing is moved in front)
        pure = len([c for c in groot["c"] if gd["nodes"][c].get("k") != "NullStmt"]) == 1
        # climb to the enclosing statement through value-preserving positions only
        cur = call_id
        while not pure:
            p_ = par_of.get(cur)
            if p_ is None:
                return None
            k_ = fn[p_].get("k")
            if k_ == "CompoundStmt":
                stmt = cur
                parent = p_
                break
            ok = k_ in ("ImplicitCastExpr", "ParenExpr", "CStyleCastExpr", "DeclStmt", "ReturnStmt") or \
                (k_ == "VarDecl") or (k_ == "BinaryOperator" and fn[p_].get("op") == "=" and fn[p_]["c"][1] == cur) or \
                (k_ == "IfStmt" and [x for x in fn[p_]["c"] if fn[x].get("k") != "Null"][0] == cur)
            if not ok:
                return None
            cur = p_
    args = call["c"][1:]
    params = [p["name"] for p in gd["params"]]
    if len(args) != len(params) or not gd.get("cfg") or not fd.get("cfg"):
        return None
    gn = gd["nodes"]
    node_map = {}
    as_macro = (not void) and pure

    def clone_f(i):
        """clone a subtree of the caller (an argument expression)"""
        nd = dict(fn[i])
        new = len(fn)
        fn.append(nd)
        nd["c"] = [clone_f(c) for c in fn[i].get("c", [])]
        return new

    def simple(i):
        n = fn[i]
        while n.get("k") in ("ImplicitCastExpr", "ParenExpr", "CStyleCastExpr") and n.get("c"):
            n = fn[n["c"][0]]
        if n.get("k") in ("DeclRefExpr", "IntegerLiteral", "FloatingLiteral", "CharacterLiteral"):
            return True
        if n.get("k") == "UnaryOperator" and n.get("op") == "&" and n.get("c"):
            m = fn[n["c"][0]]
            while m.get("k") in ("ParenExpr",) and m.get("c"):
                m = fn[m["c"][0]]
            return m.get("k") == "DeclRefExpr"
        return False
    # a parameter bound to a non-trivial argument becomes a local of the same name, initialised with the argument
    as_local = {pn: not simple(args[k]) for k, pn in enumerate(params)}
    if not void and pure:
        SIDE = ("CallExpr", "CompoundAssignOperator", "StmtExpr", "AtomicExpr")
        for k, pn in enumerate(params):
            sub = [fn[x] for x in _subtree(fn, args[k])]
            if any(n.get("k") in SIDE or (n.get("k") == "BinaryOperator" and n.get("op") == "=") or
                   (n.get("k") == "UnaryOperator" and n.get("op") in ("++", "--")) for n in sub):
                if sum(1 for n in gn if n.get("k") == "DeclRefExpr" and n.get("sc") == "param" and n.get("name") == pn) != 1:
                    return None
            as_local[pn] = False

    def clone_g(i):
        src = gn[i]
        if src.get("k") == "DeclRefExpr" and src.get("sc") == "param" and src.get("name") in params:
            if as_local[src["name"]]:
                nd = dict(src)
                nd["sc"] = "local"
                nd["c"] = []
                new = len(fn)
                fn.append(nd)
                node_map[i] = new
                return new
            new = clone_f(args[params.index(src["name"])])
            node_map[i] = new
            return new
        nd = dict(src)
        if fmap is not None and "f" in nd:
            nd["f"] = fmap(nd["f"])
        if as_macro:
            # an expression helper reads like the macro it may have replaced: its nodes carry the helper's name in their macro stacks
            # (when the call is itself the whole body of a forwarding macro -- #define f(x) f_impl(x) -- that macro's name is enough)
            fwd = bool(call.get("m")) and bool(call.get("me")) and call["m"][0] == call["me"][0]
            mid = [] if fwd else [gd["name"]]
            nd["m"] = list(src.get("m") or []) + mid + list(call.get("m") or [])
            nd["me"] = list(src.get("me") or []) + mid + list(call.get("me") or [])
        new = len(fn)
        fn.append(nd)
        node_map[i] = new
        nd["c"] = [clone_g(c) for c in src.get("c", [])]
        if nd.get("k") == "ReturnStmt":
            nd["k"] = "InlinedReturn"
        return new

    body = clone_g(gd["root"])
    temp_elems = []
    temps = []
    for k, pn in enumerate(params):
        if not as_local[pn]:
            continue
        pd = gd["params"][k]
        init = clone_f(args[k])
        var = {"k": "VarDecl", "name": pn, "sc": "local", "did": pd.get("did"), "t": pd.get("t"), "c": [init], "f": call.get("f"), "l": call.get("l")}
        if pd.get("tp"):
            var["tp"] = pd["tp"]
        vid = len(fn)
        fn.append(var)
        ds = {"k": "DeclStmt", "c": [vid], "f": call.get("f"), "l": call.get("l")}
        did_ = len(fn)
        fn.append(ds)
        temps.append(did_)
        temp_elems.append(vid)
    if temps:
        fn[body]["c"] = temps + list(fn[body]["c"])
    if void:
        fn[parent]["c"] = [body if c == call_id else c for c in fn[parent]["c"]]
    elif pure:
        ret_new = node_map[value_root]
        val_new = fn[ret_new]["c"][0]
        fn[ret_new]["c"] = []           # the returned expression has one parent: the place of the call
        cp = par_of[call_id]
        fn[cp]["c"] = [val_new if c == call_id else c for c in fn[cp]["c"]]
        node_map[value_root] = val_new
    else:
        # the helper's statements go in front of the caller's statement; its returned expression takes the place of the call
        ret_new = node_map[value_root]
        val_new = fn[ret_new]["c"][0]
        fn[ret_new]["c"] = []
        fn[body]["c"] = [c for c in fn[body]["c"] if c != ret_new]
        pos = fn[parent]["c"].index(stmt)
        fn[parent]["c"] = fn[parent]["c"][:pos] + [body] + fn[parent]["c"][pos:]
        cp = par_of[call_id]
        fn[cp]["c"] = [val_new if c == call_id else c for c in fn[cp]["c"]]
        node_map[value_root] = val_new
    # ---- CFG
    fb = [dict(b) for b in fd["cfg"]["blocks"]]
    host = None
    for b in fb:
        if call_id in b["e"]:
            host = b
    if host is None:
        return None
    idx = host["e"].index(call_id)
    next_id = max(b["id"] for b in fb) + 1
    post_id = next_id
    next_id += 1
    base = next_id
    post = {"id": post_id, "e": list(host["e"][idx + 1:]), "s": list(host["s"])}
    if not void:
        post["e"] = [node_map[value_root]] + post["e"]
    for key in ("term", "termk", "cond", "noreturn"):
        if key in host:
            post[key] = host[key]
            del host[key]
    if not void and post.get("cond") == call_id:
        post["cond"] = node_map[value_root]      # the call itself was the branch condition
    host["e"] = list(host["e"][:idx])
    g_entry, g_exit = gd["cfg"]["entry"], gd["cfg"]["exit"]
    host["s"] = [base + g_entry]
    new_blocks = [post]
    for b in gd["cfg"]["blocks"]:
        nb = {"id": base + b["id"], "e": [node_map[e] for e in b["e"] if e in node_map]}
        if b["id"] == g_entry and temp_elems:
            nb["e"] = list(temp_elems) + nb["e"]
        if b["id"] == g_exit:
            nb["s"] = [post_id]
        else:
            nb["s"] = [(base + s if s is not None else None) for s in b["s"]]
        for key in ("term", "cond", "label"):
            if key in b and b[key] in node_map:
                nb[key] = node_map[b[key]]
        if "termk" in b:
            nb["termk"] = b["termk"]
        if b.get("noreturn"):
            nb["noreturn"] = b["noreturn"]
        new_blocks.append(nb)
    out = dict(fd)
    out["nodes"] = fn
    out["cfg"] = {"blocks": fb + new_blocks, "entry": fd["cfg"]["entry"], "exit": fd["cfg"]["exit"]}
    for k_, n in enumerate(fn):
        if "c" not in n:
            n["c"] = []
    return out


def _inline_condition_helper(fd, gd, call_id):
    """A helper with several returns whose call is the controlling condition of an `if` (possibly under !, parentheses, casts or
    __builtin_expect): its body goes in front of the `if`; each `return e` becomes `flag = e` for a fresh flag that replaces the call,
    and in the flow graph a return of a constant goes straight to the branch of the `if` that constant selects."""
    fn = [dict(n) for n in fd["nodes"]]
    for n in fn:
        n["c"] = list(n.get("c", []))
    par_of = {}
    for i, n in enumerate(fn):
        for c_ in n["c"]:
            par_of[c_] = i
    call = fn[call_id]
    flips = 0
    cur = call_id
    wrappers = []
    while True:
        p_ = par_of.get(cur)
        if p_ is None:
            return None
        n_ = fn[p_]
        k_ = n_.get("k")
        if k_ == "IfStmt":
            if [x for x in n_["c"] if fn[x].get("k") != "Null"][0] != cur:
                return None
            if_id = p_
            break
        if k_ in ("ImplicitCastExpr", "ParenExpr", "CStyleCastExpr"):
            pass
        elif k_ == "UnaryOperator" and n_.get("op") == "!":
            flips += 1
        elif k_ == "CallExpr" and n_.get("callee") == "__builtin_expect" and len(n_["c"]) >= 2 and n_["c"][1] == cur:
            pass
        else:
            return None
        wrappers.append(p_)
        cur = p_
    parent = par_of.get(if_id)
    if parent is None or fn[parent].get("k") != "CompoundStmt":
        return None
    args = call["c"][1:]
    params = [p["name"] for p in gd["params"]]
    if len(args) != len(params) or not gd.get("cfg") or not fd.get("cfg"):
        return None
    gn = gd["nodes"]
    node_map = {}
    flag_name = "__ret_" + gd["name"]
    flag_did = 10 ** 9 + call_id
    rt = gd.get("ret") or {}

    def add(nd):
        fn.append(nd)
        return len(fn) - 1

    def clone_f(i):
        nd = dict(fn[i])
        new = add(nd)
        nd["c"] = [clone_f(c) for c in fn[i].get("c", [])]
        return new

    def flag_ref(like):
        return add({"k": "DeclRefExpr", "name": flag_name, "sc": "local", "did": flag_did, "t": rt.get("t"), "ti": rt.get("ti"), "c": [],
                    "f": like.get("f"), "l": like.get("l")})

    temps, temp_elems = [], []
    ret_assign = {}     # ReturnStmt of g -> (assign node, lhs node)

    def clone_g(i):
        src = gn[i]
        if src.get("k") == "DeclRefExpr" and src.get("sc") == "param" and src.get("name") in params:
            nd = dict(src)
            nd["sc"] = "local"
            nd["c"] = []
            new = add(nd)
            node_map[i] = new
            return new
        if src.get("k") == "ReturnStmt":
            val = clone_g(src["c"][0])
            lhs = flag_ref(src)
            new = add({"k": "BinaryOperator", "op": "=", "c": [lhs, val], "t": rt.get("t"), "ti": rt.get("ti"), "f": src.get("f"), "l": src.get("l"),
                       "inlined_return": 1})
            node_map[i] = new
            ret_assign[i] = (new, lhs)
            return new
        nd = dict(src)
        new = add(nd)
        node_map[i] = new
        nd["c"] = [clone_g(c) for c in src.get("c", [])]
        return new

    body = clone_g(gd["root"])
    # every parameter becomes a local of the same name initialised with its argument
    for k, pn in enumerate(params):
        pd = gd["params"][k]
        init = clone_f(args[k])
        var = {"k": "VarDecl", "name": pn, "sc": "local", "did": pd.get("did"), "t": pd.get("t"), "c": [init], "f": call.get("f"), "l": call.get("l")}
        for key in ("tp", "ti"):
            if pd.get(key) is not None:
                var[key] = pd[key]
        vid = add(var)
        temps.append(add({"k": "DeclStmt", "c": [vid], "f": call.get("f"), "l": call.get("l")}))
        temp_elems.append(vid)
    fvar = add({"k": "VarDecl", "name": flag_name, "sc": "local", "did": flag_did, "t": rt.get("t"), "ti": rt.get("ti"), "c": [],
                "f": call.get("f"), "l": call.get("l")})
    temps.append(add({"k": "DeclStmt", "c": [fvar], "f": call.get("f"), "l": call.get("l")}))
    fn[body]["c"] = temps + list(fn[body]["c"])
    pos = fn[parent]["c"].index(if_id)
    fn[parent]["c"] = fn[parent]["c"][:pos] + [body] + fn[parent]["c"][pos:]
    use = flag_ref(call)
    cp = par_of[call_id]
    fn[cp]["c"] = [use if c == call_id else c for c in fn[cp]["c"]]
    # ---- CFG
    fb = [dict(b) for b in fd["cfg"]["blocks"]]
    host = None
    for b in fb:
        if call_id in b["e"]:
            host = b
    if host is None or host.get("term") != if_id or len(host.get("s", [])) != 2:
        return None
    idx = host["e"].index(call_id)
    if any(e not in wrappers and e not in _subtree(fn, fn[if_id]["c"][0]) for e in host["e"][idx + 1:]):
        return None
    next_id = max(b["id"] for b in fb) + 1
    post_id = next_id
    base = next_id + 1
    post = {"id": post_id, "e": [use] + list(host["e"][idx + 1:]), "s": list(host["s"])}
    for key in ("term", "termk", "cond", "noreturn"):
        if key in host:
            post[key] = host[key]
            del host[key]
    # the argument evaluations stay in the host; the call's own callee/argument elements go with it
    call_sub = set(_subtree(fn, call_id))
    host["e"] = [e for e in host["e"][:idx] if e not in call_sub] 
    g_entry, g_exit = gd["cfg"]["entry"], gd["cfg"]["exit"]
    host["s"] = [base + g_entry]
    new_blocks = [post]
    true_s, false_s = post["s"][0], post["s"][1]
    for b in gd["cfg"]["blocks"]:
        nb = {"id": base + b["id"], "e": []}
        for e in b["e"]:
            if e in ret_assign:
                a, lhs = ret_assign[e]
                nb["e"] += [lhs, a]
            elif e in node_map:
                nb["e"].append(node_map[e])
        if b["id"] == g_entry:
            arg_elems = []
            for t_ in temp_elems:
                arg_elems += _postorder(fn, fn[t_]["c"][0]) + [t_]
            nb["e"] = arg_elems + [fvar] + nb["e"]
        rets_here = [e for e in b["e"] if e in ret_assign]
        if b["id"] == g_exit:
            nb["s"] = [post_id]
        elif rets_here:
            val = gn[gn[rets_here[-1]]["c"][0]]
            if val.get("cv") is not None:
                truth = bool(val["cv"]) != bool(flips % 2)
                nb["s"] = [true_s if truth else false_s]
            else:
                nb["s"] = [post_id]
        else:
            nb["s"] = [(base + s if s is not None else None) for s in b["s"]]
        for key in ("term", "cond", "label"):
            if key in b and b[key] in node_map:
                nb[key] = node_map[b[key]]
        if "termk" in b:
            nb["termk"] = b["termk"]
        if b.get("noreturn"):
            nb["noreturn"] = b["noreturn"]
        new_blocks.append(nb)
    out = dict(fd)
    out["nodes"] = fn
    out["cfg"] = {"blocks": fb + new_blocks, "entry": fd["cfg"]["entry"], "exit": fd["cfg"]["exit"]}
    return out


def normalise(program, Function):
    """Fold new single-call statement helpers into their callers.  Returns the list of (helper, caller) folded."""
    done = []
    for _ in range(8):
        cand = None
        for name, lst in program.functions.items():
            if name in KNOWN or len(lst) != 1:
                continue
            g = lst[0]
            if not g.static or not g.file.startswith("src/") or not g.d.get("cfg"):
                continue
            sites = [c for c in program.callers(name)]
            if len(sites) != 1:
                continue
            c = sites[0]
            f = c.fn
            if f is g or f.unit != g.unit or c.parent is None:
                continue
            if not _params_safe(g.d):
                continue
            cand = (g, f, c)
            break
        if cand is None:
            break
        g, f, c = cand
        try:
            nd = inline_one(f.d, g.d, c.id)
            if nd is None:
                KNOWN.add(g.name)       # not foldable: leave it alone from now on
                continue
            F = Function(nd, f.unit, f.files, f.config)
            F.cfg        # make sure the spliced graph is well formed
        except Exception:
            KNOWN.add(g.name)
            continue
        lst = program.functions[f.name]
        lst[lst.index(f)] = F
        del program.functions[g.name]
        program.n_functions -= 1
        if hasattr(program, "_callers"):
            program._callers = None
        done.append((g.name, f.name))
    # a NEW helper that is one `return e;` (what a macro turned into an inline function looks like) is an expression: every call is
    # replaced by e, whatever the number of call sites and whichever unit they are in
    for name in sorted(program.functions):
        lst = program.functions.get(name) or []
        if name in KNOWN or len(lst) != 1:
            continue
        g = lst[0]
        if not g.static or not g.file.startswith("src/") or not g.d.get("cfg") or not _params_safe(g.d):
            continue
        gn = g.d["nodes"]
        body = [c for c in gn[g.d["root"]].get("c", []) if gn[c].get("k") != "NullStmt"]
        if len(body) != 1 or gn[body[0]].get("k") != "ReturnStmt" or not gn[body[0]].get("c"):
            continue
        if any(n.get("k") == "CallExpr" and n.get("callee") == name for n in gn):
            continue
        ok = True
        n_sites = 0
        for _ in range(200):
            sites = [c for c in program.callers(name) if c.fn is not g]
            if not sites:
                break
            c = sites[0]
            f = c.fn

            def fmap(idx, f=f, g=g):
                path = g.files[idx] if 0 <= idx < len(g.files) else None
                if path is None:
                    return idx
                if path in f.files:
                    return f.files.index(path)
                f.files.append(path)
                return len(f.files) - 1
            try:
                nd = inline_one(f.d, g.d, c.id, fmap if f.unit != g.unit else None)
                if nd is None:
                    ok = False
                    break
                F = Function(nd, f.unit, f.files, f.config)
                F.cfg
            except Exception:
                ok = False
                break
            l2 = program.functions[f.name]
            l2[l2.index(f)] = F
            if hasattr(program, "_callers"):
                program._callers = None
            n_sites += 1
        if ok and n_sites and not [c for c in program.callers(name) if c.fn is not g]:
            del program.functions[name]
            program.n_functions -= 1
            done.append((name, "%d call sites" % n_sites))
        else:
            KNOWN.add(name)
    return done
