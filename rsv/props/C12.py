"""C12 — rollbackable allocator API contracts: structural clauses of mm/buddy/multi.c."""
from .. import expr as X
from .. import query as Q
from ..cfg import witness_text

MUTATORS = {"buddy_malloc", "buddy_free", "buddy_init", "rs_free", "memcpy", "memset", "memmove", "__builtin_memcpy", "__builtin_memset",
            "mm_alloc", "mm_free", "mm_realloc", "buddy_dirty_mark"}


def _mutating_elements(f):
    """Elements of f that change allocator state or memory: stores through non-local lvalues (errno excepted) and calls of
    mutating functions."""
    out = []
    for n in f.walk():
        if n.k in ("BinaryOperator", "CompoundAssignOperator") and (n.k == "CompoundAssignOperator" or n.op == "="):
            t = X.strip(n.children[0])
            txt = X.show(t)
            if t.k == "DeclRefExpr" and t.d.get("sc") in ("local", "param"):
                continue
            if "errno" in txt:
                continue
            if t.k == "MemberExpr":
                b, _ = X.member_chain(t)
                if b is not None and b.k == "DeclRefExpr" and b.d.get("sc") == "local" and not b.d.get("tp") and not t.arrow and all(not x.arrow for x in t.walk() if x.k == "MemberExpr"):
                    continue        # field of a local struct
            out.append(n)
        elif n.k == "UnaryOperator" and n.op in ("++", "--"):
            t = X.strip(n.children[0])
            if not (t.k == "DeclRefExpr" and t.d.get("sc") in ("local", "param")):
                out.append(n)
        elif n.k == "CallExpr" and n.callee in MUTATORS:
            out.append(n)
    return out


def run(ck, progs):
    ck.not_decided = ("that returned blocks lie inside allocator memory, are aligned, disjoint from other live blocks and stable — "
                      "arithmetic facts about the buddy tree over operation histories")
    ck.rule("C12.1", "failing allocation paths (return NULL) of rs_malloc / rs_calloc / rs_realloc change no allocator state; zero-size and "
                     "over-size requests take such a path")
    ck.rule("C12.2", "rs_calloc: the size product is overflow-checked before it is used; the zeroed length and the requested size are one "
                     "value; the fill is 0, on the non-NULL edge, at the returned pointer")
    ck.rule("C12.3", "rs_realloc: the common prefix min(requested, original) is copied to the new block before the old one is freed; the old "
                     "block is freed only after a successful allocation")
    ck.rule("C12.4", "rs_free(NULL) returns before touching anything")
    ck.rule("C12.5", "tree index arithmetic, evaluated exhaustively over all nodes of the fixed-size tree: child/parent macros are mutually "
                     "inverse; the block offset formula of buddy_malloc and of the checkpoint walker are the same function, give blocks inside "
                     "the arena aligned to their size, disjoint within a level; the leaf index used by buddy_free / realloc inverts it")
    ck.rule("C12.6", "arena lookup by address: the midpoint of the binary search lies within [low, high] for all bounds (no counterexample in an "
                     "exhaustive small domain and a recognised shape), each branch moves a bound strictly past the midpoint, and new arenas are "
                     "inserted in address order")
    ck.rule("C12.7", "buddy-tree bookkeeping on small order values: every node starts with order total - depth; the search goes right exactly when the left subtree cannot hold the request; freeing sets the parent to order + 1 only when both halves are wholly free, else to the larger; the size reported for a freed block is 1 << its order")
    ck.rule("C12.10", "the field that reports the old block size to rs_realloc is wide enough for the largest block (a whole arena)")
    ck.rule("C12.11", "array_add_at (the arena table) and array_push take no pointer into the element array before the array can be reallocated")
    ck.rule("C12.9", "a new arena is inserted into the LP's arena table at the index equal to the number of arenas with a lower address (the "
                     "table stays sorted, which the binary search of rs_free / rs_realloc relies on): interpreted for 0..5 arenas x every rank")
    ck.rule("C12.8", "the requested size reaches the size-class computation at full width: no narrowing conversion is applied to the size itself (requests of 4 GiB and more must fail, not be served as their low 32 bits)")
    for cfg, P in progs.items():
        from .. import rules_buddy
        rules_buddy.check(ck, P, "C12.7")
        rules_buddy.check_no_narrowing(ck, P, "C12.8")
        rules_buddy.check_arena_insert(ck, P, "C12.9")
        rules_buddy.check_result_field_width(ck, P, "C12.10")
        from .. import rules_array
        rules_array.check_cached_items(ck, P, "C12.11", only=("array_add_at", "array_push"))
        _find_by_address(ck, P, cfg)
        _index_arithmetic(ck, P, cfg)
        _clean_failure(ck, P, cfg)
        _calloc(ck, P, cfg)
        _realloc(ck, P, cfg)
        _free_null(ck, P, cfg)


def _clean_failure(ck, P, cfg):
    n_null = 0
    for fname in ("rs_malloc", "rs_calloc", "rs_realloc"):
        f = P.fn(fname)
        g = f.cfg
        muts = _mutating_elements(f)
        for rt in [n for n in f.walk() if n.k == "ReturnStmt"]:
            if not X.is_null(rt.children[0]):
                continue
            n_null += 1
            inst = "clean-failure@%s:L%d" % (fname, 0)
            dirty = [m for m in muts if g.position(m) is not None and rt.id in g.reachable_from(g.position(m))]
            inst = "clean-failure@%s:%s" % (fname, _why(f, rt))
            if dirty:
                ck.violated("C12.1", inst, rt.where, "this failing path has already executed `%s` (%s): a failed request changes the allocator / checkpoint account" % (X.show(dirty[0])[:70], dirty[0].where), cfg)
            else:
                ck.holds("C12.1", inst, rt.where, "no store or mutating call can precede this return NULL", cfg)
    ck.expect("C12.1", n_null, 4, "return NULL statements in rs_malloc/rs_calloc/rs_realloc")
    # zero-size and over-size requests fail
    f = P.fn("rs_malloc")
    size = f.params[0]["name"]
    rets = [n for n in f.walk() if n.k == "ReturnStmt" and X.is_null(n.children[0])]
    zero = over = False
    for rt in rets:
        paths, _ = Q.path_conditions(f, rt)
        for conds in paths:
            for core, t in conds:
                c = X.strip(core)
                if c.k == "DeclRefExpr" and c.name == size and t is False:
                    zero = True
                if c.k == "BinaryOperator" and c.op in (">", ">=") and t is True and X.const_int(c.children[1]) is not None:
                    over = (c, X.const_int(c.children[1]))
    if zero:
        ck.holds("C12.1", "zero-size@rs_malloc", f.where, "size 0 returns NULL before anything else", cfg)
    else:
        ck.violated("C12.1", "zero-size@rs_malloc", f.where, "a zero-size request does not take a failing path", cfg)
    total = None
    for fl in P.record("buddy_state")["fields"]:
        if fl["name"] == "base_mem":
            total = fl["size"]
    if over and total:
        c, k = over
        lim = (1 << k) if c.op == ">" else (1 << (k - 1))
        if lim == total:
            ck.holds("C12.1", "over-size@rs_malloc", c.where, "block order %s %d fails: requests above the arena size %d are refused" % (c.op, k, total), cfg)
        elif lim > total:
            ck.violated("C12.1", "over-size@rs_malloc", c.where, "orders up to %d are accepted but an arena holds %d bytes: the descent in buddy_malloc runs past the tree" % (k if c.op == ">" else k - 1, total), cfg)
        else:
            ck.violated("C12.1", "over-size@rs_malloc", c.where, "requests of an order an arena can hold are refused (limit %d, arena %d)" % (lim, total), cfg)
    else:
        ck.violated("C12.1", "over-size@rs_malloc", f.where, "no failing path for requests larger than an arena", cfg)


def _why(f, rt):
    paths, _ = Q.path_conditions(f, rt)
    if paths and paths[0]:
        core, t = paths[0][-1]
        return ("%s=%s" % (X.show(core), t))[:40]
    return "L%d" % rt.line


def _calloc(ck, P, cfg):
    f = P.fn("rs_calloc")
    n, s = f.params[0]["name"], f.params[1]["name"]
    prods = [x for x in f.walk() if x.k == "BinaryOperator" and x.op == "*" and {X.show(x.children[0]), X.show(x.children[1])} == {n, s}]
    if len(prods) != 1:
        ck.inconclusive("C12.2", "product@rs_calloc", f.where, "size product not recognised", cfg)
        return
    pr = prods[0]
    kind, tot = Q.result_var(pr)
    # overflow guard: in every model of the conditions on every path to the product, either the divisor is zero
    # (product is 0) or the quotient test `x > MAX / y` is false (product fits)
    paths, _ = Q.path_conditions(f, pr)
    guarded = bool(paths)
    for conds in paths:
        models, atoms = Q.path_models(conds)
        if models is None:
            guarded = False
            break
        quot = None
        for name, node in atoms:
            c = X.strip(node)
            if c.k == "BinaryOperator" and c.op in (">", ">=", "<", "<="):
                for side, other in ((c.children[1], c.children[0]), (c.children[0], c.children[1])):
                    d = X.strip(side)
                    if d.k == "BinaryOperator" and d.op == "/" and X.show(d.children[1]) in (n, s) and X.show(other) in (n, s) and X.show(other) != X.show(d.children[1]):
                        big = X.const_int(d.children[0])
                        if big is not None and big >= (1 << 64) - 1 or "MAX" in X.show(d.children[0]) or (d.children[0].d.get("cvs") is not None):
                            # x > MAX / y   (overflow iff true)   or   MAX / y < x
                            over_when = (c.op in (">", ">=")) == (side is c.children[1])
                            quot = (name, X.show(d.children[1]), over_when, c.op)
            if c.k == "CallExpr" and c.callee and "mul_overflow" in c.callee:
                quot = (name, None, True, "builtin")
        if quot is None:
            guarded = False
            break
        qname, divisor, over_when, _op = quot
        for m in models:
            overflow_possible = (m[qname] == over_when)
            divisor_zero = divisor is not None and divisor in m and m[divisor] is False
            if overflow_possible and not divisor_zero:
                guarded = False
    if guarded:
        ck.holds("C12.2", "overflow-check@rs_calloc", pr.where, "%s * %s is computed only after a division-based overflow test failed to fire" % (n, s), cfg)
    else:
        ck.violated("C12.2", "overflow-check@rs_calloc", pr.where, "%s * %s can wrap around: the caller gets a block smaller than it asked for and writes past it" % (n, s), cfg)
    ms = [c for c in f.calls() if c.callee in ("memset", "__builtin_memset", "__builtin___memset_chk")]
    al = list(f.calls("rs_malloc"))
    if len(ms) != 1 or len(al) != 1:
        ck.violated("C12.2", "zero-fill@rs_calloc", f.where, "rs_calloc must allocate once and zero once (found %d / %d)" % (len(al), len(ms)), cfg)
        return
    m, a = ms[0], al[0]
    args = X.callee_args(m)
    k2, ret = Q.result_var(a)
    ok = True
    if X.show(args[2]) != X.show(X.callee_args(a)[0]):
        ck.violated("C12.2", "zero-fill:length", m.where, "zeroes %s bytes but requested %s" % (X.show(args[2]), X.show(X.callee_args(a)[0])), cfg)
        ok = False
    if X.const_int(args[1]) != 0:
        ck.violated("C12.2", "zero-fill:value", m.where, "fills with %s, not 0" % X.show(args[1]), cfg)
        ok = False
    if k2 != "var" or X.show(args[0]) != ret.name:
        ck.violated("C12.2", "zero-fill:target", m.where, "zeroes %s, not the block just allocated" % X.show(args[0]), cfg)
        ok = False
    else:
        paths, _ = Q.path_conditions(f, m, start_block=f.cfg.position(a)[0])
        if not all(any(X.strip(core).k == "DeclRefExpr" and X.strip(core).did == ret.did and t is True for core, t in conds) for conds in paths):
            ck.violated("C12.2", "zero-fill:null-edge", m.where, "memset is reachable with a NULL result", cfg)
            ok = False
    rts = [x for x in f.walk() if x.k == "ReturnStmt" and not X.is_null(x.children[0])]
    if ok and all(k2 == "var" and X.show(r.children[0]) == ret.name for r in rts):
        ck.holds("C12.2", "zero-fill@rs_calloc", m.where, "ret = rs_malloc(%s); if(ret) memset(ret, 0, %s); return ret" % (X.show(args[2]), X.show(args[2])), cfg)


def _realloc(ck, P, cfg):
    f = P.fn("rs_realloc")
    old, req = f.params[0]["name"], f.params[1]["name"]
    g = f.cfg
    cp = [c for c in f.calls() if c.callee in ("memcpy", "__builtin_memcpy", "__builtin___memcpy_chk", "memmove")]
    fr = [c for c in f.calls("rs_free")]
    al = [c for c in f.calls("rs_malloc")]
    inst = "copy-then-free@rs_realloc"
    if len(fr) != 1:
        ck.inconclusive("C12.3", inst, f.where, "expected one rs_free in the moving path", cfg)
        return
    if not cp:
        ck.violated("C12.3", inst, fr[0].where, "the moving reallocation does not copy the content of the old block", cfg)
        return
    c0 = cp[0]
    args = X.callee_args(c0)
    ok = True
    if X.show(args[1]) != old or not g.dominates(c0, fr[0]):
        ck.violated("C12.3", inst, c0.where, "the old block must be copied from (%s) before it is freed: after rs_free the space may already be reused / coalesced" % X.show(args[1]), cfg)
        ok = False
    ln = X.strip(args[2])
    mins = X.expansions(args[2], "min")
    txt = X.show(ln)
    from ..rules_buddy import min_operands
    ops = min_operands(f, args[2])
    has_req = any(x.k == "DeclRefExpr" and x.name == req for o in ops for x in o.walk())
    has_orig = any(x.k == "MemberExpr" and x.name == "original" for o in ops for x in o.walk())
    if len(ops) == 2 and has_req and has_orig:
        pass
    elif has_req and not has_orig:
        ck.violated("C12.3", inst + ":length", c0.where, "copies %s bytes: when the block grows this reads past the end of the old block" % req, cfg)
        ok = False
    elif has_orig and not has_req:
        ck.violated("C12.3", inst + ":length", c0.where, "copies the old block's full size: when the block shrinks this writes past the end of the new block", cfg)
        ok = False
    else:
        ck.inconclusive("C12.3", inst + ":length", c0.where, "copy length %s not recognised" % txt[:60], cfg)
        ok = False
    # destination is the fresh block, which is non-NULL there
    k2, nb = Q.result_var(al[-1]) if al else (None, None)
    if k2 == "var":
        if X.show(args[0]) != nb.name:
            ck.violated("C12.3", inst + ":dest", c0.where, "copies into %s, not into the new block" % X.show(args[0]), cfg)
            ok = False
        # free(old) only after success
        paths, _ = Q.path_conditions(f, fr[0], start_block=g.position(al[-1])[0])
        for conds in paths:
            okp = False
            for core, t in conds:
                c = X.strip(core)
                if c.k == "BinaryOperator" and c.op in ("==", "!=") and X.strip(c.children[0]).k == "DeclRefExpr" and X.strip(c.children[0]).did == nb.did and X.is_null(c.children[1]):
                    okp = (c.op == "!=") == t
                if c.k == "DeclRefExpr" and c.did == nb.did:
                    okp = t
            if not okp:
                ck.violated("C12.3", inst + ":free-on-failure", fr[0].where, "the old block is freed although the new allocation may have failed: realloc must leave it untouched then", cfg)
                ok = False
                break
    if ok:
        ck.holds("C12.3", inst, c0.where, "memcpy(new, %s, min(%s, original)) dominates rs_free(%s), reached only when the new block is non-NULL" % (old, req, old), cfg)
    # realloc(NULL, n) == malloc(n); realloc(p, 0) == NULL without freeing
    rts = [r for r in f.walk() if r.k == "ReturnStmt"]
    dele = [r for r in rts if X.strip(r.children[0]).k == "CallExpr" and X.strip(r.children[0]).callee == "rs_malloc"]
    if dele:
        paths, _ = Q.path_conditions(f, dele[0])
        if all(any(X.strip(core).k == "DeclRefExpr" and X.strip(core).name == old and t is False for core, t in conds) for conds in paths):
            ck.holds("C12.3", "null-pointer@rs_realloc", dele[0].where, "rs_realloc(NULL, n) = rs_malloc(n)", cfg)


def _free_null(ck, P, cfg):
    f = P.fn("rs_free")
    p = f.params[0]["name"]
    g = f.cfg
    work = [n for n in f.walk() if (n.k == "CallExpr" and n.callee != "__builtin_expect") or (n.k in ("BinaryOperator", "CompoundAssignOperator") and (n.k == "CompoundAssignOperator" or n.op == "="))
            or (n.k == "MemberExpr" and n.arrow)]
    bad = None
    for n in work:
        if g.position(n) is None:
            continue
        paths, _ = Q.path_conditions(f, n)
        for conds in paths:
            if not any(X.strip(core).k == "DeclRefExpr" and X.strip(core).name == p and t is True for core, t in conds):
                bad = n
    if bad is not None:
        ck.violated("C12.4", "free-null@rs_free", bad.where, "`%s` is reachable with a NULL argument: free(NULL) must be a no-op" % X.show(bad)[:60], cfg)
    else:
        ck.holds("C12.4", "free-null@rs_free", f.where, "all %d operations are reachable only with a non-NULL pointer" % len(work), cfg)
    ck.expect("C12.4", len(work), 3, "operations in rs_free")


def _index_arithmetic(ck, P, cfg):
    from .. import ceval
    bm = P.fn("buddy_malloc")
    bf = P.fn("buddy_free")
    tk = P.fn("checkpoint_full_take")
    total = None
    for fl in P.record("buddy_state")["fields"]:
        if fl["name"] == "base_mem":
            total = fl["size"]
        if fl["name"] == "longest":
            nodes = fl["size"]
    T = total.bit_length() - 1
    n_leaves = nodes // 2
    B = T - (n_leaves.bit_length() - 1)

    def expansion(f, macro):
        tops = X.expansions(f.root, macro)
        return tops[0] if tops else None

    def argname(top, macro):
        from ..rules_part import macro_args
        for a in macro_args(top, macro):
            for x in a.walk():
                if x.k == "DeclRefExpr" and x.d.get("dk") == "var":
                    return x.name
        return None
    L, R_, Pm = expansion(bm, "buddy_left_child"), expansion(bm, "buddy_right_child"), expansion(bm, "buddy_parent")
    inst = "child-parent"
    if not (L and R_ and Pm):
        ck.inconclusive("C12.5", inst, bm.where, "child/parent macros not found in buddy_malloc", cfg)
    else:
        la, ra, pa = argname(L, "buddy_left_child"), argname(R_, "buddy_right_child"), argname(Pm, "buddy_parent")
        bad = None
        for i in range(0, nodes - 1):
            l = ceval.ev(L, {la: i})
            r = ceval.ev(R_, {ra: i})
            if l is None or r is None:
                bad = "cannot evaluate"
                break
            if i < n_leaves - 1:
                if ceval.ev(Pm, {pa: l}) != i or ceval.ev(Pm, {pa: r}) != i or r != l + 1 or l != 2 * i + 1:
                    bad = "node %d: left %s right %s parent(left) %s parent(right) %s" % (i, l, r, ceval.ev(Pm, {pa: l}), ceval.ev(Pm, {pa: r}))
                    break
        if bad is None:
            ck.holds("C12.5", inst, L.where, "left(i) = 2i+1, right(i) = 2i+2, parent(left(i)) = parent(right(i)) = i for all %d inner nodes" % (n_leaves - 1), cfg)
        elif bad == "cannot evaluate":
            ck.inconclusive("C12.5", inst, L.where, bad, cfg)
        else:
            ck.violated("C12.5", inst, L.where, "the implicit tree is inconsistent: " + bad, cfg)
    # offset formulas
    def offset_expr(f, names):
        for v in f.walk():
            if v.k == "VarDecl" and v.name in names and v.children:
                # the variable must have this single definition, else the formula below is not the whole story
                for n in f.walk():
                    if n.k in ("BinaryOperator", "CompoundAssignOperator", "UnaryOperator") and n.children and X.strip(n.children[0]).k == "DeclRefExpr" and \
                            X.strip(n.children[0]).did == v.did and (n.k == "CompoundAssignOperator" or n.d.get("op") in ("=", "++", "--")):
                        return None
                return v.children[0]
        return None
    om = offset_expr(bm, ("offset",))
    ov = offset_expr(tk, ("__o",))
    inst = "block-offset"
    if om is None or ov is None:
        ck.inconclusive("C12.5", inst, bm.where, "offset expressions not found", cfg)
    else:
        vm = sorted({x.name for x in om.walk() if x.k == "DeclRefExpr" and x.d.get("dk") == "var"})
        vv = sorted({x.name for x in ov.walk() if x.k == "DeclRefExpr" and x.d.get("dk") == "var"})
        if len(vm) != 2 or len(vv) != 2:
            ck.inconclusive("C12.5", inst, om.where, "offset expressions are not functions of (node index, level): %s / %s" % (vm, vv), cfg)
        else:
            # identify which variable is the index (the one incremented by 1 inside) by evaluating at the root
            def ev2(e, names, i, l):
                for a, b in ((names[0], names[1]), (names[1], names[0])):
                    v = ceval.ev(e, {a: i, b: l})
                    if v is not None and i == 0 and l == T and v == 0:
                        return (a, b)
                return None
            nm, nv = ev2(om, vm, 0, T), ev2(ov, vv, 0, T)
            bad = None
            if nm is None or nv is None:
                bad = "the root block does not start at offset 0"
            else:
                seen = {}
                for i in range(nodes - 1):
                    lvl = T - ((i + 1).bit_length() - 1)
                    a = ceval.ev(om, {nm[0]: i, nm[1]: lvl})
                    b = ceval.ev(ov, {nv[0]: i, nv[1]: lvl})
                    if a is None or b is None:
                        bad = "cannot evaluate"
                        break
                    size = 1 << lvl
                    if a != b:
                        bad = "node %d (level %d): the allocator places it at offset %d, the checkpoint walker copies from %d" % (i, lvl, a, b)
                        break
                    if a < 0 or a + size > total or a % size:
                        bad = "node %d (level %d, %d bytes): offset %d is outside the arena or not aligned to the block size" % (i, lvl, size, a)
                        break
                    if (lvl, a) in seen:
                        bad = "nodes %d and %d of level %d share offset %d" % (seen[(lvl, a)], i, lvl, a)
                        break
                    seen[(lvl, a)] = i
            if bad is None:
                ck.holds("C12.5", inst, om.where, "for all %d nodes the allocator's and the checkpoint walker's offset agree, lie inside the %d-byte arena, are aligned to the block size and distinct within a level" % (nodes - 1, total), cfg)
            elif bad == "cannot evaluate":
                ck.inconclusive("C12.5", inst, om.where, bad, cfg)
            else:
                ck.violated("C12.5", inst, om.where, bad, cfg)
            # leaf index of buddy_free / best_effort_realloc inverts the offset at leaf level
            for fn in (bf, P.fn("buddy_best_effort_realloc")):
                iv = None
                for v in fn.walk():
                    if v.k == "VarDecl" and v.name == "i" and v.children:
                        iv = v
                inst2 = "leaf-index@%s" % fn.name
                if iv is None or nm is None:
                    ck.inconclusive("C12.5", inst2, fn.where, "leaf index expression not found", cfg)
                    continue
                ovars = sorted({x.name for x in iv.children[0].walk() if x.k == "DeclRefExpr" and x.d.get("dk") == "var"})
                if len(ovars) != 1:
                    ck.inconclusive("C12.5", inst2, iv.where, "leaf index is not a function of the block number alone", cfg)
                    continue
                bad2 = None
                for o in range(n_leaves):
                    i = ceval.ev(iv.children[0], {ovars[0]: o})
                    if i is None:
                        bad2 = "cannot evaluate"
                        break
                    off = ceval.ev(om, {nm[0]: i, nm[1]: B})
                    if off != o << B or not (n_leaves - 1 <= i < nodes - 1):
                        bad2 = "block %d maps to node %s, whose offset is %s, not %d" % (o, i, off, o << B)
                        break
                # the block number is (ptr - base) >> B
                ov_ = None
                for v in fn.walk():
                    if v.k == "VarDecl" and v.name == ovars[0] and v.children:
                        ov_ = X.strip(v.children[0])
                shift_ok = ov_ is not None and ov_.k == "BinaryOperator" and ov_.op == ">>" and X.const_int(ov_.children[1]) == B and "base_mem" in X.show(ov_.children[0])
                if bad2 is None and shift_ok:
                    ck.holds("C12.5", inst2, iv.where, "leaf(o) inverts the offset formula for all %d minimum blocks; o = (ptr - base_mem) >> %d" % (n_leaves, B), cfg)
                elif bad2 == "cannot evaluate" or (bad2 is None and not shift_ok):
                    ck.inconclusive("C12.5", inst2, iv.where, bad2 or "block number expression not recognised", cfg)
                else:
                    ck.violated("C12.5", inst2, iv.where, "the node found for a pointer is not the one the pointer was allocated from: " + bad2, cfg)
    # buddy_malloc returns base_mem + offset
    rets = [r for r in bm.walk() if r.k == "ReturnStmt" and not X.is_null(r.children[0])]
    if rets and "base_mem" in X.show(rets[-1].children[0]) and "offset" in X.show(rets[-1].children[0]):
        ck.holds("C12.5", "return@buddy_malloc", rets[-1].where, "returns base_mem + offset", cfg)
    else:
        ck.violated("C12.5", "return@buddy_malloc", bm.where, "buddy_malloc does not return base_mem + the computed offset", cfg)


def _find_by_address(ck, P, cfg):
    from .. import ceval
    f = P.fn("buddy_find_by_address")
    mids = [v for v in f.walk() if v.k == "VarDecl" and v.children and v.d.get("ti") and
            len({x.name for x in v.children[0].walk() if x.k == "DeclRefExpr" and x.d.get("sc") == "local"}) == 2]
    inst = "binary-search@buddy_find_by_address"
    if len(mids) != 1:
        ck.inconclusive("C12.6", inst, f.where, "midpoint not recognised", cfg)
        return
    m = mids[0]
    lo_hi = sorted({x.name for x in m.children[0].walk() if x.k == "DeclRefExpr" and x.d.get("sc") == "local"})
    # which is low / high: low is initialised with 0
    low = high = None
    for v in f.walk():
        if v.k == "VarDecl" and v.name in lo_hi and v.children:
            if X.is_zero(v.children[0]):
                low = v.name
            else:
                high = v.name
    if low is None or high is None:
        ck.inconclusive("C12.6", inst, m.where, "search bounds not recognised", cfg)
        return
    bad = None
    for l in range(0, 9):
        for h in range(l, 9):
            v = ceval.ev(m.children[0], {low: l, high: h})
            if v is None:
                bad = "cannot evaluate"
                break
            if not (l <= v <= h):
                bad = "for %s = %d, %s = %d the midpoint `%s` is %d, outside the range being searched: an arena beyond the array is read" % (low, l, high, h, X.show(m.children[0]), v)
                break
        if bad:
            break
    shape = X.show(m.children[0]) in ("((%s + %s) / 2)" % (low, high), "((%s + %s) / 2)" % (high, low), "(%s + ((%s - %s) / 2))" % (low, high, low), "((%s + %s) >> 1)" % (low, high))
    if bad and bad != "cannot evaluate":
        ck.violated("C12.6", inst, m.where, bad, cfg)
    elif bad or not shape:
        ck.inconclusive("C12.6", inst, m.where, "midpoint `%s` not of a recognised shape" % X.show(m.children[0]), cfg)
    else:
        ck.holds("C12.6", inst, m.where, "%s = %s lies in [%s, %s]" % (m.name, X.show(m.children[0]), low, high), cfg)
    # progress: h = m - 1 on the '<' branch, l = m + 1 on the '>' branch
    upd = {}
    for n in f.walk():
        if n.k == "BinaryOperator" and n.op == "=" and X.show(n.children[0]) in (low, high):
            upd[X.show(n.children[0])] = X.show(n.children[1])
    want = {high: "(%s - 1)" % m.name, low: "(%s + 1)" % m.name}
    if upd == want:
        ck.holds("C12.6", "progress@buddy_find_by_address", m.where, "%s = %s - 1 / %s = %s + 1" % (high, m.name, low, m.name), cfg)
    elif set(upd) == {low, high} and (upd[low] == m.name or upd[high] == m.name):
        ck.violated("C12.6", "progress@buddy_find_by_address", m.where, "a bound is set to the midpoint itself (%s): with two arenas left the search never ends" % upd, cfg)
    else:
        ck.inconclusive("C12.6", "progress@buddy_find_by_address", m.where, "bound updates %s not recognised" % upd, cfg)
    # comparisons: below the arena start -> left; above its end -> right
    conds = [n for n in f.walk() if n.k == "BinaryOperator" and n.op in ("<", ">", "<=", ">=") and "ptr" in X.show(n.children[0])]
    dirs = {}
    for c in conds:
        # which bound is updated under this condition
        for n in f.walk():
            if n.k == "BinaryOperator" and n.op == "=" and X.show(n.children[0]) in (low, high):
                for core, B in Q.control_dependences(f, n):
                    if core is X.strip(c) or core.id == X.strip(c).id:
                        pass
    # insertion keeps the arenas sorted by address
    rm = P.fn("rs_malloc")
    adds = [s_ for s_ in rm.walk() if s_.k == "StmtExpr" and s_.macros and s_.macros[0] == "array_add_at"]
    brk = [n for n in rm.walk() if n.k == "BinaryOperator" and n.op in (">", ">=") and "buddies" in X.show(n.children[0]) and "new_buddy" in X.show(n.children[1])]
    if len(adds) == 1 and brk:
        ck.holds("C12.6", "sorted-insert@rs_malloc", adds[0].where, "a new arena is inserted before the first arena with a higher address", cfg)
    elif len(adds) == 1:
        ck.violated("C12.6", "sorted-insert@rs_malloc", adds[0].where, "new arenas are not inserted in address order, which the lookup by binary search relies on", cfg)
