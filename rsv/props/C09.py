"""C09 — configuration independence and RNG replay: the structural clauses (seeding purity, perf-only use of
non-deterministic inputs)."""
from .. import expr as X
from .. import query as Q
from .. import rules_rollback, rules_part, rules_num
from .C11 import Renamed

TIME_SOURCES = {"timer_new", "timer_value", "timer_hr_new", "timer_hr_value", "__rdtsc", "__builtin_ia32_rdtsc", "stats_retrieve", "mem_stat_rss_current_get",
                "mem_stat_rss_max_get", "clock_gettime", "gettimeofday", "time", "clock"}
PLACEMENT = {"rid", "nid", "n_nodes", "lid_node_first", "lid_thread_first", "lid_thread_end", "n_lps_node"}
# state that legitimately depends on wall-clock time / measured costs: it may only steer performance decisions
PERF_STATE_FIELDS = {("auto_ckpt", "inv_bad_p"), ("auto_ckpt", "m_bad"), ("auto_ckpt", "m_good"), ("auto_ckpt", "ckpt_interval"), ("auto_ckpt", "ckpt_rem")}
PERF_STATE_READERS = {"auto_ckpt_lp_init", "auto_ckpt_recompute", "auto_ckpt_on_gvt", "auto_ckpt_init", "process_msg", "handle_anti_msg", "handle_straggler_msg"}
PERF_GLOBALS = {"gvt_timer": {"gvt_global_init", "gvt_phase_run", "gvt_msg_drain"}, "ackpt": {"auto_ckpt_init", "auto_ckpt_on_gvt", "auto_ckpt_recompute"},
                "sim_start_ts": None, "sim_start_ts_hr": None, "stats_glob_cur": None, "stats_cur": None}
SINK_CALLS = {"stats_take", "timer_value", "timer_hr_value", "logger", "vlogger", "printf", "fprintf", "file_write_chunk", "log_log", "_log_log", "memset",
              "__builtin_memset", "__builtin___memset_chk", "mpi_blocking_data_send"}
PERF_FUNCTIONS = {"auto_ckpt_on_gvt", "auto_ckpt_recompute", "stats_on_gvt", "stats_dump", "stats_files_send", "stats_file_final_write", "stats_global_time_take"}


def run(ck, progs):
    ck.not_decided = ("equality of committed outcomes across (threads, ranks, checkpoint interval, GVT period, binding) configurations and across "
                      "repetitions — a behavioural fact over pairs of runs")
    ck.rule("C09.1", "seeding purity: the initial generator state of an LP is computed only from the LP identifier it is given, the configured "
                     "seed and a constant key; callers pass the global LP identifier; the mixing function writes only its argument")
    ck.rule("C09.2", "the generator state is allocated by the rollbackable allocator and reached through current_lp only (C05.2)")
    ck.rule("C09.3", "wall-clock and measured-cost values reach only performance sinks: every use of a timer / statistics reading is a "
                     "statistics update, another timer call, a log, or an assignment to / comparison with the designated performance state; that "
                     "state (auto-checkpoint fields, GVT timer) is read only by the functions that take checkpoint / GVT-initiation decisions")
    ck.rule("C09.4", "LP placement is computed by the monotone routing macros and partition_start (C14.1, C14.2)")
    ck.rule("C09.5", "no generator-related state outside the LP's rollbackable context: the numerical library keeps no static, thread-local or file-scope "
                     "mutable variable (a cached variate would neither be rolled back nor be independent of which LPs share the thread): C18.5")
    for cfg, P in progs.items():
        _seeding(ck, P, cfg)
        rules_num.check_generator_isolation(Renamed(ck, {"C18.5": "C09.5"}), P, "C18.5")
        rules_rollback.check_rng_rollbackable(ck, P, "C09.2")
        _perf_only(ck, P, cfg)
        rules_part.check_monotone_routing(ck, P, "C09.4")
        rules_part.check_bounds_from_routing(ck, P, "C09.4")


def _seeding(ck, P, cfg):
    f = P.fn("random_lib_lp_init")
    idp, ctxp = f.params[0]["name"], f.params[1]["name"]
    allowed_locals = set()
    bad = None
    for v in f.walk():
        if v.k == "VarDecl" and v.children:
            src = X.show(v.children[0])
            if src == "global_config.prng_seed":
                allowed_locals.add(v.name)
    n_st = 0
    for n in f.walk():
        if n.k == "BinaryOperator" and n.op == "=" and "state" in X.show(n.children[0]):
            n_st += 1
            for x in n.children[1].walk():
                if x.k == "DeclRefExpr" and x.d.get("dk") == "var":
                    if x.name == idp or x.name in allowed_locals:
                        continue
                    bad = (n, "depends on `%s`" % x.name)
                if x.k == "MemberExpr" and X.show(x) != "global_config.prng_seed" and x.name != "":
                    bad = (n, "depends on %s" % X.show(x))
                if x.k == "CallExpr":
                    bad = (n, "depends on the result of %s()" % (x.callee or "an indirect call"))
                if x.k in ("CStyleCastExpr",) and x.d.get("ti") and x.children and x.children[0].d.get("tp"):
                    bad = (n, "depends on an address")
    calls = [c for c in f.calls() if c.callee and not c.d.get("builtin")]
    for c in calls:
        if c.callee != "xxtea_encode":
            bad = (c, "calls %s()" % c.callee)
        else:
            args = X.callee_args(c)
            key = X.strip(args[2])
            kg = P.globals.get(key.name, [{}])[0] if key.k == "DeclRefExpr" else {}
            if not (kg.get("elem_const") or kg.get("tc")):
                bad = (c, "mixes with a key that is not a constant table")
    if bad:
        ck.violated("C09.1", "seed-sources@random_lib_lp_init", bad[0].where, "the initial generator state %s: the stream of an LP would change with its placement / the run" % bad[1], cfg)
    elif n_st >= 4:
        ck.holds("C09.1", "seed-sources@random_lib_lp_init", f.where, "state words are (%s, seed) pairs mixed with a constant key" % idp, cfg)
    else:
        ck.inconclusive("C09.1", "seed-sources@random_lib_lp_init", f.where, "seeding shape not recognised", cfg)
    # the mixing function writes only through its first parameter and its locals, reads no global
    xf = P.fn("xxtea_encode")
    badx = None
    for n in xf.walk():
        if n.k == "DeclRefExpr" and n.d.get("dk") == "var" and n.d.get("sc") not in ("local", "param"):
            badx = (n, "reads or writes the global `%s`" % n.name)
        if n.k == "CallExpr" and n.callee and not n.d.get("builtin") and n.callee not in ("__assert_fail", "abort"):
            hf = P.fn_opt(n.callee)
            pure = hf is not None and hf.file == xf.file and not any(
                (x.k == "DeclRefExpr" and x.d.get("dk") == "var" and x.d.get("sc") not in ("local", "param")) or (x.k == "CallExpr" and x.callee and not x.d.get("builtin"))
                for x in hf.walk())
            if not pure:
                badx = (n, "calls %s()" % n.callee)
    if badx:
        ck.violated("C09.1", "mixing@xxtea_encode", badx[0].where, "the seeding mix %s" % badx[1], cfg)
    else:
        ck.holds("C09.1", "mixing@xxtea_encode", xf.where, "a pure function of its arguments", cfg)
    # callers pass the global LP index
    n = 0
    for c in P.callers("random_lib_lp_init"):
        g = c.fn
        if not g.file.startswith("src/"):
            continue
        n += 1
        a = X.strip(X.callee_args(c)[0])
        inst = "seed-id@%s" % g.name
        lp = c
        while lp is not None and lp.k != "ForStmt":
            lp = lp.parent
        ok = False
        if lp is not None and a.k == "DeclRefExpr":
            iv = [x for x in lp.children[0].walk() if x.k == "VarDecl" and x.name == a.name]
            cond = X.strip(lp.children[2])
            if iv and iv[0].children and cond.k == "BinaryOperator" and cond.op == "<":
                def _res(n_):
                    n_ = X.strip(n_)
                    r_ = Q.resolve_local(g, n_) if n_ is not None and n_.k == "DeclRefExpr" and n_.d.get("sc") == "local" else n_
                    return X.show(r_) if r_ is not None else "?"
                lo, hi = _res(iv[0].children[0]), _res(cond.children[1])
                if (lo, hi) in (("lid_thread_first", "lid_thread_end"), ("0", "global_config.lps")):
                    ok = True
                    # and the context initialised is that LP's: lps[i]
                    ctx = X.show(X.callee_args(c)[1])
                    lpv = [v for v in lp.walk() if v.k == "VarDecl" and v.children and X.show(v.children[0]) == "&lps[%s]" % a.name]
                    if not lpv or not ctx.startswith(lpv[0].name + "->"):
                        ok = False
        if ok:
            ck.holds("C09.1", inst, c.where, "seeded with the global LP identifier `%s`, into that LP's own context" % a.name, cfg)
        else:
            ck.violated("C09.1", inst, c.where, "the generator is seeded with %s, which is not the global identifier of the LP being initialised" % X.show(a), cfg)
    ck.expect("C09.1", n, 2, "call sites of random_lib_lp_init")


def _value_uses(f, node):
    """Where does the value of `node` go: list of (kind, detail node).  Follows one level of local variables."""
    out = []
    cur, p = node, node.parent
    while p is not None and p.k in ("ParenExpr", "ImplicitCastExpr", "CStyleCastExpr"):
        cur, p = p, p.parent
    if p is None:
        return out
    if p.k == "VarDecl":
        for u in f.walk():
            if u.k == "DeclRefExpr" and u.did == p.did and not X.is_write_target(u):
                out.extend(_value_uses(f, u))
        return out
    if p.k == "BinaryOperator" and p.op == "=" and p.children[1] is cur:
        out.append(("store", p))
        t = X.strip(p.children[0])
        if t.k == "DeclRefExpr" and t.d.get("sc") == "local":
            out.pop()
            for u in f.walk():
                if u.k == "DeclRefExpr" and u.did == t.did and not X.is_write_target(u):
                    out.extend(_value_uses(f, u))
        return out
    if p.k == "CompoundAssignOperator":
        out.append(("store", p))
        return out
    if p.k == "CallExpr":
        if p.callee == "__builtin_expect":
            return _value_uses(f, p)
        out.append(("arg", p))
        return out
    if p.k == "UnaryExprOrTypeTraitExpr":
        return out                     # unevaluated operand
    if p.k == "UnaryOperator" and p.op == "&":
        return _value_uses(f, p)       # address of a local aggregate holding the value: follow it into the call
    if p.k == "UnaryOperator" and p.op == "!":
        return _value_uses(f, p)
    if p.k in ("IfStmt", "WhileStmt", "DoStmt", "ForStmt"):
        out.append(("branch", p))
        return out
    if p.k in ("BinaryOperator", "UnaryOperator", "ConditionalOperator"):
        if p.k == "BinaryOperator" and p.op in ("<", "<=", ">", ">=", "==", "!="):
            out.append(("compare", p))
            return out
        return _value_uses(f, p)
    if p.k == "ReturnStmt":
        out.append(("return", p))
        return out
    if p.k == "InitListExpr":
        return _value_uses(f, p)
    if p.k in ("CompoundStmt", "StmtExpr"):
        return out
    out.append(("other", p))
    return out


def _perf_only(ck, P, cfg):
    n_src = 0
    wrappers = {"timer_new", "timer_value", "timer_hr_new", "timer_hr_value", "stats_retrieve", "mem_stat_rss_current_get", "mem_stat_rss_max_get", "mem_stat_setup"}
    for f in P.all_functions():
        if not f.file.startswith("src/") or f.name in wrappers or f.file.endswith(("arch/timer.h", "arch/mem.c", "arch/io.c")):
            continue
        for c in f.calls():
            if c.callee not in TIME_SOURCES:
                continue
            n_src += 1
            inst = "time-use@%s:%s" % (f.name, c.callee)
            bad = None
            for kind, node in _value_uses(f, c):
                if kind == "arg":
                    if node.callee in SINK_CALLS or node.callee in TIME_SOURCES:
                        continue
                    bad = (node, "is passed to %s()" % (node.callee or "an indirect call"))
                elif kind == "store":
                    t = X.strip(node.children[0])
                    base, chain = X.member_chain(t)
                    b = t
                    while b is not None and b.k in ("MemberExpr", "ArraySubscriptExpr"):
                        b = X.strip(b.children[0])
                    name = b.name if b is not None and b.k == "DeclRefExpr" else None
                    fields = [(x.rec, x.name) for x in t.walk() if x.k == "MemberExpr"]
                    if name in PERF_GLOBALS or any(fl in PERF_STATE_FIELDS for fl in fields) or (b is not None and b.k == "DeclRefExpr" and b.d.get("sc") == "local"):
                        continue
                    bad = (node, "is stored into %s" % X.show(t))
                elif kind == "compare":
                    other = [X.show(x) for x in node.children]
                    if f.name in ("gvt_phase_run", "serial_simulation_run") and any("gvt_period" in o or "gvt_timer" in o for o in other):
                        continue       # when to start a GVT round / print statistics: a performance decision
                    bad = (node, "decides the branch `%s`" % X.show(node)[:60])
                elif kind == "branch":
                    if f.name in PERF_FUNCTIONS:
                        continue
                    bad = (node, "decides a branch of %s" % f.name)
                elif kind == "return":
                    if f.name in ("stats_retrieve",):
                        continue
                    bad = (node, "is returned by %s" % f.name)
                else:
                    bad = (node, "flows into `%s`" % X.show(node)[:60])
            if bad:
                ck.violated("C09.3", inst, bad[0].where, "a wall-clock / measured value %s: simulation results would depend on timing" % bad[1], cfg)
            else:
                ck.holds("C09.3", inst, c.where, "used only for statistics, logging or the designated performance state", cfg)
    ck.expect("C09.3", n_src, 12, "uses of timers / statistics readings")
    # who reads the performance state
    owners = Q.owner_closure(P, PERF_STATE_READERS)
    for (rec, fld) in sorted(PERF_STATE_FIELDS):
        for f, node, kind in Q.field_accesses(P, rec, fld):
            if f.name in owners or f.file.endswith("mm/auto_ckpt.c"):
                if owners.get(f.name) in ("process_msg", "handle_anti_msg", "handle_straggler_msg"):
                    # only through the auto_ckpt_* macros
                    if not any(m.startswith("auto_ckpt_") for m in node.macros):
                        ck.violated("C09.3", "perf-state:%s.%s@%s" % (rec, fld, f.name), node.where, "%s reads the auto-checkpoint state directly instead of through its macros" % f.name, cfg)
                continue
            ck.violated("C09.3", "perf-state:%s.%s@%s" % (rec, fld, f.name), node.where, "%s touches %s.%s, which is derived from measured costs: only checkpoint-interval decisions may depend on it" % (f.name, rec, fld), cfg)
    for gname, readers in PERF_GLOBALS.items():
        if readers is None:
            continue
        for f, node, kind in Q.global_accesses(P, gname):
            if f.name not in readers:
                ck.violated("C09.3", "perf-state:%s@%s" % (gname, f.name), node.where, "%s touches `%s` (wall-clock derived)" % (f.name, gname), cfg)
    # the checkpoint decision steers only checkpoint_take
    holders = [g_ for g_ in P.all_functions() if any(s.k == "StmtExpr" and s.macros and s.macros[0] == "auto_ckpt_is_needed" for s in g_.walk())]
    pm = holders[0] if len(holders) == 1 else P.fn("process_msg")
    nd = [s for s in pm.walk() if s.k == "StmtExpr" and s.macros and s.macros[0] == "auto_ckpt_is_needed"]
    if len(nd) != 1:
        ck.inconclusive("C09.3", "ckpt-decision@process_msg", pm.where, "checkpoint decision site not recognised", cfg)
    if len(nd) == 1:
        g = pm.cfg
        deps = [c for c in pm.calls() if c.callee and any(core is nd[0] or nd[0].is_inside(core) or core.is_inside(nd[0]) for core, B in Q.control_dependences(pm, c))]
        others = [c for c in deps if c.callee != "checkpoint_take" and not c.is_inside(nd[0])]
        if not others:
            ck.holds("C09.3", "ckpt-decision@process_msg", nd[0].where, "auto_ckpt_is_needed() controls only checkpoint_take()", cfg)
        else:
            ck.violated("C09.3", "ckpt-decision@process_msg", others[0].where, "%s() is executed depending on the (timing-derived) checkpoint decision" % others[0].callee, cfg)
    # no placement-dependent value reaches the model-visible API
    for fname in ("common_msg_process", "silent_execution", "process_lp_fini", "termination_lp_init", "termination_on_msg_process"):
        f = P.fn_opt(fname)
        if f is None:
            continue
        for c in f.walk():
            if c.k == "CallExpr" and not c.callee and X.show(c.children[0]).startswith("global_config."):
                for a in X.callee_args(c):
                    for x in a.walk():
                        if x.k == "DeclRefExpr" and x.name in PLACEMENT:
                            ck.violated("C09.3", "placement-to-model@%s" % fname, c.where, "the model callback receives a value derived from `%s` (placement)" % x.name, cfg)
