"""C06 — cancellation is exactly-once."""
from .. import rules_msg
from .C11 import Renamed


def run(ck, progs):
    ck.not_decided = ("absence of races between the three read-modify-writes themselves (what each RMW returns under every interleaving); "
                      "that is what the RMWs are for and arguing it needs interleavings")
    ck.rule("C06.1", "the three updates of the per-message flag word (sender-cancel, receiver-undo, receiver-extract) are single atomic "
                     "RMWs whose returned value alone decides re-queue / rollback / free, with the polarity the protocol requires")
    ck.rule("C06.2", "every message a function owns is released or handed to another owner exactly once on every path "
                     "(no leak, no double release, no release while still reachable); callee summaries may depend on a boolean result")
    ck.rule("C06.3", "no dereference or argument use of a message after it was released, in any function")
    ck.rule("C06.4", "entries of the history are released by fossil collection / LP shutdown only according to the ownership table "
                     "(local-sent: never; remote-sent: always; processed: unless its ANTI bit says a queue owns it)")
    ck.rule("C06.5", "the flag word is touched only by the functions of the protocol, each with its permitted kind of access")
    ck.rule("C06.6", "the matched remote event is marked ANTI before the rollback that undoes it")
    ck.rule("C06.7", "a remotely cancelled message is released only through the at-GVT list after its non-blocking send")
    ck.rule("C06.9", "the flag word of a freshly allocated (recycled) message is written on every path before the message is published")
    ck.rule("C06.8", "early anti-message list: linked completely before it is published, unlinked before it is released, initially empty")
    ck.rule("C06.10", "a remote anti-message is released only after it matched an event (both identity fields compared equal on the path) and is "
                      "declared unmatched only at the end of the history; otherwise it waits on the early list (C02.8)")
    for cfg, P in progs.items():
        from . import C02
        C02._exhaustive(Renamed(ck, {"C02.8": "C06.10"}), P, cfg)
        C02._matched_only(Renamed(ck, {"C02.8": "C06.10"}), P, cfg)
        rules_msg.check_rmw_protocol(ck, P, "C06.1")
        rules_msg.check_rmw_tag_discipline(ck, P, "C06.1")
        rules_msg.check_typestate(ck, P, "C06.3", "C06.2")
        rules_msg.check_release_ownership(ck, P, "C06.4")
        rules_msg.check_foreign_entries_untouched(ck, P, "C06.4")
        rules_msg.check_flag_access(ck, P, "C06.5")
        rules_msg.check_anti_before_rollback(ck, P, "C06.6")
        rules_msg.check_deferred_free(ck, P, "C06.7")
        rules_msg.check_early_list(ck, P, "C06.8")
        rules_msg.check_flags_initialised(ck, P, "C06.9")
