"""C11 — memory safety / no undefined behaviour: the clauses that are structural."""
from .. import expr as X
from .. import query as Q
from .. import rules_msg, rules_num, rules_rollback, rules_array, rules_cover, rules_buddy
from . import C12


class Renamed:
    """Checker proxy that files another property's rule under this property's rule id."""

    def __init__(self, ck, mapping):
        self._ck, self._m = ck, mapping

    def __getattr__(self, name):
        attr = getattr(self._ck, name)
        if name in ("holds", "violated", "inconclusive", "expect"):
            def f(rule, *a, **k):
                return attr(self._m.get(rule, rule), *a, **k)
            return f
        return attr


def linear(n):
    """Linear form of an integer expression: ({variable text: coefficient}, constant) or None."""
    n = X.strip(n)
    c = X.const_int(n)
    if c is not None:
        return {}, c
    if n.k == "BinaryOperator" and n.op in ("+", "-"):
        a, b = linear(n.children[0]), linear(n.children[1])
        if a is None or b is None:
            return None
        sgn = 1 if n.op == "+" else -1
        co = dict(a[0])
        for k, v in b[0].items():
            co[k] = co.get(k, 0) + sgn * v
        return co, a[1] + sgn * b[1]
    if n.k in ("DeclRefExpr", "MemberExpr"):
        return {X.show(n): 1}, 0
    return None


def run(ck, progs):
    ck.not_decided = ("memory safety of the runtime as a whole (no sound whole-program analyser is available in this sandbox); bounds of "
                      "array indexing, alignment, signed overflow outside the listed sites")
    ck.rule("C11.1", "no use of a message buffer after its release and no double release, in every function (path-sensitive typestate)")
    ck.rule("C11.2", "every shift whose amount is an exact expression of bounded inputs stays below the width of its promoted left operand")
    ck.rule("C11.3", "the checkpoint buffer size account is conserved (a too small account is a heap overflow in checkpoint_full_take)")
    ck.rule("C11.4", "size-class integrity: lp_msg.pl_size is written only by the message allocator and by the receive path with the size the "
                     "buffer was allocated for (msg_allocator_free picks free-list vs free() from it)")
    ck.rule("C11.5", "a product of two caller-supplied sizes that reaches an allocation is overflow-checked")
    ck.rule("C11.6", "message buffer capacity: pooled buffers hold every payload the pool path serves, the large path allocates header + payload, the "
                     "release path pools only buffers the pool path may reuse, and the shutdown-drain buffer holds preamble + received bytes")
    ck.rule("C11.7", "dynamic arrays (history, logs, heaps): at every expansion the grow step leaves room for the element(s) written next and the "
                     "shrink step keeps capacity >= count, for all count <= capacity <= 12; the block is reallocated to the updated capacity * "
                     "sizeof(element) and stored back; array_push checks the capacity before it stores and counts; the memmove of array_truncate_first "
                     "(fossil collection of the history and of the checkpoint log) and of array_add_at covers exactly the elements that move")
    ck.rule("C11.8", "the share of total_sent[] a thread zeroes after a GVT message count stays inside the array, for every rank count up to MAX_NODES")
    ck.rule("C11.9", "rs_realloc copies min(requested size, old block size) bytes out of a block it moves, and the old block size reported by "
                     "buddy_best_effort_realloc is 1 << the order found by climbing the allocation tree from the block")
    ck.rule("C11.12", "fossil_lp_collect reads the history only after testing that it is not empty (no read before the array)")
    ck.rule("C11.11", "a worker releases its LPs' histories and its queue only after a thread barrier that follows the main loop (until then another "
                      "thread can still roll back and touch those messages)")
    ck.rule("C11.10", "a history element (a tagged word) is dereferenced, directly or by a callee, only when both tag bits were tested clear on the "
                      "path from its load, or when it is the last element of the history (no read through a misaligned pointer into a message "
                      "the LP does not own)")
    for cfg, P in progs.items():
        _capacity(ck, P, cfg)
        rules_msg.check_entry_derefs(ck, P, "C11.10")
        rules_msg.check_teardown_after_barrier(ck, P, "C11.11")
        from .. import rules_fossil
        rules_fossil.check_nonempty_before_last(ck, P, "C11.12")
        rules_cover.check_partition_clear(ck, P, None, "C11.8")
        rules_buddy.check_realloc_copy(ck, P, "C11.9")
        rules_array.check(ck, P, "C11.7")
        rules_array.check_moves(ck, P, "C11.7")
        rules_array.check_cached_items(ck, P, "C11.7")
        rules_msg.check_typestate(ck, P, "C11.1", "C11.1")
        rules_msg.check_foreign_entries_untouched(ck, P, "C11.1")
        rules_num.check_shift_widths(ck, P, "C11.2")
        rules_rollback.check_account(Renamed(ck, {}), P, "C11.3", "C11.3")
        _pl_size(ck, P, cfg)
        C12._calloc(Renamed(ck, {"C12.2": "C11.5"}), P, cfg)


def _pl_size(ck, P, cfg):
    n = 0
    for f, node, kind in Q.field_accesses(P, "lp_msg", "pl_size"):
        if kind == "read":
            continue
        n += 1
        inst = "pl_size-writer@%s" % f.name
        asg = node.parent
        while asg is not None and asg.k not in ("BinaryOperator", "CompoundAssignOperator"):
            asg = asg.parent
        if f.name == "msg_allocator_alloc":
            v = X.strip(asg.children[1])
            if v.k == "DeclRefExpr" and v.name == f.params[0]["name"]:
                ck.holds("C11.4", inst, asg.where, "records the payload size the buffer was sized for", cfg)
            else:
                ck.violated("C11.4", inst, asg.where, "the allocator records %s, not the payload size it sized the buffer for" % X.show(v), cfg)
        elif f.name == "mpi_remote_msg_handle":
            al = [c for c in f.calls("msg_allocator_alloc") if f.cfg.dominates(c, asg)]
            vals = {X.const_int(X.callee_args(c)[0]) for c in al}
            if al and vals == {X.const_int(asg.children[1])}:
                ck.holds("C11.4", inst, asg.where, "anti-message buffer: pl_size = %s, the size it was allocated with" % X.const_int(asg.children[1]), cfg)
            else:
                ck.violated("C11.4", inst, asg.where, "pl_size is set to %s but the buffer was allocated for %s" % (X.show(asg.children[1]), sorted(map(str, vals))), cfg)
        else:
            ck.violated("C11.4", inst, asg.where, "%s overwrites lp_msg.pl_size (%s): a later msg_allocator_free would put a malloc'ed buffer on the free list, or free() a pooled one" % (f.name, kind), cfg)
    ck.expect("C11.4", n, 2, "writers of lp_msg.pl_size")
    # event receive: allocation size arithmetic inverse of the sender's message size
    h = P.fn("mpi_remote_msg_handle")
    off_pl = P.field("lp_msg", "pl")["off"]
    off_dest = P.field("lp_msg", "dest")["off"]
    allocs = [c for c in h.calls("msg_allocator_alloc") if X.const_int(X.callee_args(c)[0]) is None]
    inst = "receive-size@mpi_remote_msg_handle"
    if len(allocs) != 1:
        ck.inconclusive("C11.4", inst, h.where, "event receive allocation not recognised", cfg)
        return
    lf = linear(Q.resolve_local(h, X.callee_args(allocs[0])[0]))
    if lf is None or len(lf[0]) != 1 or list(lf[0].values()) != [1]:
        ck.inconclusive("C11.4", inst, allocs[0].where, "allocation size is not `received size + constant`", cfg)
        return
    want = -(off_pl - off_dest)
    if lf[1] == want:
        ck.holds("C11.4", inst, allocs[0].where, "payload = received bytes - (offsetof(pl) - preamble) = received - %d: inverse of msg_remote_size()" % (off_pl - off_dest), cfg)
    elif lf[1] > want:
        ck.holds("C11.4", inst, allocs[0].where, "buffer is %d bytes larger than needed" % (lf[1] - want), cfg)
    else:
        ck.violated("C11.4", inst, allocs[0].where, "the receive buffer is sized for `received %+d` payload bytes but the wire format carries `received %+d`: MPI_Mrecv writes %d bytes past the buffer" % (lf[1], want, want - lf[1]), cfg)
    # and the sender's size macro is the same arithmetic
    s = P.fn("mpi_remote_msg_send")
    for c in s.calls("MPI_Isend"):
        sf = linear(Q.resolve_local(s, X.callee_args(c)[1]))
        if sf is not None and sf[1] == off_pl - off_dest and any(k.endswith("pl_size") for k in sf[0]):
            ck.holds("C11.4", "send-size@mpi_remote_msg_send", c.where, "sends offsetof(pl) - preamble + pl_size = %d + pl_size bytes" % sf[1], cfg)
        elif sf is not None:
            ck.violated("C11.4", "send-size@mpi_remote_msg_send", c.where, "sends %s: does not match the receiver's arithmetic (%d + pl_size)" % (X.show(X.callee_args(c)[1])[:60], off_pl - off_dest), cfg)
        else:
            # not a linear form: evaluate it for representative payload sizes (below, at and above the pooled capacity)
            from .. import ceval
            size_e = Q.resolve_local(s, X.callee_args(c)[1])
            keys = sorted({X.show(x) for x in size_e.walk() if x.k == "MemberExpr" and x.name == "pl_size"})
            bad = unknown = None
            for v in (0, 1, 31, 32, 33, 64, 100, 512, 4096):
                got = ceval.ev(size_e, {k: v for k in keys})
                if got is None:
                    unknown = True
                    break
                if got != off_pl - off_dest + v and bad is None:
                    bad = (v, got)
            if unknown or not keys:
                ck.inconclusive("C11.4", "send-size@mpi_remote_msg_send", c.where, "the number of bytes sent (%s) is not a function of the payload size alone" % X.show(size_e)[:60], cfg)
            elif bad:
                ck.violated("C11.4", "send-size@mpi_remote_msg_send", c.where, "a message with a %d byte payload is sent as %d bytes, the receiver's arithmetic expects %d + payload = %d: the payload arrives truncated (or bytes past the buffer are sent)" % (bad[0], bad[1], off_pl - off_dest, off_pl - off_dest + bad[0]), cfg)
            else:
                ck.holds("C11.4", "send-size@mpi_remote_msg_send", c.where, "sends %d + pl_size bytes for every payload size evaluated" % (off_pl - off_dest), cfg)


def _capacity(ck, P, cfg):
    fl = {x["name"]: x for x in P.record("lp_msg")["fields"]}
    size = P.record("lp_msg")["size"]
    off_pl = fl["pl"]["off"]
    cap = size - off_pl                      # payload bytes a pooled buffer can hold
    a = P.fn("msg_allocator_alloc")
    ps = a.params[0]["name"]
    allocs = list(a.calls("mm_alloc"))
    pops = [s_ for s_ in a.walk() if s_.k == "StmtExpr" and s_.macros and s_.macros[0] == "array_pop"]
    # threshold of the large path
    thr = None
    for c in allocs:
        lf = linear(X.callee_args(c)[0])
        if lf is not None and lf[0].get(ps) == 1:
            paths, _ = Q.path_conditions(a, c)
            for conds in paths:
                for core, t in conds:
                    cc = X.strip(core)
                    if cc.k == "BinaryOperator" and cc.op in (">", ">=") and X.show(cc.children[0]) == ps and t:
                        k = X.const_int(cc.children[1])
                        thr = k if cc.op == ">" else k - 1
            if lf[1] >= off_pl:
                ck.holds("C11.6", "large-path@msg_allocator_alloc", c.where, "allocates payload + %d >= payload + offsetof(pl) = payload + %d" % (lf[1], off_pl), cfg)
            else:
                ck.violated("C11.6", "large-path@msg_allocator_alloc", c.where, "a large message gets payload %+d bytes but its payload starts at offset %d: the copy of the payload overruns the buffer by %d bytes" % (lf[1], off_pl, off_pl - lf[1]), cfg)
    if thr is None:
        ck.inconclusive("C11.6", "pool-path@msg_allocator_alloc", a.where, "size-class threshold not recognised", cfg)
        return
    small = [c for c in allocs if X.const_int(X.callee_args(c)[0]) is not None]
    ok = all(X.const_int(X.callee_args(c)[0]) - off_pl >= thr for c in small) and bool(small)
    if ok and thr <= cap:
        ck.holds("C11.6", "pool-path@msg_allocator_alloc", a.where, "payloads up to %d bytes use pooled buffers of %d bytes (capacity %d)" % (thr, size, cap), cfg)
    else:
        ck.violated("C11.6", "pool-path@msg_allocator_alloc", a.where, "payloads up to %d bytes are served from pooled buffers that hold only %d payload bytes: msg_allocator_pack overruns them" % (thr, cap), cfg)
    fr = P.fn("msg_allocator_free")
    fthr = None
    for s_ in fr.walk():
        if s_.k == "StmtExpr" and s_.macros and s_.macros[0] == "array_push":
            first = next(x for x in s_.walk() if x.id in fr.cfg.pos)
            paths, _ = Q.path_conditions(fr, first)
            for conds in paths:
                for core, t in conds:
                    cc = X.strip(core)
                    if cc.k == "BinaryOperator" and cc.op in ("<=", "<") and "pl_size" in X.show(cc.children[0]) and t:
                        k = X.const_int(cc.children[1])
                        fthr = k if cc.op == "<=" else k - 1
                    if cc.k == "BinaryOperator" and cc.op in (">", ">=") and "pl_size" in X.show(cc.children[0]) and t is False:
                        k = X.const_int(cc.children[1])
                        fthr = k if cc.op == ">" else k - 1
    if fthr is None:
        ck.inconclusive("C11.6", "pool-release@msg_allocator_free", fr.where, "release threshold not recognised", cfg)
    elif fthr <= thr:
        ck.holds("C11.6", "pool-release@msg_allocator_free", fr.where, "only buffers with payload <= %d are pooled; the pool path serves payloads <= %d from them" % (fthr, thr), cfg)
    else:
        ck.violated("C11.6", "pool-release@msg_allocator_free", fr.where, "buffers with payload up to %d are pooled but the large path (payload > %d) allocated some of them with exactly their own size... the pool then hands a %d-byte-payload buffer to a larger request" % (fthr, thr, thr + 1), cfg)
    # shutdown drain buffer
    d = P.fn("mpi_remote_msg_drain")
    pre = fl["dest"]["off"]
    rl = [c for c in d.calls("mm_realloc")]
    if len(rl) == 1:
        lf = linear(Q.resolve_local(d, X.callee_args(rl[0])[1]))
        rcv = [c for c in d.calls("MPI_Mrecv") if "dest" in X.show(X.callee_args(c)[0])]
        if lf is not None and list(lf[0].values()) == [1] and lf[1] >= pre and rcv and X.show(X.callee_args(rcv[0])[1]) in lf[0]:
            # and the buffer is grown whenever the incoming message is larger than what it holds
            ck.holds("C11.6", "drain-buffer@mpi_remote_msg_drain", rl[0].where, "scratch buffer = received size + %d >= preamble (%d) + received bytes" % (lf[1], pre), cfg)
        else:
            ck.violated("C11.6", "drain-buffer@mpi_remote_msg_drain", rl[0].where, "the scratch buffer (%s) does not cover preamble (%d bytes) + received bytes: MPI_Mrecv writes past it" % (X.show(X.callee_args(rl[0])[1])[:60], pre), cfg)
        grow = [n for n in d.walk() if n.k == "BinaryOperator" and n.op in (">", ">=") and "size" in X.show(n.children[0]) and "msg_size" in X.show(n.children[1])]
        upd = [n for n in d.walk() if n.k == "BinaryOperator" and n.op == "=" and X.show(n.children[0]) == "msg_size" and X.show(n.children[1]) == "size"]
        if grow and upd:
            ck.holds("C11.6", "drain-grow@mpi_remote_msg_drain", grow[0].where, "grown when size > capacity; capacity updated to size", cfg)
        else:
            ck.violated("C11.6", "drain-grow@mpi_remote_msg_drain", d.where, "the scratch buffer is not grown (or its recorded capacity not updated) when a larger message arrives", cfg)
