"""C11 — memory safety / no undefined behaviour: the clauses that are structural."""
from .. import expr as X
from .. import query as Q
from .. import rules_msg, rules_num, rules_rollback
from . import C12


class Renamed:
    """Checker proxy that files another property's rule under this property's rule id."""

    def __init__(self, ck, mapping):
        self._ck, self._m = ck, mapping

    def __getattr__(self, name):
        attr = getattr(self._ck, name)
        if name in ("holds", "violated", "inconclusive", "expect"):
            def f(rule, *a, **k):
                return attr(self._m.get(rule, rule), *a, **k)
            return f
        return attr


def linear(n):
    """Linear form of an integer expression: ({variable text: coefficient}, constant) or None."""
    n = X.strip(n)
    c = X.const_int(n)
    if c is not None:
        return {}, c
    if n.k == "BinaryOperator" and n.op in ("+", "-"):
        a, b = linear(n.children[0]), linear(n.children[1])
        if a is None or b is None:
            return None
        sgn = 1 if n.op == "+" else -1
        co = dict(a[0])
        for k, v in b[0].items():
            co[k] = co.get(k, 0) + sgn * v
        return co, a[1] + sgn * b[1]
    if n.k in ("DeclRefExpr", "MemberExpr"):
        return {X.show(n): 1}, 0
    return None


def run(ck, progs):
    ck.not_decided = ("memory safety of the runtime as a whole (no sound whole-program analyser is available in this sandbox); bounds of "
                      "array indexing, alignment, signed overflow outside the listed sites")
    ck.rule("C11.1", "no use of a message buffer after its release and no double release, in every function (path-sensitive typestate)")
    ck.rule("C11.2", "every shift whose amount is an exact expression of bounded inputs stays below the width of its promoted left operand")
    ck.rule("C11.3", "the checkpoint buffer size account is conserved (a too small account is a heap overflow in checkpoint_full_take)")
    ck.rule("C11.4", "size-class integrity: lp_msg.pl_size is written only by the message allocator and by the receive path with the size the "
                     "buffer was allocated for (msg_allocator_free picks free-list vs free() from it)")
    ck.rule("C11.5", "a product of two caller-supplied sizes that reaches an allocation is overflow-checked")
    for cfg, P in progs.items():
        rules_msg.check_typestate(ck, P, "C11.1", "C11.1")
        rules_num.check_shift_widths(ck, P, "C11.2")
        rules_rollback.check_account(Renamed(ck, {}), P, "C11.3", "C11.3")
        _pl_size(ck, P, cfg)
        C12._calloc(Renamed(ck, {"C12.2": "C11.5"}), P, cfg)


def _pl_size(ck, P, cfg):
    n = 0
    for f, node, kind in Q.field_accesses(P, "lp_msg", "pl_size"):
        if kind == "read":
            continue
        n += 1
        inst = "pl_size-writer@%s" % f.name
        asg = node.parent
        while asg is not None and asg.k not in ("BinaryOperator", "CompoundAssignOperator"):
            asg = asg.parent
        if f.name == "msg_allocator_alloc":
            v = X.strip(asg.children[1])
            if v.k == "DeclRefExpr" and v.name == f.params[0]["name"]:
                ck.holds("C11.4", inst, asg.where, "records the payload size the buffer was sized for", cfg)
            else:
                ck.violated("C11.4", inst, asg.where, "the allocator records %s, not the payload size it sized the buffer for" % X.show(v), cfg)
        elif f.name == "mpi_remote_msg_handle":
            al = [c for c in f.calls("msg_allocator_alloc") if f.cfg.dominates(c, asg)]
            vals = {X.const_int(X.callee_args(c)[0]) for c in al}
            if al and vals == {X.const_int(asg.children[1])}:
                ck.holds("C11.4", inst, asg.where, "anti-message buffer: pl_size = %s, the size it was allocated with" % X.const_int(asg.children[1]), cfg)
            else:
                ck.violated("C11.4", inst, asg.where, "pl_size is set to %s but the buffer was allocated for %s" % (X.show(asg.children[1]), sorted(map(str, vals))), cfg)
        else:
            ck.violated("C11.4", inst, asg.where, "%s overwrites lp_msg.pl_size (%s): a later msg_allocator_free would put a malloc'ed buffer on the free list, or free() a pooled one" % (f.name, kind), cfg)
    ck.expect("C11.4", n, 2, "writers of lp_msg.pl_size")
    # event receive: allocation size arithmetic inverse of the sender's message size
    h = P.fn("mpi_remote_msg_handle")
    off_pl = P.field("lp_msg", "pl")["off"]
    off_dest = P.field("lp_msg", "dest")["off"]
    allocs = [c for c in h.calls("msg_allocator_alloc") if X.const_int(X.callee_args(c)[0]) is None]
    inst = "receive-size@mpi_remote_msg_handle"
    if len(allocs) != 1:
        ck.inconclusive("C11.4", inst, h.where, "event receive allocation not recognised", cfg)
        return
    lf = linear(Q.resolve_local(h, X.callee_args(allocs[0])[0]))
    if lf is None or len(lf[0]) != 1 or list(lf[0].values()) != [1]:
        ck.inconclusive("C11.4", inst, allocs[0].where, "allocation size is not `received size + constant`", cfg)
        return
    want = -(off_pl - off_dest)
    if lf[1] == want:
        ck.holds("C11.4", inst, allocs[0].where, "payload = received bytes - (offsetof(pl) - preamble) = received - %d: inverse of msg_remote_size()" % (off_pl - off_dest), cfg)
    elif lf[1] > want:
        ck.holds("C11.4", inst, allocs[0].where, "buffer is %d bytes larger than needed" % (lf[1] - want), cfg)
    else:
        ck.violated("C11.4", inst, allocs[0].where, "the receive buffer is sized for `received %+d` payload bytes but the wire format carries `received %+d`: MPI_Mrecv writes %d bytes past the buffer" % (lf[1], want, want - lf[1]), cfg)
    # and the sender's size macro is the same arithmetic
    s = P.fn("mpi_remote_msg_send")
    for c in s.calls("MPI_Isend"):
        sf = linear(Q.resolve_local(s, X.callee_args(c)[1]))
        if sf is not None and sf[1] == off_pl - off_dest and any(k.endswith("pl_size") for k in sf[0]):
            ck.holds("C11.4", "send-size@mpi_remote_msg_send", c.where, "sends offsetof(pl) - preamble + pl_size = %d + pl_size bytes" % sf[1], cfg)
        elif sf is not None:
            ck.violated("C11.4", "send-size@mpi_remote_msg_send", c.where, "sends %s: does not match the receiver's arithmetic (%d + pl_size)" % (X.show(X.callee_args(c)[1])[:60], off_pl - off_dest), cfg)
