"""C05 — rollback restores the exact LP state: structural clauses."""
from .. import rules_rollback as R


def run(ck, progs):
    ck.not_decided = ("byte equality of the restored state with the state after the last valid event, over histories of allocate/free/"
                      "write/checkpoint/rollback operations; the buddy tree's own arithmetic")
    ck.rule("C05.1", "silent re-execution emits nothing: every emission step of ScheduleNewEvent is reachable only with the (thread-local) "
                     "silent flag clear; the flag is set before and reset after the re-execution loop on every path and has one writer")
    ck.rule("C05.2", "the LP's random generator state is allocated by the rollbackable allocator and reached only through current_lp")
    ck.rule("C05.3", "checkpoint take and restore are mirror images: same tree size, opposite directions, same block walk (restore loads the "
                     "saved tree before walking), same lengths and cursor advance, arena identity recorded and verified")
    ck.rule("C05.4", "arenas the restored checkpoint does not know are re-initialised and their header is charged, on the NULL edge only")
    ck.rule("C05.5", "checkpoint-size account is conserved by every writer (init, malloc incl. new arena, free, in-place realloc, restore) "
                     "and checkpoint_take allocates and records exactly that amount")
    ck.rule("C05.6", "rollback pipeline: cancel -> restore -> coast forward, one index, coast forward from the restored checkpoint's position")
    ck.rule("C05.7", "a checkpoint is labelled with the number of history entries its state includes (taken after the processed event was "
                     "appended) and the coast forward starts at that entry; take and restore walk the arenas in the same order and thread "
                     "the section cursor the same way")
    ck.rule("C05.8", "index ranges of the rollback: send_anti_messages undoes exactly the entries [past_i, count) and cuts the history to past_i; silent_execution re-dispatches exactly the processed entries of [last_i, past_i), none when last_i >= past_i (both evaluated over indices and tag bits for all positions 0..4)")
    for cfg, P in progs.items():
        R.check_silent(ck, P, "C05.1")
        R.check_rng_rollbackable(ck, P, "C05.2")
        R.check_mirror(ck, P, "C05.3")
        R.check_account(ck, P, "C05.5", "C05.4")
        R.check_pipeline(ck, P, "C05.6")
        from .. import rules_msg
        rules_msg.check_rmw_tag_discipline(ck, P, "C05.6")
        R.check_checkpoint_position(ck, P, "C05.7")
        R.check_arena_order(ck, P, "C05.7")
        R.check_rollback_ranges(ck, P, "C05.8")
