"""C07 — no premature termination: structural clauses of gvt/termination.c and its callers."""
import itertools

from .. import expr as X
from .. import query as Q
from .. import interp
from .. import typestate
from ..cfg import witness_text

COMMITTED = "global_config.committed"


def run(ck, progs):
    ck.not_decided = ("whether the predicate value that was recorded was evaluated on the right (committed) state of the LP, and the "
                      "interplay of votes with GVT values under interleavings")
    ck.rule("C07.1", "conservation over all order types: the per-thread counter of LPs still to end equals the number of hosted LPs the "
                     "runtime itself regards as not terminated, across every writer (init, forward event, rollback), for every ordering of "
                     "(stored time, event time) relative to the constants the code compares with; a terminated LP records exactly the event time; "
                     "a rollback at or before the recorded time un-terminates, a later one does not")
    ck.rule("C07.2", "every rollback is followed on every path by the termination undo for the time of the message that caused it")
    ck.rule("C07.3", "a thread votes only if (no LP left and max recorded time strictly below GVT) or GVT reached the termination time")
    ck.rule("C07.4", "the termination control message is broadcast only by the last voter (equality test on the vote RMW's result) or by "
                     "RootsimStop; the node counter is written only by its initialiser and the control-message handler; the worker loop "
                     "re-reads it atomically on every iteration")
    ck.rule("C07.5", "the thread's maximum recorded termination time never decreases while LPs it covers may still be terminated: it is written "
                     "only by the forward handler (as a running maximum, for every order type) and by the vote (set to SIMTIME_MAX)")
    ck.rule("C07.6", "a vote is cast once: termination_on_gvt interpreted twice in a row (no LP left, recorded times below the GVT, GVT below the "
                     "termination time) votes the first time and not the second")
    for cfg, P in progs.items():
        _max_t(ck, P, cfg)
        _conservation(ck, P, cfg)
        _undo_after_rollback(ck, P, cfg)
        _votes(ck, P, cfg)
        _vote_once(ck, P, cfg)
        _broadcast(ck, P, cfg)


# --------------------------------------------------------------------------------------------------------------
def _roles(P):
    fi = P.fn("termination_lp_init")
    lp = fi.params[0]["name"]
    counter = None
    for n in fi.walk():
        if n.k in ("CompoundAssignOperator", "BinaryOperator", "UnaryOperator") and (n.k != "BinaryOperator" or n.op == "="):
            t = X.strip(n.children[0])
            if t.k == "DeclRefExpr" and t.d.get("sc") in ("file_static", "global") and t.d.get("ti"):
                counter = t
    return counter


def _literals(fns):
    cs = {0.0}
    for f in fns:
        for n in f.walk():
            v = None
            if n.k == "FloatingLiteral":
                v = n.d.get("val")
            elif n.k == "IntegerLiteral":
                v = n.d.get("val")
            elif "cvf" in n.d:
                v = n.d["cvf"]
            if v is not None and abs(float(v)) <= 1.7976931348623157e308:
                cs.add(float(v))
    return cs


def _conservation(ck, P, cfg):
    fi, fm, fr = P.fn("termination_lp_init"), P.fn("termination_on_msg_process"), P.fn("termination_on_lp_rollback")
    counter = _roles(P)
    if counter is None:
        ck.inconclusive("C07.1", "roles", fi.where, "cannot identify the per-thread counter of LPs still to end", cfg)
        return
    if not counter.tls:
        ck.violated("C07.1", "counter-thread-local", counter.where, "`%s` is not thread-local but is updated without synchronisation by every worker" % counter.name, cfg)
    cn = counter.name
    SMAX = 1.7976931348623157e308
    consts = _literals([fi, fm, fr]) | {SMAX}
    pts = interp.order_points(consts)
    times = [p for p in pts if 0.0 <= p <= SMAX]           # valid event timestamps
    mx = [g for g in P.globals.get("max_t", []) if g.get("def")]

    def tkey(f):
        return "%s->termination_t" % f.params[0]["name"]

    def run_fn(f, env, committed=None):
        stubs = {COMMITTED: (lambda args, e: committed)}
        outs = interp.Interp(f, stubs).run(env)
        return outs

    # N(t): does the runtime regard an LP with termination_t == t as not terminated?  (= the forward handler evaluates the predicate)
    def not_terminated(t):
        outs = run_fn(fm, {tkey(fm): t, cn: 100, fm.params[1]["name"]: 1.0, "max_t": 0.0}, committed=0)
        res = set()
        for o in outs:
            res.add(any(c[0] == COMMITTED for c in o.calls))
        return res.pop() if len(res) == 1 else None

    # reachable stored values (closure over the representatives)
    S = set()
    problems = []
    n_eval = 0
    for b in (0, 1):
        for o in run_fn(fi, {cn: 0}, committed=b):
            n_eval += 1
            t2 = o.env.get(tkey(fi))
            d = o.env.get(cn)
            if t2 is None or d is None or not o.decided:
                ck.inconclusive("C07.1", "writer:termination_lp_init", fi.where, "cannot evaluate the initialiser (predicate=%d)" % b, cfg)
                return
            S.add(t2)
            n = not_terminated(t2)
            if n is None:
                ck.inconclusive("C07.1", "predicate", fm.where, "cannot evaluate the not-terminated test", cfg)
                return
            if d != (1 if n else 0):
                problems.append(("writer:termination_lp_init", fi.where, "predicate=%d at init: counter moves by %+d but the stored marker %r %s" % (
                    b, d, t2, "counts as not terminated" if n else "counts as terminated")))
            if bool(b) == bool(n):
                problems.append(("writer:termination_lp_init", fi.where, "predicate=%d at init but the stored marker %r is read back as %s" % (b, t2, "not terminated" if n else "terminated")))
    changed = True
    rounds = 0
    while changed and rounds < 6:
        rounds += 1
        changed = False
        for t in sorted(S):
            nt = not_terminated(t)
            for m in times:
                for b in (0, 1):
                    for o in run_fn(fm, {tkey(fm): t, cn: 100, fm.params[1]["name"]: m, "max_t": 0.0}, committed=b):
                        n_eval += 1
                        t2, c2 = o.env.get(tkey(fm)), o.env.get(cn)
                        if t2 is None or c2 is None or not o.decided:
                            ck.inconclusive("C07.1", "writer:termination_on_msg_process", fm.where, "cannot evaluate (t=%r, time=%r)" % (t, m), cfg)
                            return
                        d = c2 - 100
                        n2 = not_terminated(t2)
                        if t2 not in S:
                            S.add(t2)
                            changed = True
                        if not nt:
                            if d != 0 or t2 != t:
                                problems.append(("writer:termination_on_msg_process", fm.where, "an LP already terminated (marker %r) is modified again by an event at %r (counter %+d, marker -> %r)" % (t, m, d, t2)))
                            continue
                        want = (1 if n2 else 0) - 1
                        if d != want:
                            problems.append(("writer:termination_on_msg_process", fm.where,
                                             "event at time %r, predicate=%d, marker %r -> %r: counter moves by %+d, but the LP is afterwards read back as %s (needs %+d)" % (
                                                 m, b, t, t2, d, "not terminated" if n2 else "terminated", want)))
                        if b and t2 != m:
                            problems.append(("writer:termination_on_msg_process", fm.where, "predicate holds at event time %r but the recorded time is %r" % (m, t2)))
                        if b and mx and o.env.get("max_t") is not None and o.env.get("max_t") < m:
                            problems.append(("writer:termination_on_msg_process", fm.where, "the thread's maximum termination time (%r) stays below the recorded time %r" % (o.env.get("max_t"), m)))
                for o in run_fn(fr, {tkey(fr): t, cn: 100, fr.params[1]["name"]: m}):
                    n_eval += 1
                    t2, c2 = o.env.get(tkey(fr)), o.env.get(cn)
                    if t2 is None or c2 is None or not o.decided:
                        ck.inconclusive("C07.1", "writer:termination_on_lp_rollback", fr.where, "cannot evaluate (t=%r, time=%r)" % (t, m), cfg)
                        return
                    d = c2 - 100
                    n2 = not_terminated(t2)
                    if t2 not in S:
                        S.add(t2)
                        changed = True
                    want = (1 if n2 else 0) - (1 if nt else 0)
                    if d != want:
                        problems.append(("writer:termination_on_lp_rollback", fr.where,
                                         "rollback to time %r with marker %r -> %r: counter moves by %+d, but the LP goes from %s to %s (needs %+d)" % (
                                             m, t, t2, d, "not terminated" if nt else "terminated", "not terminated" if n2 else "terminated", want)))
                    if not nt and t != SMAX:
                        if m <= t and not n2:
                            problems.append(("writer:termination_on_lp_rollback", fr.where, "rollback to time %r undoes the event at %r that satisfied the predicate, but the LP stays terminated" % (m, t)))
                        if m > t and t2 != t:
                            problems.append(("writer:termination_on_lp_rollback", fr.where, "rollback to time %r, later than the recorded termination time %r, changes the marker to %r" % (m, t, t2)))
                    if not nt and t == SMAX and t2 != t:
                        problems.append(("writer:termination_on_lp_rollback", fr.where, "an LP terminated at initialisation is un-terminated by a rollback"))
    seen = set()
    for inst, where, detail in problems:
        if inst in seen:
            continue
        seen.add(inst)
        ck.violated("C07.1", inst, where, detail, cfg)
    for inst, fn in (("writer:termination_lp_init", fi), ("writer:termination_on_msg_process", fm), ("writer:termination_on_lp_rollback", fr)):
        if inst not in seen:
            ck.holds("C07.1", inst, fn.where, "conserved over %d stored markers x %d event times (constants %s)" % (len(S), len(times), sorted(consts)), cfg)
    ck.meta["c07_order_type_evaluations"] = n_eval
    # who writes the marker and the counter
    allowed = {"termination_lp_init", "termination_on_msg_process", "termination_on_lp_rollback", "serial_simulation_init", "serial_simulation_run"}
    for f, node, kind in Q.field_accesses(P, "lp_ctx", "termination_t"):
        if kind != "read" and f.name not in allowed:
            ck.violated("C07.1", "marker-writer:%s" % f.name, node.where, "%s writes lp->termination_t outside the termination module" % f.name, cfg)
    for f, node, kind in Q.global_accesses(P, cn):
        if kind != "read" and f.name not in ("termination_lp_init", "termination_on_msg_process", "termination_on_lp_rollback"):
            ck.violated("C07.1", "counter-writer:%s" % f.name, node.where, "%s modifies %s; only the three writers that also move the marker may" % (f.name, cn), cfg)


def _max_t(ck, P, cfg):
    fm = P.fn("termination_on_msg_process")
    mname = None
    for n in fm.walk():
        if n.k == "BinaryOperator" and n.op == "=":
            t = X.strip(n.children[0])
            if t.k == "DeclRefExpr" and t.d.get("sc") in ("file_static", "global") and t.d.get("tf"):
                mname = t
    if mname is None:
        ck.inconclusive("C07.5", "max-time", fm.where, "no per-thread maximum termination time is maintained (a different voting scheme)", cfg)
        return
    if not mname.tls:
        ck.violated("C07.5", "max-time:thread-local", mname.where, "`%s` is shared between threads but updated without synchronisation" % mname.name, cfg)
    SMAX = 1.7976931348623157e308
    n = 0
    for f, node, kind in Q.global_accesses(P, mname.name):
        if kind == "read":
            continue
        n += 1
        inst = "max-time-writer@%s" % f.name
        asg = node.parent
        while asg is not None and asg.k not in ("BinaryOperator", "CompoundAssignOperator"):
            asg = asg.parent
        if f.name == "termination_on_msg_process":
            # running maximum for every order type
            pts = interp.order_points([0.0, SMAX])
            tkey = "%s->termination_t" % f.params[0]["name"]
            bad = None
            for a0 in pts:
                for m in [p for p in pts if p >= 0]:
                    for b in (0, 1):
                        for o in interp.Interp(f, {COMMITTED: (lambda args, e, b=b: b)}).run({tkey: -1.0, "lps_to_end": 5, f.params[1]["name"]: m, mname.name: a0}):
                            got = o.env.get(mname.name)
                            if got is None or not o.decided:
                                bad = bad or ("inconclusive", "cannot evaluate")
                            elif got < a0 or (b and got < m):
                                bad = ("violated", "maximum %r, event time %r, predicate=%d -> %r" % (a0, m, b, got))
            if bad is None:
                ck.holds("C07.5", inst, asg.where, "%s = max(event time, %s) when the predicate holds, unchanged otherwise" % (mname.name, mname.name), cfg)
            elif bad[0] == "violated":
                ck.violated("C07.5", inst, asg.where, "the maximum termination time can decrease or miss the recorded time: " + bad[1], cfg)
            else:
                ck.inconclusive("C07.5", inst, asg.where, bad[1], cfg)
        elif f.name == "termination_on_gvt":
            v = X.const_float(asg.children[1])
            votes = [a for a in Q.atomics(f) if Q.atomic_kind(a) == "rmw" and "thr_to_end" in X.show(a.children[0])]
            if asg.op == "=" and v == SMAX and votes and (f.cfg.dominates(asg, votes[0]) or f.cfg.dominates(votes[0], asg)):
                ck.holds("C07.5", inst, asg.where, "set to SIMTIME_MAX together with the (single, irrevocable) vote", cfg)
            else:
                ck.violated("C07.5", inst, asg.where, "termination_on_gvt sets the maximum termination time to %s" % X.show(asg.children[1]), cfg)
        else:
            ck.violated("C07.5", inst, asg.where, "%s lowers or rewrites `%s` (%s): LPs of this thread that terminated at later times than the new value are no longer covered, "
                        "and a GVT between the two values lets the thread vote although such an LP can still be rolled back" % (f.name, mname.name, X.show(asg)[:70]), cfg)
    ck.expect("C07.5", n, 2, "writers of the maximum termination time")


# --------------------------------------------------------------------------------------------------------------
def _vote_once(ck, P, cfg):
    """A thread's vote is irrevocable and single: once it has voted because its LPs are done, a later GVT (still below the termination
    time) must not make it vote again -- a second decrement of the vote counter stands for a thread that has NOT voted and the
    termination notice goes out early.  termination_on_gvt is interpreted twice in a row on the state the first call leaves."""
    from .. import interp
    f = P.fn("termination_on_gvt")
    inst = "vote-once@termination_on_gvt"
    roles = _roles(P)
    gname = f.params[0]["name"]

    def votes(o):
        return len([1 for name, a, e in o.calls if e.k == "AtomicExpr" and Q.atomic_kind(e) == "rmw" and Q.atomic_target(e)[1] == "thr_to_end"])
    base = {gname: 10.0, "global_config.termination_time": 1e300, "lps_to_end": 0, "max_t": 5.0}
    stubs = {"mpi_control_msg_broadcast": lambda a, e: 0}
    o1 = interp.Interp(f, stubs=stubs, max_visits=4).run(base)
    o1 = [o for o in o1 if o.how == "exit"]
    if not o1 or any(votes(o) != 1 for o in o1):
        ck.inconclusive("C07.6", inst, f.where, "the voting path could not be evaluated (no LP left, recorded maximum below the GVT): %s" % [votes(o) for o in o1], cfg)
        return
    again = 0
    for o in o1:
        env2 = dict(o.env)
        env2[gname] = 20.0
        o2 = [x for x in interp.Interp(f, stubs=stubs, max_visits=4).run(env2) if x.how == "exit"]
        if not o2:
            ck.inconclusive("C07.6", inst, f.where, "the second call could not be evaluated", cfg)
            return
        again = max(again, max(votes(x) for x in o2))
    if again:
        ck.violated("C07.6", inst, f.where, "a thread that has voted (no LP left, times below the GVT) votes again at the next GVT: the vote counter is decremented twice for one thread, so it reaches the last-voter value while another thread still has LPs to end, and the termination notice is broadcast early", cfg)
    else:
        ck.holds("C07.6", inst, f.where, "after a vote the next call (GVT still below the termination time) does not vote again", cfg)


def _undo_after_rollback(ck, P, cfg):
    sites = P.callers("do_rollback")
    for c in sites:
        f = c.fn
        inst = "undo@%s" % f.name
        undo = list(f.calls("termination_on_lp_rollback"))
        g = f.cfg
        w = g.escapes(g.position(c), {u.id for u in undo}, goal="exit")
        if w and any(g.dominates(u, c) for u in undo):
            w = None        # the undo only touches the LP's marker and the counter: doing it right before the rollback is the same
        if w:
            ck.violated("C07.2", inst, c.where, "a path leaves %s after do_rollback without termination_on_lp_rollback (%s): an LP whose predicate only held on the undone state stays terminated" % (f.name, witness_text(f, w)), cfg)
            continue
        ok = True
        for u in undo:
            a = X.strip(X.callee_args(u)[1])
            if not (a.k == "MemberExpr" and a.name == "dest_t" and a.rec == "lp_msg"):
                ck.violated("C07.2", inst + ":time", u.where, "the undo is given %s, not the timestamp of the message that caused the rollback" % X.show(a), cfg)
                ok = False
        if ok:
            ck.holds("C07.2", inst, c.where, "do_rollback is accompanied on every path by termination_on_lp_rollback(lp, %s)" % ", ".join(X.show(X.callee_args(u)[1]) for u in undo), cfg)
    ck.expect("C07.2", len(sites), 3, "call sites of do_rollback")


# --------------------------------------------------------------------------------------------------------------
REL = {"<": {"<"}, "<=": {"<", "="}, ">": {">"}, ">=": {">", "="}, "==": {"="}, "!=": {"<", ">"}}
FLIPREL = {"<": ">", ">": "<", "=": "="}


_FN = [None]


def _sh(n):
    """Canonical text of an operand, with a single-definition local replaced by its initialiser."""
    m = X.strip(n)
    if _FN[0] is not None and m is not None and m.k == "DeclRefExpr" and m.d.get("sc") == "local":
        r = Q.resolve_local(_FN[0], m)
        if r is not None:
            return X.show(r)
    return X.show(n)


def _atoms(n, pairs, truths):
    n = X.strip(n)
    if n.k == "BinaryOperator" and n.op in ("&&", "||"):
        _atoms(n.children[0], pairs, truths)
        _atoms(n.children[1], pairs, truths)
    elif n.k == "UnaryOperator" and n.op == "!":
        _atoms(n.children[0], pairs, truths)
    elif n.k == "BinaryOperator" and n.op in REL and not X.is_zero(n.children[1]) and not X.is_zero(n.children[0]):
        a, b = _sh(n.children[0]), _sh(n.children[1])
        if (a, b) not in pairs and (b, a) not in pairs:
            pairs.append((a, b))
    else:
        core, neg = X.strip_bool(n)
        t = X.show(core)
        if t not in truths:
            truths.append(t)


def _evalf(n, rel, truth):
    n = X.strip(n)
    if n.k == "BinaryOperator" and n.op == "&&":
        return _evalf(n.children[0], rel, truth) and _evalf(n.children[1], rel, truth)
    if n.k == "BinaryOperator" and n.op == "||":
        return _evalf(n.children[0], rel, truth) or _evalf(n.children[1], rel, truth)
    if n.k == "UnaryOperator" and n.op == "!":
        return not _evalf(n.children[0], rel, truth)
    if n.k == "BinaryOperator" and n.op in REL and not X.is_zero(n.children[1]) and not X.is_zero(n.children[0]):
        a, b = _sh(n.children[0]), _sh(n.children[1])
        r = rel[(a, b)] if (a, b) in rel else FLIPREL[rel[(b, a)]]
        return r in REL[n.op]
    core, neg = X.strip_bool(n)
    return truth[X.show(core)] ^ neg


def _votes(ck, P, cfg):
    f = P.fn("termination_on_gvt")
    gvt = f.params[0]["name"]
    counter = _roles(P)
    votes = [a for a in Q.atomics(f) if Q.atomic_kind(a) == "rmw" and "thr_to_end" in X.show(a.children[0])]
    if len(votes) != 1:
        ck.inconclusive("C07.3", "vote", f.where, "expected one vote RMW on thr_to_end, found %d" % len(votes), cfg)
        return
    v = votes[0]
    _FN[0] = f
    paths, complete = Q.path_conditions(f, v)
    pairs, truths = [], []
    for conds in paths:
        for core, t in conds:
            _atoms(core, pairs, truths)
    if not paths or len(pairs) + len(truths) > 8:
        ck.inconclusive("C07.3", "vote", v.where, "vote condition not recognised", cfg)
        return
    # role of "max recorded termination time": the thread-local double the forward handler maintains
    fm = P.fn("termination_on_msg_process")
    mname = None
    for n in fm.walk():
        if n.k == "BinaryOperator" and n.op == "=":
            t = X.strip(n.children[0])
            if t.k == "DeclRefExpr" and t.d.get("sc") in ("file_static", "global") and t.d.get("tf"):
                mname = t.name
    cn = counter.name if counter is not None else None
    if mname is None or cn is None:
        ck.inconclusive("C07.3", "vote", v.where, "roles of the counter / maximum termination time not recognised", cfg)
        return
    maxt = [p for p in pairs if gvt in p and (mname in p)]
    tt = [p for p in pairs if gvt in p and any("termination_time" in x for x in p)]
    # atoms the guard does not mention are free: the vote does not depend on them
    if not maxt:
        pairs.append((mname, gvt))
        maxt = [pairs[-1]]
    if not tt:
        pairs.append((gvt, "global_config.termination_time"))
        tt = [pairs[-1]]
    if cn not in truths:
        truths.append(cn)
    if len(maxt) != 1 or len(tt) != 1 or len(pairs) + len(truths) > 9:
        ck.inconclusive("C07.3", "vote", v.where, "vote condition not recognised: pairs %s truths %s" % (pairs, truths), cfg)
        return
    bad = None
    n_models = 0
    for rels in itertools.product("<=>", repeat=len(pairs)):
        for tv in itertools.product((False, True), repeat=len(truths)):
            rel = dict(zip(pairs, rels))
            truth = dict(zip(truths, tv))
            n_models += 1
            voted = any(all(_evalf(core, rel, truth) == t for core, t in conds) for conds in paths)
            if not voted:
                continue
            p = maxt[0]
            r_mt = rel[p] if p[0] == mname else FLIPREL[rel[p]]            # relation max_t ? gvt
            q = tt[0]
            r_tt = rel[q] if q[0] == gvt else FLIPREL[rel[q]]              # relation gvt ? termination_time
            legit = (not truth[cn] and r_mt == "<") or (r_tt in ("=", ">"))
            if not legit and bad is None:
                bad = "a thread votes with %s %s, max_t %s GVT, GVT %s termination_time" % (cn, "!= 0" if truth[cn] else "== 0", r_mt, r_tt)
    if bad:
        ck.violated("C07.3", "vote", v.where, bad + ": an LP whose predicate held exactly at (or after) the GVT is not committed yet", cfg)
    else:
        ck.holds("C07.3", "vote", v.where, "over %d models of the guard's atoms: vote implies (%s == 0 and max_t < GVT) or GVT >= termination_time" % (n_models, cn), cfg)


# --------------------------------------------------------------------------------------------------------------
def _broadcast(ck, P, cfg):
    TERM = P.enum_const("MSG_CTRL_TERMINATION")
    n = 0
    for f in P.all_functions():
        for c in f.calls():
            if c.callee not in ("mpi_control_msg_broadcast", "mpi_control_msg_send_to"):
                continue
            a0 = X.callee_args(c)[0]
            if X.const_int(a0) != TERM:
                if X.const_int(a0) is None and f.name != "mpi_control_msg_broadcast":
                    ck.inconclusive("C07.4", "broadcast@%s" % f.name, c.where, "control code is not a constant", cfg)
                continue
            n += 1
            inst = "broadcast@%s" % f.name
            if f.name == "RootsimStop":
                ck.holds("C07.4", inst, c.where, "explicit stop requested by the model", cfg)
                continue
            if f.name != "termination_on_gvt":
                ck.violated("C07.4", inst, c.where, "%s broadcasts the termination message; only the last voter and RootsimStop may" % f.name, cfg)
                continue
            votes = [a for a in Q.atomics(f) if Q.atomic_kind(a) == "rmw" and "thr_to_end" in X.show(a.children[0])]
            ok = False
            detail = "no vote RMW"
            if len(votes) == 1:
                kind, dst = Q.result_var(votes[0])
                op = Q.RMW_OPS[votes[0].aop]
                step = X.const_int(votes[0].children[1])
                paths, _ = Q.path_conditions(f, c, start_block=f.cfg.position(votes[0])[0])

                def is_vote(n):
                    n = Q.resolve_local(f, n)
                    return n is votes[0] or (n.k == "DeclRefExpr" and kind == "var" and n.did == dst.did)

                def last_voter(core, t, depth=0):
                    """core (with truth t) says: the vote RMW returned 1"""
                    core = X.strip(core)
                    if depth > 4 or core is None:
                        return False
                    if core.k == "UnaryOperator" and core.op == "!":
                        return last_voter(core.children[0], not t, depth + 1)
                    if core.k == "DeclRefExpr" and core.d.get("sc") == "local":
                        r = Q.resolve_local(f, core)
                        return r is not core and not (r.k == "DeclRefExpr" and r.did == core.did) and last_voter(r, t, depth + 1)
                    if core.k == "BinaryOperator" and core.op in ("==", "!="):
                        l, r = X.strip(core.children[0]), X.strip(core.children[1])
                        want = t if core.op == "==" else (not t)
                        for a_, b_ in ((l, r), (r, l)):
                            if is_vote(a_) and X.const_int(b_) == 1 and op == "sub" and step == 1:
                                return want
                    return False
                if paths:
                    ok = True
                    for conds in paths:
                        hit = False
                        for core, t in conds:
                            if last_voter(core, t):
                                hit = True
                        if not hit:
                            ok = False
                            detail = "a path broadcasts under [%s]" % ", ".join("%s=%s" % (X.show(cc), t) for cc, t in conds)
            if ok:
                ck.holds("C07.4", inst, c.where, "broadcast only when the vote fetch_sub returned 1 (the last voter of this rank)", cfg)
            else:
                ck.violated("C07.4", inst, c.where, "the termination broadcast is not restricted to the last voter (%s): a rank would announce its end while some of its threads still have unterminated LPs" % detail, cfg)
    ck.expect("C07.4", n, 2, "termination broadcast sites")
    # nodes_to_end writers
    for f, node, kind in Q.global_accesses(P, "nodes_to_end"):
        inst = "nodes_to_end:%s:%s" % (f.name, kind)
        if kind in ("atomic-load", "read"):
            continue
        if (f.name, kind) in (("termination_global_init", "atomic-store"), ("termination_on_ctrl_msg", "atomic-rmw")):
            ck.holds("C07.4", inst, node.where, "permitted writer", cfg)
        else:
            ck.violated("C07.4", inst, node.where, "%s performs %s on nodes_to_end" % (f.name, kind), cfg)
    # handler decrements by one
    h = P.fn("termination_on_ctrl_msg")
    rm = [a for a in Q.atomics(h) if Q.atomic_kind(a) == "rmw"]
    if len(rm) == 1 and Q.RMW_OPS[rm[0].aop] == "sub" and X.const_int(rm[0].children[1]) == 1:
        ck.holds("C07.4", "ctrl-msg-decrement", rm[0].where, "one termination message = one rank done", cfg)
    else:
        ck.violated("C07.4", "ctrl-msg-decrement", h.where, "the termination control message does not decrement the node counter by exactly one", cfg)
    # worker loop re-reads the counter
    w = P.fn("parallel_thread_run")
    loops = [l for l in w.walk() if l.k == "WhileStmt" and not l.macros]
    okl = False
    for l in loops:
        cond = l.children[-2] if len(l.children) >= 2 else None
        for c in l.children:
            if c.k == "CompoundStmt":
                continue
            if any(x.k == "AtomicExpr" and Q.atomic_kind(x) == "load" and "nodes_to_end" in X.show(x.children[0]) for x in c.walk()):
                if any(True for _ in l.walk() if _.k == "CallExpr" and _.callee == "process_msg"):
                    okl = True
                    ck.holds("C07.4", "worker-loop-condition", l.where, "loop condition is an atomic load of nodes_to_end", cfg)
    if not okl:
        ck.violated("C07.4", "worker-loop-condition", w.where, "the worker loop does not re-read nodes_to_end atomically in its condition", cfg)
