"""C20 — statistics output is well-formed and consistent: structural clauses (C writer vs Python reader, counters)."""
import ast
import os
import struct

from .. import rules_cover
from .. import expr as X
from .. import query as Q
from .. import facts
from ..cfg import witness_text

PARSER = "src/log/parse/rootsim_stats.py"
DISPATCH = "global_config.dispatcher"


def run(ck, progs):
    ck.not_decided = "numeric truth of the timing fields and of the memory figures; monotonicity of the recorded GVT values (that is C04)"
    ck.rule("C20.1", "writer/reader agreement: record sizes, divisors and multipliers, the magic constant and its byte swap, and the order of the "
                     "fixed-size records written by stats_file_final_write agree with the unpack formats of the shipped Python parser")
    ck.rule("C20.2", "every per-thread counter kind below STATS_COUNT has a name")
    ck.rule("C20.3", "one bump per event: processed per forward dispatch, silent per silent dispatch, checkpoint per checkpoint taken, rollback "
                     "per do_rollback, rolled-back per undone entry, anti per cancelled send")
    ck.rule("C20.4", "counters are thread-local; stats_on_gvt writes the record and only then zeroes it; the auto-checkpoint reader runs before that")
    ck.rule("C20.5", "no completed GVT round is swallowed: every call site of gvt_phase_run forwards a non-zero result to the per-round consumers "
                     "(which write one record per thread) or lies after the shutdown barrier, where all threads run the same rounds")
    ck.rule("C20.6", "multi-rank transfer: rank 0 expects from every other rank exactly the buffers that rank sends (global record, node "
                     "records, one block per thread) and writes them in the layout of its own records")
    ck.rule("C20.7", "as many node records as thread records on every rank: in stats_on_gvt the per-thread record is written whenever a statistics "
                     "file was requested and the node record under that same condition by the thread elected with `rid` — neither depends on the "
                     "rank, the GVT value or the log level")
    ck.rule("C20.8", "every thread's records reach the file: each loop over the per-thread temporary files (final write, transfer to rank 0, "
                     "creation, closing) visits every thread 0..n-1 (loop header evaluated for 1..8 threads)")
    for cfg, P in progs.items():
        _transfer(ck, P, cfg)
        _parity(ck, P, cfg)
        _node_record_value(ck, P, cfg)
        _loops(ck, P, cfg)
        rules_cover.check_array_loops(ck, P, "C20.8", "log/stats.c", "stats_tmps", "global_config.n_threads", 3, "thread")
        _reader_writer(ck, P, cfg)
        _names(ck, P, cfg)
        _bumps(ck, P, cfg)
        _flush(ck, P, cfg)
        _rounds(ck, P, cfg)


# --------------------------------------------------------------------------------------------------------------
class PyFacts(ast.NodeVisitor):
    """Formats handed to _pattern_unpack, in call order per method; integer literals used as divisors / multipliers; magic numbers."""

    def __init__(self, tree):
        self.formats = {}        # method -> [format string or '{}s' / '{}Q' templates]
        self.divisors = {}       # method -> [ints used with //]
        self.mults = {}
        self.magics = []
        self.cur = None
        self.visit(tree)

    def visit_FunctionDef(self, n):
        prev, self.cur = self.cur, n.name
        self.generic_visit(n)
        self.cur = prev

    def visit_Call(self, n):
        if isinstance(n.func, ast.Attribute) and n.func.attr == "_pattern_unpack" and n.args:
            a = n.args[0]
            fmt = None
            if isinstance(a, ast.Constant) and isinstance(a.value, str):
                fmt = a.value
            elif isinstance(a, ast.JoinedStr):
                fmt = "".join(v.value if isinstance(v, ast.Constant) else "{}" for v in a.values)
            elif isinstance(a, ast.Name):
                fmt = "$" + a.id
            self.formats.setdefault(self.cur, []).append(fmt)
        self.generic_visit(n)

    def visit_BinOp(self, n):
        if isinstance(n.op, ast.FloorDiv) and isinstance(n.right, ast.Constant):
            self.divisors.setdefault(self.cur, []).append(n.right.value)
        if isinstance(n.op, ast.FloorDiv) and isinstance(n.right, ast.BinOp) and isinstance(n.right.op, ast.Mult):
            for side in (n.right.left, n.right.right):
                if isinstance(side, ast.Constant):
                    self.mults.setdefault(self.cur, []).append(side.value)
        if isinstance(n.op, ast.Add) and isinstance(n.right, ast.Constant) and isinstance(n.right.value, str):
            # str(metrics_len) + "Q"
            self.formats.setdefault(self.cur, []).append("{}" + n.right.value)
        self.generic_visit(n)

    def visit_Compare(self, n):
        for c in [n.left] + list(n.comparators):
            if isinstance(c, ast.Constant) and isinstance(c.value, int) and c.value > 255:
                self.magics.append(c.value)
        self.generic_visit(n)


def _reader_writer(ck, P, cfg):
    path = os.path.join(facts.REPO if not hasattr(P, "repo_root") else P.repo_root, PARSER)
    # the parser of the tree that is being analysed (for mutated scratch copies the facts dir records the root in its compile database)
    root = _repo_root_of(P)
    path = os.path.join(root, PARSER)
    if not os.path.exists(path):
        raise facts.AnalysisBroken("anchor vanished: %s" % PARSER)
    py = PyFacts(ast.parse(open(path).read()))
    sg = P.record("stats_global")["size"]
    sn = P.record("stats_node")["size"]
    st = P.record("stats_thread")["size"]
    nstats = P.enum_const("STATS_COUNT")
    where = PARSER
    # global record
    glob = [f for f in py.formats.get("_nodes_stats_load", []) if f and f.endswith("Q") and f[:-1].isdigit()]
    if len(glob) == 1 and struct.calcsize("<" + glob[0]) == sg:
        ck.holds("C20.1", "size:stats_global", where, "sizeof(struct stats_global) = %d = calcsize(%r)" % (sg, glob[0]), cfg)
    else:
        ck.violated("C20.1", "size:stats_global", where, "the writer emits %d bytes of global statistics per node, the parser unpacks %s: every following field is read at the wrong offset" % (sg, glob), cfg)
    node = [f for f in py.formats.get("_nodes_stats_load", []) if f and not f[:-1].isdigit() and f not in ("q",) and "{" not in f and not f.startswith("$")]
    divs = py.divisors.get("_nodes_stats_load", [])
    if len(node) == 1 and struct.calcsize("<" + node[0]) == sn and divs == [sn]:
        ck.holds("C20.1", "size:stats_node", where, "sizeof(struct stats_node) = %d = calcsize(%r) = the parser's divisor" % (sn, node[0]), cfg)
    else:
        ck.violated("C20.1", "size:stats_node", where, "per-GVT node record: writer %d bytes, parser format %s (%s bytes), divisor %s" % (sn, node, [struct.calcsize("<" + x) for x in node], divs), cfg)
    # field order of the node record: (double gvt, uint64 rss)
    fields = [(f["name"], f["type"]) for f in P.record("stats_node")["fields"]]
    want = "".join("d" if "simtime" in t or t == "double" else "Q" for _, t in fields)
    if node and node[0] == want:
        ck.holds("C20.1", "order:stats_node", where, "struct stats_node fields %s match %r" % ([n for n, _ in fields], want), cfg)
    else:
        ck.violated("C20.1", "order:stats_node", where, "struct stats_node is %s but the parser unpacks %s: GVT and memory figures are swapped or mis-typed" % (fields, node), cfg)
    mult = py.mults.get("_threads_unpack", [])
    if mult == [st // nstats] and st == 8 * nstats:
        ck.holds("C20.1", "size:stats_thread", where, "per-thread record = %d counters x %d bytes; parser divides by (metrics * %d)" % (nstats, st // nstats, mult[0]), cfg)
    else:
        ck.violated("C20.1", "size:stats_thread", where, "per-thread record is %d bytes for %d counters but the parser assumes %s bytes per counter" % (st, nstats, mult), cfg)
    # magic constant
    w = P.fn("stats_file_final_write")
    mag = [v for v in w.walk() if v.k == "VarDecl" and v.children and v.d.get("ti") == [16, 0]]
    mval = X.const_int(mag[0].children[0]) if mag else None
    swapped = ((mval & 0xFF) << 8 | (mval >> 8)) if mval is not None else None
    if mval is not None and set(py.magics) == {mval, swapped}:
        ck.holds("C20.1", "magic", mag[0].where, "endianness marker %d; parser accepts {%d, %d}" % (mval, mval, swapped), cfg)
    else:
        ck.violated("C20.1", "magic", w.where, "writer marker %s, parser accepts %s" % (mval, sorted(set(py.magics))), cfg)
    # order of the fixed-size records outside loops
    g = w.cfg
    seq = []
    for c in w.calls("file_write_chunk"):
        inloop = any(a.k in ("ForStmt", "WhileStmt", "DoStmt") for a in c.ancestors())
        size = X.const_int(X.callee_args(c)[2])
        seq.append((g.position(c), inloop, size, c))
    order = sorted(seq, key=lambda s: (-s[0][0], s[0][1]))     # clang numbers blocks in reverse; good enough inside one function body
    seq = sorted(seq, key=lambda s: s[3].line)
    top = [s[2] for s in seq if not s[1]]
    names_loop = [s[2] for s in seq if s[1]][:2]
    py_top = []
    for m in ("__init__", "_metric_names_load", "_nodes_stats_load"):
        fs = py.formats.get(m, [])
        if m == "__init__":
            py_top += [struct.calcsize("<" + f) for f in fs if f and "{" not in f and not f.startswith("$")][:1]
        elif m == "_metric_names_load":
            py_top += [struct.calcsize("<" + fs[0])] if fs else []
        else:
            for f in fs:
                if f in node:
                    break
                if f and "{" not in f and not f.startswith("$"):
                    py_top.append(struct.calcsize("<" + f))
    c_top = [x for x in top if x is not None]
    if c_top[:len(py_top)] == py_top and len(py_top) >= 5:
        ck.holds("C20.1", "order:header", w.where, "fixed-size records in order: writer %s, parser %s (marker, counter count, node count, global record, size prefix)" % (c_top[:len(py_top)], py_top), cfg)
    else:
        ck.violated("C20.1", "order:header", w.where, "the writer emits fixed-size records %s but the parser reads %s" % (c_top, py_top), cfg)
    nl = py.formats.get("_metric_names_load", [])
    if names_loop == [1, None] and nl[1:] == ["B", "{}s"]:
        ck.holds("C20.1", "order:names", w.where, "per name: one length byte, then that many characters", cfg)
    else:
        ck.violated("C20.1", "order:names", w.where, "metric names are written as %s but read as %s" % (names_loop, nl[1:]), cfg)
    # size prefixes are 8 bytes ('q')
    pref = [s for s in seq if s[2] == 8 and "size" in X.show(X.callee_args(s[3])[1])]
    if len(pref) >= 2 and py.formats.get("_threads_unpack", [None])[0] == "q":
        ck.holds("C20.1", "size-prefix", pref[0][3].where, "each record block is preceded by its int64 byte count, read with 'q'", cfg)
    else:
        ck.violated("C20.1", "size-prefix", w.where, "record blocks are not prefixed by an int64 byte count the way the parser expects", cfg)


def _repo_root_of(P):
    # every function remembers the unit path relative to the analysed root; the compile database lives next to the facts
    return getattr(P, "root", None) or facts.REPO


def _names(ck, P, cfg):
    n = P.enum_const("STATS_COUNT")
    g = [x for x in P.globals.get("stats_names", []) if x.get("def") and "init_fn" in x]
    if not g:
        ck.inconclusive("C20.2", "names", "", "stats_names not found", cfg)
        return
    root = g[0]["init_fn"].root
    entries = root.children
    missing = [i for i, e in enumerate(entries) if X.strip(e).k != "StringLiteral"]
    where = "%s:%s" % (g[0]["file"], g[0].get("l"))
    if len(entries) >= n and not [i for i in missing if i < n] and not root.d.get("filler"):
        ck.holds("C20.2", "names", where, "stats_names[] has a string for each of the %d counter kinds" % n, cfg)
    else:
        names = {v: k for k, v in P.enum("stats_thread_type").items()}
        lack = [names.get(i, i) for i in range(n) if i >= len(entries) or i in missing]
        ck.violated("C20.2", "names", where, "counter kind(s) %s have no name: stats_file_final_write passes NULL to strnlen" % lack, cfg)


# --------------------------------------------------------------------------------------------------------------
def _takes(f, P, kind):
    v = P.enum_const(kind)
    return [c for c in f.calls("stats_take") if X.const_int(X.callee_args(c)[0]) == v]


def _paired(f, ev, bump, scope=None):
    """ev and bump are executed the same number of times: one dominates the other and every path from the first to the
    end of the iteration / function passes the second; with `scope` a loop, the end of the iteration is its head."""
    g = f.cfg
    first, second = (ev, bump) if g.dominates(ev, bump) else ((bump, ev) if g.dominates(bump, ev) else (None, None))
    if first is None:
        return False, "neither dominates the other"
    goal_ids = set()
    if scope is not None:
        be, condB = Q.loop_body_entry(f, scope)
        if condB is not None:
            goal_ids = {e.id for e in condB.elems}
    w = g.escapes(g.position(first), {second.id}, goal="exit", goal_ids=goal_ids)
    if w:
        return False, "a path passes one without the other (%s)" % witness_text(f, w)
    return True, ""


def _bumps(ck, P, cfg):
    def inner_loop(n):
        a = n
        while a is not None and not (a.k in ("WhileStmt", "DoStmt", "ForStmt") and not a.macros):
            a = a.parent
        return a

    specs = []
    f = P.fn("common_msg_process")
    d = [c for c in f.walk() if c.k == "CallExpr" and not c.callee and X.show(c.children[0]) == DISPATCH]
    specs.append(("STATS_MSG_PROCESSED", f, d, "forward dispatch"))
    f = P.fn("silent_execution")
    d = [c for c in f.walk() if c.k == "CallExpr" and not c.callee and X.show(c.children[0]) == DISPATCH]
    if not d:
        # the dispatch (and its bump) may have been moved into a helper that only silent_execution calls
        from ..rules_rollback import dispatch_points
        via = [x for x in dispatch_points(P, f, DISPATCH) if x[2] is not None]
        if len(via) == 1 and _takes(via[0][2], P, "STATS_MSG_SILENT"):
            f, d = via[0][2], [via[0][1]]
    specs.append(("STATS_MSG_SILENT", f, d, "silent dispatch"))
    f = P.fn("checkpoint_take")
    specs.append(("STATS_CKPT", f, list(f.calls("model_allocator_checkpoint_take")), "checkpoint taken"))
    f = P.fn("do_rollback")
    specs.append(("STATS_ROLLBACK", f, list(f.calls("send_anti_messages")), "rollback"))
    f = P.fn("send_anti_messages")
    from ..rules_msg import flag_rmws
    rm = flag_rmws(f, P)
    specs.append(("STATS_MSG_ROLLBACK", f, [a for a, eff, _ in rm if eff == "-PROCESSED"], "undone entry"))
    specs.append(("STATS_MSG_ANTI", f, None, "cancelled send"))
    n = 0
    for kind, f, evs, what in specs:
        inst = "bump:%s" % kind
        takes = _takes(f, P, kind)
        if len(takes) != 1 or X.const_int(X.callee_args(takes[0])[1]) != 1:
            ck.violated("C20.3", inst, f.where, "%s must be bumped by exactly 1 at exactly one site of %s (found %d sites)" % (kind, f.name, len(takes)), cfg)
            continue
        t = takes[0]
        n += 1
        if kind == "STATS_MSG_ANTI":
            # once per iteration of the loop over the sent entries: both cancellation branches reach it
            lp = inner_loop(t)
            cancels = [c for c in f.calls() if c.callee in ("mpi_remote_anti_msg_send",)] + [a for a, eff, _ in rm if eff == "+ANTI"]
            ok = lp is not None and all(inner_loop(c) is lp for c in cancels) and len(cancels) == 2
            if ok:
                for c in cancels:
                    good, why = _paired(f, c, t, lp) if f.cfg.dominates(c, t) else (False, "bump does not follow the cancellation")
                    g = f.cfg
                    w = g.escapes(g.position(c), {t.id}, goal="exit", goal_ids={e.id for e in Q.loop_body_entry(f, lp)[1].elems})
                    if w:
                        ok = False
            if ok:
                ck.holds("C20.3", inst, t.where, "once per cancelled send (local and remote branch)", cfg)
            else:
                ck.violated("C20.3", inst, t.where, "anti-message counter is not bumped exactly once per cancelled send", cfg)
            continue
        if len(evs) != 1:
            ck.inconclusive("C20.3", inst, f.where, "event site for '%s' not recognised (%d candidates)" % (what, len(evs)), cfg)
            continue
        scope = inner_loop(t)
        same_loop = inner_loop(evs[0]) is scope
        good, why = _paired(f, evs[0], t, scope if same_loop else None)
        if good and same_loop:
            ck.holds("C20.3", inst, t.where, "bumped once per %s" % what, cfg)
        else:
            ck.violated("C20.3", inst, t.where, "%s is not bumped exactly once per %s: %s" % (kind, what, why or "bump and event are in different loops"), cfg)
    ck.expect("C20.3", n, 6, "counter bump sites")
    # other bump sites of the same kinds elsewhere
    for kind in ("STATS_MSG_PROCESSED", "STATS_MSG_SILENT", "STATS_CKPT", "STATS_ROLLBACK", "STATS_MSG_ROLLBACK", "STATS_MSG_ANTI"):
        v = P.enum_const(kind)
        sites = [c for c in P.callers("stats_take") if X.const_int(X.callee_args(c)[0]) == v and c.fn.file.startswith("src/")]
        if len(sites) != 1:
            ck.violated("C20.3", "bump-sites:%s" % kind, sites[-1].where if sites else "", "%s is bumped at %d sites; each occurrence must be counted once" % (kind, len(sites)), cfg)


def _flush(ck, P, cfg):
    g = [x for x in P.globals.get("stats_cur", []) if x.get("def")]
    if g and g[0].get("tls"):
        ck.holds("C20.4", "thread-local", "%s:%s" % (g[0]["file"], g[0].get("l")), "stats_cur is thread-local", cfg)
    else:
        ck.violated("C20.4", "thread-local", "%s:%s" % (g[0]["file"], g[0].get("l")) if g else "", "the per-thread counters are shared between threads", cfg)
    f = P.fn("stats_on_gvt")
    wr = [c for c in f.calls("file_write_chunk") if "stats_cur" in X.show(X.callee_args(c)[1])]
    zr = [c for c in f.calls() if c.callee in ("memset", "__builtin_memset", "__builtin___memset_chk") and "stats_cur" in X.show(X.callee_args(c)[0])]
    if len(wr) == 1 and len(zr) == 1 and f.cfg.dominates(wr[0], zr[0]) and X.const_int(X.callee_args(wr[0])[2]) == P.record("stats_thread")["size"] and "rid" in X.show(Q.resolve_local(f, X.callee_args(wr[0])[0])):
        ck.holds("C20.4", "flush-then-zero", wr[0].where, "the whole record is written to this thread's file, then zeroed", cfg)
    else:
        ck.violated("C20.4", "flush-then-zero", f.where, "stats_on_gvt does not write the whole per-thread record before zeroing it", cfg)
    w = P.fn("parallel_thread_run")
    for cand in Q.with_helpers(P, w):
        if list(cand.calls("auto_ckpt_on_gvt")) and list(cand.calls("stats_on_gvt")):
            w = cand
    a = list(w.calls("auto_ckpt_on_gvt"))
    s = list(w.calls("stats_on_gvt"))
    if len(a) == 1 and len(s) == 1 and w.cfg.dominates(a[0], s[0]):
        ck.holds("C20.4", "reader-before-zero", a[0].where, "auto_ckpt_on_gvt reads the counters before stats_on_gvt zeroes them", cfg)
    else:
        ck.violated("C20.4", "reader-before-zero", w.where, "the auto-checkpoint code reads the counters after they were zeroed", cfg)
    # node record written by one thread only
    nd = [c for c in f.calls("file_write_chunk") if "node" in X.show(X.callee_args(c)[0])]
    if len(nd) == 1:
        paths, _ = Q.path_conditions(f, nd[0])
        one = all(any((X.show(core) == "rid" and t is False) or ("rid" in X.show(core) and X.strip(core).k == "BinaryOperator" and X.strip(core).op == "!=" and t is False) for core, t in conds) for conds in paths)
        if one:
            ck.holds("C20.4", "node-record-once", nd[0].where, "the node record of a round is written by thread 0 only", cfg)
        else:
            ck.violated("C20.4", "node-record-once", nd[0].where, "several threads write the node record of one round", cfg)


def _dep_names(f, core):
    """Names of the globals / fields a branch condition reads, with local temporaries resolved to their single definition."""
    out = set()
    todo = [core]
    seen = set()
    while todo:
        n = todo.pop()
        for x in n.walk():
            if x.k == "DeclRefExpr" and x.d.get("sc") == "local" and x.did not in seen:
                seen.add(x.did)
                r = Q.resolve_local(f, x)
                if r is not None and r is not x and not (r.k == "DeclRefExpr" and r.did == x.did):
                    todo.append(r)
                else:
                    out.add("local:" + x.name)
            elif x.k == "DeclRefExpr" and x.d.get("dk") == "var" and x.d.get("sc") != "local":
                out.add(x.name)
            elif x.k == "MemberExpr":
                out.add(x.name)
    return out


def _parity(ck, P, cfg):
    f0 = P.fn("stats_on_gvt")
    fam = Q.with_helpers(P, f0)
    wr = [(g, c) for g in fam for c in g.calls("file_write_chunk") if "stats_cur" in X.show(X.callee_args(c)[1])]
    nd = [(g, c) for g in fam for c in g.calls("file_write_chunk") if "node" in X.show(X.callee_args(c)[0])]
    ck.expect("C20.7", len(wr) + len(nd), 2, "record writes in stats_on_gvt")
    for inst, calls, allowed, what in (("thread-record-always", wr, {"global_config", "stats_file"}, "the per-thread record"),
                                       ("node-record-per-rank", nd, {"global_config", "stats_file", "rid"}, "the node record")):
        for f, c in calls:
            extra = None
            deciders = [(f, core) for core, B in Q.deciding_branches(f, c)]
            if f is not f0:
                # written in a helper extracted from stats_on_gvt: what decides the helper's call decides the write
                for hc in f0.calls(f.name):
                    deciders += [(f0, core) for core, B in Q.deciding_branches(f0, hc)]
            for df, core in deciders:
                names = _dep_names(df, core)
                if names - allowed:
                    extra = (core, sorted(names - allowed))
            if extra:
                ck.violated("C20.7", inst, extra[0].where, "%s of a round is written only if `%s` (depends on %s): ranks or rounds for which it is skipped end up with fewer "
                            "of these records than the other kind, and the file no longer parses" % (what, X.show(extra[0])[:80], ", ".join(extra[1])), cfg)
            else:
                ck.holds("C20.7", inst, c.where, "%s is written on every rank in every round a statistics file was requested%s" % (what, " (by the thread with rid 0)" if "rid" in allowed else ""), cfg)


def _node_record_value(ck, P, cfg):
    """The node record of a round carries that round's GVT (the file 'lists non-decreasing GVT values')."""
    f = P.fn("stats_on_gvt")
    for cand in Q.with_helpers(P, f):
        if any(v.k == "VarDecl" and "stats_node" in (v.t or "") and v.sc == "local" for v in cand.walk()):
            f = cand
    inst = "node-record-gvt"
    par = f.params[0]["name"] if f.params else None
    rec = P.record("stats_node")
    names = [x["name"] for x in rec["fields"]] if rec else []
    decls = [v for v in f.walk() if v.k == "VarDecl" and "stats_node" in (v.t or "") and v.sc == "local"]
    if len(decls) != 1 or "gvt" not in names or par is None:
        ck.inconclusive("C20.7", inst, f.where, "node record variable not recognised", cfg)
        return
    v = decls[0]
    val = None
    if v.children and v.children[-1].k == "InitListExpr":
        kids = v.children[-1].children
        i = names.index("gvt")
        if i < len(kids):
            val = X.strip(kids[i])
    for a in f.walk():
        if a.k == "BinaryOperator" and a.op == "=" and X.show(X.strip(a.children[0])) == "%s.gvt" % v.name:
            val = X.strip(a.children[1])
    if val is not None and val.k == "DeclRefExpr" and val.name == par:
        ck.holds("C20.7", inst, v.where, "the record's gvt field is the value stats_on_gvt was called with", cfg)
    else:
        ck.violated("C20.7", inst, v.where, "the node record's gvt field is %s, not the GVT of the round: the file no longer lists the GVT values" % ("`%s`" % X.show(val) if val is not None and val.k != "ImplicitValueInitExpr" else "left zero"), cfg)


def _loops(ck, P, cfg):
    """Counted loops of the writer whose range the reader relies on."""
    from .. import rules_cover
    # (a) one name record per counter kind: the loop over stats_names covers 0 .. STATS_COUNT-1
    f = P.fn("stats_file_final_write")
    cnt = P.enum_const("STATS_COUNT")
    inst = "names-loop"
    loops = [l for l in f.walk() if l.k == "ForStmt" and any(x.k == "DeclRefExpr" and x.name == "stats_names" for x in l.children[4].walk())]
    if len(loops) != 1 or cnt is None:
        ck.inconclusive("C20.8", inst, f.where, "loop over the counter names not recognised", cfg)
    else:
        iv = [x for x in loops[0].children[0].walk() if x.k == "VarDecl"]
        got = rules_cover.for_indices(loops[0], iv[0].name, {}, limit=cnt + 8) if iv else None
        if got is None:
            ck.inconclusive("C20.8", inst, loops[0].where, "loop header not evaluable", cfg)
        elif got == "runaway" or sorted(got) != list(range(cnt)):
            ck.violated("C20.8", inst, loops[0].where, "the header announces %d counter names but the loop writes %s of them: every later field of the file is read at the wrong offset"
                        % (cnt, "more than %d" % cnt if got == "runaway" else len(got)), cfg)
        else:
            ck.holds("C20.8", inst, loops[0].where, "one name record for each of the %d counter kinds announced" % cnt, cfg)
    # (b) rank 0 receives the blocks of every other rank 1 .. n_nodes-1
    f = P.fn("stats_files_receive")
    inst = "every-other-rank@stats_files_receive"
    loops = [l for l in f.walk() if l.k == "ForStmt" and l.parent is not None and l.parent.k == "CompoundStmt" and l.parent.parent is None or (l.k == "ForStmt" and any(c.callee == "mpi_blocking_data_rcv" for c in l.children[4].walk() if c.k == "CallExpr") and not any(o is not l and o.k == "ForStmt" and l.is_inside(o) for o in f.walk()))]
    loops = [l for l in loops if l.k == "ForStmt"]
    if len(loops) != 1:
        ck.inconclusive("C20.8", inst, f.where, "loop over the sending ranks not recognised", cfg)
    else:
        iv = [x for x in loops[0].children[0].walk() if x.k == "VarDecl"]
        bad = None
        unknown = False
        for n in range(1, 9):
            got = rules_cover.for_indices(loops[0], iv[0].name, {"n_nodes": n}) if iv else None
            if got is None:
                unknown = True
                break
            if got == "runaway" or sorted(got) != list(range(1, n)):
                bad = bad or (n, got)
        if unknown:
            ck.inconclusive("C20.8", inst, loops[0].where, "loop header not evaluable", cfg)
        elif bad:
            ck.violated("C20.8", inst, loops[0].where, "with %d ranks rank 0 collects the statistics of ranks %s: the file announces %d nodes but holds fewer, and the ranks left out block in their send" % (bad[0], bad[1], bad[0]), cfg)
        else:
            ck.holds("C20.8", inst, loops[0].where, "for 1..8 ranks rank 0 collects from every rank 1..n-1", cfg)
    # (c) each thread opens ITS slot of the temporary-file table
    f = P.fn("stats_init")
    inst = "own-slot@stats_init"
    st = [a for a in f.walk() if a.k == "BinaryOperator" and a.op == "=" and X.strip(a.children[0]).k == "ArraySubscriptExpr" and "stats_tmps" in X.show(a.children[0])]
    if len(st) != 1:
        ck.inconclusive("C20.8", inst, f.where, "store into the temporary-file table not recognised", cfg)
    elif X.show(X.strip(X.strip(st[0].children[0]).children[1])) == "rid":
        ck.holds("C20.8", inst, st[0].where, "stats_tmps[rid] = the thread's own temporary file", cfg)
    else:
        ck.violated("C20.8", inst, st[0].where, "the temporary file is stored in slot `%s`, not in the thread's own slot: the threads share (or never get) a file" % X.show(X.strip(st[0].children[0]).children[1]), cfg)


def _rounds(ck, P, cfg):
    sites = [c for c in P.callers("gvt_phase_run") if c.fn.file.startswith("src/")]
    n = 0
    for c in sites:
        f = c.fn
        n += 1
        kind, dst = Q.result_var(c)
        g = f.cfg
        label = "%s:%s" % (f.name, "worker-loop" if f.name == "parallel_thread_run" else ("pre-barrier-flush" if not any(g.dominates(b, c) for b in f.calls("sync_thread_barrier")) else "post-barrier-rounds"))
        inst = "swallowed-round@%s" % label
        if f.name == "parallel_thread_run":
            direct = kind == "var" and any(X.show(X.callee_args(s)[0]) == dst.name for s in f.calls("stats_on_gvt"))
            through = False
            for h in Q.with_helpers(P, f)[1:]:
                if len(h.params) == 1 and any(X.show(X.callee_args(s2)[0]) == h.params[0]["name"] for s2 in h.calls("stats_on_gvt")):
                    if kind == "var" and any(X.callee_args(c2) and X.show(X.callee_args(c2)[0]) == dst.name for c2 in f.calls(h.name)):
                        through = True
            if direct or through:
                ck.holds("C20.5", inst, c.where, "result forwarded to stats_on_gvt (one record per thread per round)", cfg)
            else:
                ck.violated("C20.5", inst, c.where, "the worker loop does not hand completed rounds to stats_on_gvt", cfg)
            continue
        after_barrier = any(g.dominates(b, c) for b in f.calls("sync_thread_barrier"))
        if after_barrier:
            ck.holds("C20.5", inst, c.where, "after the shutdown barrier every thread runs the same flushing rounds; none writes a record for them", cfg)
        else:
            fw = [s for s in f.calls("stats_on_gvt") if kind == "var" and any(dst.name in X.show(a) for a in X.callee_args(s))]
            forwards = bool(fw)
            # the value must be looked at before the next call overwrites it: no path from the call back to itself that
            # avoids the test of its result
            tests = [B.cond for B in g.blocks.values() if B.cond is not None and kind == "var" and any(x.k == "DeclRefExpr" and x.name == dst.name for x in B.cond.walk())]
            overwritten = forwards and g.escapes(g.position(c), {t.id for t in tests} | {s.id for s in fw}, goal="none", goal_ids={c.id})
            if forwards and overwritten:
                ck.violated("C20.5", inst, c.where, "the result of gvt_phase_run is overwritten by the next call before it is looked at (it is forwarded only after the loop): the call that "
                            "completes a round returns its value one step before the automaton goes idle, the last call returns 0, so the completed round is never logged by this thread", cfg)
            elif forwards:
                ck.holds("C20.5", inst, c.where, "result forwarded", cfg)
            else:
                ck.violated("C20.5", inst, c.where, "a thread that leaves the worker loop in the middle of a GVT round completes that round here and discards its value, while the threads "
                            "that complete the same round inside their worker loop write a record for it: per-thread record counts of the statistics file differ by one", cfg)
    ck.expect("C20.5", n, 3, "call sites of gvt_phase_run")


def _transfer(ck, P, cfg):
    snd, rcv = P.fn("stats_files_send"), P.fn("stats_files_receive")
    sends = list(snd.calls("mpi_blocking_data_send"))
    in_loop = [c for c in sends if any(a.k in ("ForStmt", "WhileStmt") for a in c.ancestors())]
    flat = [c for c in sends if c not in in_loop]
    loop_bound = None
    for c in in_loop:
        lp = next(a for a in c.ancestors() if a.k in ("ForStmt", "WhileStmt"))
        cond = X.strip(lp.children[2]) if lp.k == "ForStmt" else None
        if cond is not None and cond.k == "BinaryOperator" and cond.op == "<":
            loop_bound = X.show(cond.children[1])
    recvs = list(rcv.calls("mpi_blocking_data_rcv"))
    r_loop = [c for c in recvs if sum(1 for a in c.ancestors() if a.k in ("ForStmt", "WhileStmt")) >= 2]
    r_flat = [c for c in recvs if c not in r_loop]
    iters = None
    for v in rcv.walk():
        if v.k == "VarDecl" and v.name == "iters" and v.children:
            iters = X.show(v.children[0])
    inst = "transfer-count"
    if len(flat) == 2 and len(in_loop) == 1 and loop_bound == "global_config.n_threads" and "stats_glob_cur" in X.show(X.callee_args(flat[0])[0]):
        # sender: global record, node block, then n_threads blocks
        if len(r_flat) == 1 and len(r_loop) == 1 and iters == "(sg_p->threads_count + 1)":
            ck.holds("C20.6", inst, rcv.where, "sender: global record + node block + n_threads blocks; receiver: global record + (threads_count + 1) blocks", cfg)
        else:
            ck.violated("C20.6", inst, rcv.where, "the sender transmits the global record, the node block and one block per thread, but the receiver reads %d fixed buffer(s) and `%s` blocks: the ranks block in MPI or the file is truncated" % (len(r_flat), iters), cfg)
    else:
        ck.inconclusive("C20.6", inst, snd.where, "sender shape not recognised (%d flat, %d looped sends, bound %s)" % (len(flat), len(in_loop), loop_bound), cfg)
    # threads_count the receiver relies on is what the sender's global record carries
    fini = P.fn("stats_global_fini")
    st = [n for n in fini.walk() if n.k == "BinaryOperator" and n.op == "=" and X.show(n.children[0]) == "stats_glob_cur.threads_count"]
    sender_calls = list(fini.calls("stats_files_send"))
    if st and X.show(st[0].children[1]) == "global_config.n_threads" and sender_calls and fini.cfg.dominates(st[0], sender_calls[0]):
        ck.holds("C20.6", "threads-count", st[0].where, "threads_count = n_threads is set before the records are sent / written", cfg)
    else:
        ck.violated("C20.6", "threads-count", fini.where, "stats_glob_cur.threads_count is not set to the thread count before the statistics are sent or written", cfg)
    # received blocks are written with the same int64 prefix as local ones
    wr = list(rcv.calls("file_write_chunk"))
    sizes = [X.const_int(X.callee_args(c)[2]) for c in wr]
    if sizes.count(8) == 1 and len(wr) == 3:
        ck.holds("C20.6", "transfer-layout", wr[0].where, "global record verbatim; every block as int64 byte count + bytes, like the local writer", cfg)
    else:
        ck.violated("C20.6", "transfer-layout", rcv.where, "received records are not written in the local layout (sizes %s)" % sizes, cfg)
