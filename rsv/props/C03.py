"""C03 — committed history is exactly a prefix: structural clauses of fossil collection."""
from .. import rules_fossil, rules_msg


def run(ck, progs):
    ck.not_decided = "equality of the committed events' content and order with the sequential history (a behavioural fact over schedules)"
    ck.rule("C03.1", "history entries are reclaimed only when their timestamp is strictly below the GVT of the round; the frontier variable has one writer")
    ck.rule("C03.2", "the released range, the truncated prefix and the frontier returned by the allocator are one value; the releasing loop "
                     "visits every index below it exactly once, before the truncation")
    ck.rule("C03.3", "the allocator is given 'index of the newest committed processed event + 1'")
    ck.rule("C03.4", "ownership on release (local-sent entries belong to their receiver; at shutdown a cancelled processed entry belongs to a queue)")
    for cfg, P in progs.items():
        rules_fossil.check_strict_frontier(ck, P, "C03.1")
        rules_fossil.check_release_equals_truncate(ck, P, "C03.2")
        rules_fossil.check_frontier_argument(ck, P, "C03.3")
        rules_msg.check_release_ownership(ck, P, "C03.4")
