"""C15 — inter-thread message queue (datatypes/msg_queue.c): structural clauses."""
from .. import expr as X
from .. import query as Q
from ..cfg import witness_text

LIST_TABLE = {
    "msg_queue_init": ({"atomic-store"}, "before the start barrier no other thread can push"),
    "msg_queue_fini": ({"atomic-load"}, "after the shutdown barrier"),
    "msg_queue_insert": ({"addr"}, "producer: takes the address for its CAS loop"),
    "msg_queue_insert_queued": ({"atomic-rmw"}, "consumer: takes the whole list with one exchange"),
}


def run(ck, progs):
    ck.not_decided = "lock-freedom / linearizability of the CAS retry against the consumer's swap under all interleavings"
    ck.rule("C15.1", "memory-order floors: the publishing CAS is at least release on success, the consumer's take at least acquire "
                     "(the node's fields are plain data published through the list head)")
    ck.rule("C15.2", "the consumer takes the list with ONE atomic exchange; plain atomic stores to the head occur only in msg_queue_init; "
                     "the head is touched by exactly the four queue functions")
    ck.rule("C15.3", "the CAS's expected value is &msg->next of the pushed message, desired is msg, and msg->next is loaded from the head "
                     "before the loop")
    ck.rule("C15.4", "extract and peek drain the buffer before they read the heap, on every path")
    ck.rule("C15.5", "the drain loop inserts every node in the heap with key = the node's own timestamp and reads the successor from the node")
    ck.rule("C15.6", "the destination buffer is chosen by the routing macro applied to the message's destination")
    ck.rule("C15.7", "the plain initialisation of a thread's buffer is separated by a thread barrier from every call that can reach a producer "
                     "(LP_INIT handlers of other threads may already schedule events for this thread)")
    ck.rule("C15.8", "msg_queue_extract removes from the private heap the event it hands out (its value comes from heap_extract), and "
                     "msg_queue_time_peek only reads the heap (heap_min, no extraction)")
    for cfg, P in progs.items():
        _extract_consumes(ck, P, cfg)
        _run(ck, P, cfg)
        _init_before_producers(ck, P, cfg)


def _run(ck, P, cfg):
    # ---- C15.2 who touches .list
    n = 0
    fns = set()
    for f, node, kind in Q.field_accesses(P, "msg_buffer", "list"):
        n += 1
        fns.add(f.name)
        inst = "%s:%s" % (f.name, kind)
        if f.name not in LIST_TABLE:
            if kind in ("read", "atomic-load"):
                ck.inconclusive("C15.2", "outsider-read:%s" % f.name, node.where, "%s reads the buffer head; a read alone cannot lose messages" % f.name, cfg)
            else:
                ck.violated("C15.2", "outsider:%s" % f.name, node.where, "%s touches the buffer head (%s); only the four queue functions may" % (f.name, kind), cfg)
        elif kind not in LIST_TABLE[f.name][0]:
            ck.violated("C15.2", inst, node.where, "%s performs %s on the buffer head; allowed: %s (%s)" % (f.name, kind, sorted(LIST_TABLE[f.name][0]), LIST_TABLE[f.name][1]), cfg)
        else:
            ck.holds("C15.2", inst, node.where, LIST_TABLE[f.name][1], cfg)
    ck.expect("C15.2", n, 4, "accesses to msg_buffer.list")

    # ---- consumer: msg_queue_insert_queued
    fq = P.fn("msg_queue_insert_queued")
    ats = Q.atomics(fq)
    xch = [a for a in ats if a.aop == "__c11_atomic_exchange"]
    others = [a for a in ats if a.aop != "__c11_atomic_exchange"]
    if len(xch) != 1 or others:
        ck.violated("C15.2", "take@msg_queue_insert_queued", fq.where, "the consumer must take the list with exactly one atomic exchange (found %d exchange(s), other atomics: %s): a load followed by a store loses concurrent pushes" % (
            len(xch), [a.aop for a in others]), cfg)
    else:
        a = xch[0]
        if not X.is_null(a.children[1]):
            ck.violated("C15.2", "take@msg_queue_insert_queued", a.where, "the exchange does not leave an empty list behind (%s)" % X.show(a.children[1]), cfg)
        else:
            ck.holds("C15.2", "take@msg_queue_insert_queued", a.where, "one atomic exchange with NULL", cfg)
        o = a.d.get("order")
        if o is not None and X.order_has_acquire(o):
            ck.holds("C15.1", "take-acquire", a.where, "exchange is %s" % X.MEMORY_ORDER[o], cfg)
        else:
            ck.violated("C15.1", "take-acquire", a.where, "exchange is %s; the consumer reads the nodes' plain fields afterwards, it needs acquire" % X.MEMORY_ORDER.get(o, o), cfg)
        # ---- C15.5 drain loop
        kind, mvar = Q.result_var(a)
        loops = [l for l in fq.walk() if l.k in ("WhileStmt", "DoStmt", "ForStmt") and not l.macros]
        if kind != "var" or len(loops) != 1:
            ck.inconclusive("C15.5", "drain-loop", fq.where, "drain loop not recognised", cfg)
        else:
            lp = loops[0]
            his = [s for s in lp.walk() if s.k == "StmtExpr" and s.macros and s.macros[0] == "heap_insert"]
            g = fq.cfg
            ok = True
            if len(his) != 1:
                ck.violated("C15.5", "drain-loop:insert", lp.where, "the drain loop does not insert the node in the heap exactly once per iteration (%d heap_insert)" % len(his), cfg)
                ok = False
            else:
                hi = his[0]
                # per-iteration: from the loop body entry every path back to the loop head passes the insert
                body_entry, condB = Q.loop_body_entry(fq, lp)
                if body_entry is not None:
                    store = [s for s in hi.walk() if s.k == "BinaryOperator" and s.op == "=" and X.strip(s.children[0]).k == "ArraySubscriptExpr" and
                             "items" in X.show(s.children[0])]
                    final = [s for s in store if not any(x.k in ("WhileStmt", "DoStmt", "ForStmt") and s.is_inside(x) for x in hi.walk())]
                    tgt = (final or store)
                    if tgt:
                        w = g.escapes(g.edge_point(body_entry), {t.id for t in tgt}, goal="none", goal_ids={e.id for e in condB.elems})
                        if w:
                            ck.violated("C15.5", "drain-loop:insert", lp.where, "a path around the drain loop skips the heap insertion (%s)" % witness_text(fq, w), cfg)
                            ok = False
                # inserted element: struct with .m = node and .t = node->dest_t
                elem = None
                for s in tgt if his else []:
                    elem = X.strip(s.children[1])
                if elem is not None and elem.k == "DeclRefExpr":
                    qe = [v for v in fq.walk() if v.k == "VarDecl" and v.did == elem.did]
                    if qe and qe[0].children:
                        il = X.strip(qe[0].children[0])
                        rec = P.record("q_elem")
                        names = [fl["name"] for fl in rec["fields"]]
                        vals = {names[i]: X.show(c) for i, c in enumerate(il.children)} if il.k == "InitListExpr" and len(il.children) == len(names) else {}
                        want = {"t": "%s->dest_t" % mvar.name, "m": mvar.name}
                        if vals == want:
                            ck.holds("C15.5", "drain-loop:key", qe[0].where, "heap element {t = %s, m = %s}: key is the node's own timestamp" % (vals["t"], vals["m"]), cfg)
                        elif vals:
                            ck.violated("C15.5", "drain-loop:key", qe[0].where, "heap element is %s, expected %s: the heap key must be the timestamp of the very node it carries" % (vals, want), cfg)
                            ok = False
                        else:
                            ck.inconclusive("C15.5", "drain-loop:key", qe[0].where, "initialiser of the heap element not recognised", cfg)
                # successor read from the node itself
                nxt = [s for s in lp.walk() if s.k == "BinaryOperator" and s.op == "=" and X.strip(s.children[0]).k == "DeclRefExpr" and X.strip(s.children[0]).did == mvar.did]
                if len(nxt) == 1 and X.show(nxt[0].children[1]) == "%s->next" % mvar.name:
                    ck.holds("C15.5", "drain-loop:next", nxt[0].where, "%s" % X.show(nxt[0]), cfg)
                else:
                    ck.violated("C15.5", "drain-loop:next", lp.where, "the successor is not read from the node being drained (%s)" % [X.show(x) for x in nxt], cfg)
                    ok = False
            if ok:
                ck.holds("C15.5", "drain-loop:insert", lp.where, "one heap_insert per iteration on every path", cfg)

    # ---- producer: msg_queue_insert
    fi = P.fn("msg_queue_insert")
    cas = [a for a in Q.atomics(fi) if Q.RMW_OPS.get(a.aop) == "cas"]
    if len(cas) != 1:
        ck.violated("C15.3", "cas@msg_queue_insert", fi.where, "the producer must publish with one compare-and-swap (found %d)" % len(cas), cfg)
    else:
        c = cas[0]
        o, of = c.d.get("order"), c.d.get("order_fail")
        if o is not None and X.order_has_release(o):
            ck.holds("C15.1", "publish-release", c.where, "CAS success order is %s" % X.MEMORY_ORDER[o], cfg)
        else:
            ck.violated("C15.1", "publish-release", c.where, "CAS success order is %s; the message's fields were written with plain stores, publishing needs release" % X.MEMORY_ORDER.get(o, o), cfg)
        mparam = fi.params[0]["name"]
        exp, des = X.show(c.children[1]), X.show(c.children[2])
        okc = True
        if exp != "&%s->next" % mparam:
            ck.violated("C15.3", "cas-expected", c.where, "expected value is %s, not &%s->next: a failed CAS must refresh the pushed node's successor" % (exp, mparam), cfg)
            okc = False
        if des != mparam:
            ck.violated("C15.3", "cas-desired", c.where, "desired value is %s, not the pushed message" % des, cfg)
            okc = False
        # msg->next = load(head) dominates the CAS
        pre = [s for s in fi.walk() if s.k == "BinaryOperator" and s.op == "=" and X.show(s.children[0]) == "%s->next" % mparam]
        pre_ok = [s for s in pre if fi.cfg.dominates(s, c) and any(x.k == "AtomicExpr" and Q.atomic_kind(x) == "load" for x in s.children[1].walk())]
        if not pre_ok:
            ck.violated("C15.3", "next-before-cas", c.where, "%s->next is not loaded from the list head before the CAS loop" % mparam, cfg)
            okc = False
        post = [s for s in pre if not fi.cfg.dominates(s, c)]
        if post:
            ck.violated("C15.3", "next-after-cas", post[0].where, "%s->next is written after the node may already be published" % mparam, cfg)
            okc = False
        if okc:
            ck.holds("C15.3", "cas@msg_queue_insert", c.where, "CAS(head, &%s->next, %s) after %s" % (mparam, mparam, X.show(pre_ok[0])), cfg)
        # ---- C15.6 routing
        lp = [v for v in fi.walk() if v.k == "ArraySubscriptExpr" and X.show(v.children[0]) == "queues"]
        if len(lp) != 1:
            ck.inconclusive("C15.6", "queue-index", fi.where, "queue selection not recognised", cfg)
        else:
            idx = lp[0].children[1]
            exps = X.expansions(idx, "lid_to_rid")
            if exps and ("%s->dest" % mparam) in X.show(idx):
                ck.holds("C15.6", "queue-index", idx.where, "queues[lid_to_rid(%s->dest)]" % mparam, cfg)
            else:
                ck.violated("C15.6", "queue-index", idx.where, "the destination buffer index is %s, not the routing macro applied to the message destination" % X.show(idx), cfg)

    # ---- C15.4 drain first
    for fname in ("msg_queue_extract", "msg_queue_time_peek"):
        f = P.fn(fname)
        calls = list(f.calls("msg_queue_insert_queued"))
        def _unevaluated(n):
            q = n.parent
            while q is not None:
                if q.k == "UnaryExprOrTypeTraitExpr":
                    return True
                q = q.parent
            return False
        uses = [n for n in f.walk() if n.k == "DeclRefExpr" and n.name == "mqp" and not _unevaluated(n)]
        inst = "drain-first@%s" % fname
        if not calls:
            ck.violated("C15.4", inst, f.where, "%s reads the heap without first draining the inter-thread buffer: messages already pushed by other threads are ignored" % fname, cfg)
            continue
        bad = [u for u in uses if not any(f.cfg.dominates(c, u) for c in calls)]
        if bad:
            ck.violated("C15.4", inst, bad[0].where, "the heap is read before the buffer is drained on some path", cfg)
        else:
            ck.holds("C15.4", inst, calls[0].where, "msg_queue_insert_queued() dominates all %d uses of the heap" % len(uses), cfg)
        ck.expect("C15.4", len(uses), 2, "heap uses in %s" % fname)


def _init_before_producers(ck, P, cfg):
    cg = Q.call_graph(P)
    # the model's handlers are reached through the dispatcher pointer and may call the public scheduling API
    for k, v in cg.items():
        if any(x.startswith("<indirect:global_config.dispatcher") for x in v):
            v.add("ScheduleNewEvent")
    may_insert = {f for f in cg if "msg_queue_insert" in Q.reachable_functions(P, [f], cg)}
    n = 0
    for c in P.callers("msg_queue_init"):
        f = c.fn
        if not f.file.startswith("src/"):
            continue
        n += 1
        g = f.cfg
        bars = {b.id for b in f.calls("sync_thread_barrier")}
        prods = [x for x in f.calls() if x.callee in may_insert and x.callee != "msg_queue_init"]
        inst = "init-before-producers@%s" % f.name
        w = g.escapes(g.position(c), bars, goal="none", goal_ids={x.id for x in prods})
        if w:
            first = next(x for x in prods if x.id in g.reachable_from(g.position(c), barrier_ids=bars))
            ck.violated("C15.7", inst, first.where, "%s() can run on this thread while another thread has not yet executed msg_queue_init(): an event pushed to that thread's buffer in between is wiped by its initialising store (no barrier between the two calls: %s)" % (
                first.callee, witness_text(f, w)), cfg)
        elif not prods:
            ck.inconclusive("C15.7", inst, c.where, "no producer call follows the initialisation in this function", cfg)
        else:
            ck.holds("C15.7", inst, c.where, "a thread barrier separates msg_queue_init() from %s" % sorted({x.callee for x in prods}), cfg)
    ck.expect("C15.7", n, 1, "call sites of msg_queue_init")


def _extract_consumes(ck, P, cfg):
    fx, fp = P.fn("msg_queue_extract"), P.fn("msg_queue_time_peek")

    def uses(f, macro):
        return [n for n in f.walk() if n.k == "StmtExpr" and n.macros and n.macros[-1] == macro] + [n for n in f.walk() if n.k != "StmtExpr" and n.macros and n.macros[0] == macro and (n.parent is None or macro not in n.parent.macros)]
    inst = "extract-consumes@msg_queue_extract"
    rets = [r for r in fx.walk() if r.k == "ReturnStmt" and r.children and r.children[0].k != "Null"]
    takes = [n for n in fx.walk() if any(m_ == "heap_extract" for m_ in n.macros)]
    peeks_in_value = []
    for r in rets:
        e = Q.resolve_local(fx, r.children[0])
        for x in e.walk():
            if any(m_ == "heap_min" for m_ in x.macros) and not any(m_ == "heap_extract" for m_ in x.macros):
                peeks_in_value.append(x)
    if not rets:
        ck.inconclusive("C15.8", inst, fx.where, "no returned value recognised", cfg)
    elif peeks_in_value and not takes:
        ck.violated("C15.8", inst, peeks_in_value[0].where, "msg_queue_extract hands out the heap's minimum without removing it: the same event is extracted and processed again and again", cfg)
    elif not takes:
        ck.inconclusive("C15.8", inst, fx.where, "the handed-out event does not come from heap_extract / heap_min (another queue)", cfg)
    else:
        ck.holds("C15.8", inst, takes[0].where, "the value handed out comes from heap_extract on the private heap", cfg)
    inst = "peek-preserves@msg_queue_time_peek"
    tp = [n for n in fp.walk() if any(m_ == "heap_extract" for m_ in n.macros)]
    if tp:
        ck.violated("C15.8", inst, tp[0].where, "msg_queue_time_peek removes an event from the heap: that event is never processed and the GVT is computed without it", cfg)
    else:
        ck.holds("C15.8", inst, fp.where, "only reads the heap", cfg)
