"""C18 — numerical library contracts for every generator state: the clauses exact interval reasoning decides."""
from .. import rules_num as N


def run(ck, progs):
    ck.not_decided = ("distributional quality; contracts that depend on caller-supplied arguments outside what the code itself checks "
                      "(Zipf's skew/limit, RandomRangeNonUniform, min > max); Gamma's and Zipf's rejection loops beyond their singular points")
    ck.rule("C18.1", "Random(): the zero draw returns 0.0, every other draw assembles a positive normal double with biased exponent <= 1022, i.e. a value in (0,1)")
    ck.rule("C18.2", "every shift amount in the library that is an exact expression of bounded inputs stays below the operand width for all raw generator outputs")
    ck.rule("C18.3", "singular points: floating divisors exclude 0, log arguments are strictly positive, sqrt arguments non-negative, by exact "
                     "intervals with branch refinement from Random() in [0,1); a violating endpoint must be admitted by every test on the way")
    ck.rule("C18.4", "Poisson() is finite and non-negative; RandomRange stays within [min,max] on representative argument pairs, for every generator state")
    ck.rule("C18.6", "a double is converted to an integer only where it fits: an upper-bound test of it holds on every path to the conversion, or its value at the extreme draws of Random() (evaluated in double arithmetic for sampled arguments) is in range")
    ck.rule("C18.5", "the library writes only its locals and the calling LP's generator state; no static or file-scope mutable state; all draws go through RandomU64()")
    ck.assume("doubles are treated as reals: rounding and underflow are ignored")
    for cfg, P in progs.items():
        N.check_random_range(ck, P, "C18.1")
        N.check_shift_widths(ck, P, "C18.2", only_files=("lib/random/random.c", "lib/random/xoroshiro.h", "lib/random/xxtea.c"))
        N.check_singular_points(ck, P, "C18.3")
        N.check_return_ranges(ck, P, "C18.4")
        N.check_float_to_int(ck, P, "C18.6")
        N.check_generator_isolation(ck, P, "C18.5")
