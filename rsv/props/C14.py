"""C14 — every LP has exactly one owner and routing agrees with ownership: structural clauses."""
from .. import rules_part as R


def run(ck, progs):
    ck.not_decided = ("overflow of the routing arithmetic for identifier counts near 2^64, and configurations beyond the interpreted ones "
                      "(12 LPs, 4 ranks, 4 threads)")
    ck.rule("C14.1", "the routing macros lid_to_nid / lid_to_rid are non-decreasing in the LP id at every expansion site (syntactic monotonicity "
                     "calculus; divisors are positive counts, lps == 0 is rejected at init)")
    ck.rule("C14.2", "every ownership bound (lid_node_first, n_lps_node, lid_thread_first, lid_thread_end) is computed by partition_start with "
                     "the routing macro of its level, the upper bound being the lower bound's expression for partition id + 1")
    ck.rule("C14.3", "partition_start's two search loops are complementary thresholds (down while route >= id, up while route < id): with C14.1 "
                     "the result is the least id routed to that partition or later, so ranges are contiguous, disjoint and cover")
    ck.rule("C14.4", "users route through the macros: queue selection, local/remote decision with destination rank, remote anti-message destination")
    ck.rule("C14.5", "lp_init and lp_fini iterate exactly the thread's ownership range and run the per-LP init / fini once per iteration")
    ck.rule("C14.6", "each routing macro maps its range onto 0..parts-1: it is (x - start) * parts / total with exactly the parts/start/total its partition_start calls use")
    ck.rule("C14.7", "the LP table, indexed everywhere with global LP ids, holds n_lps_node entries and is shifted by the first hosted id after its allocation (and back before its release)")
    ck.rule("C14.8", "lp_global_init and the head of lp_init, interpreted for 1..12 LPs x 1..4 ranks x 1..4 threads: the ranks' ranges tile "
                     "0..lps-1, the threads' ranges tile their rank's range, and the routing macros send every identifier to its owner")
    ck.rule("C14.9", "the product inside a routing macro is 64 bits wide at every expansion (no cast narrows the offset before it is multiplied)")
    for cfg, P in progs.items():
        R.check_monotone_routing(ck, P, "C14.1")
        R.check_bounds_from_routing(ck, P, "C14.2")
        R.check_routing_users(ck, P, "C14.4")
        R.check_lp_loops(ck, P, "C14.5")
        R.check_routing_range(ck, P, "C14.6")
        R.check_lp_table(ck, P, "C14.7")
        R.check_ownership_tiling(ck, P, "C14.8")
        R.check_routing_width(ck, P, "C14.9")
