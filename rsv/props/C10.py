"""C10 — the serial runtime implements the reference semantics: structural clauses of serial/serial.c."""
from .. import expr as X
from .. import query as Q
from .. import rules_cmp
from .. import rules_msg
from .. import typestate
from ..cfg import witness_text

DISPATCH = "global_config.dispatcher"


def _heap_ops(f, macro, heap="queue"):
    return [s for s in f.walk() if s.k == "StmtExpr" and s.macros and s.macros[0] == macro and heap in (s.d.get("mcall") or "")]


def run(ck, progs):
    ck.not_decided = "equality of the dispatch sequence with an independent textbook executor (a behavioural fact over all models)"
    ck.rule("C10.1", "main loop: the dispatched event is the heap minimum; every path from its dispatch to the next iteration extracts and "
                     "releases exactly one event; paths that leave the loop keep it queued and the shutdown code releases every queued event")
    ck.rule("C10.2", "every insertion into / extraction from the event heap uses the canonical comparator (C16)")
    ck.rule("C10.3", "LP_INIT and LP_FINI are dispatched once per LP over the whole range 0..lps, LP_INIT before the main loop, LP_FINI after")
    ck.rule("C10.4", "in serial mode ScheduleNewEvent routes to the serial queue before anything else and returns; the serial scheduler "
                     "inserts every message it allocates")
    ck.rule("C10.5", "termination bookkeeping: an LP is counted once when its predicate first holds (negative marker = not yet), the run stops "
                     "when the count of pending LPs reaches 0 or the termination time is passed")
    ck.rule("C10.6", "every message inserted in the serial heap has its flag word initialised (the comparator reads the cancellation bit of recycled buffers)")
    ck.rule("C10.7", "event construction: msg_allocator_pack stores receiver / timestamp / type in the fields of their role and copies exactly the declared payload; ScheduleNewEvent forwards its five parameters position by position")
    ck.rule("C10.8", "the event heap keeps its shape and the sift-up is strict at the serial sites (C16.4): the main loop dispatches the root, lets the handler insert events and only then extracts the root, so an inserted event that merely ties with the root must not climb over it")
    for cfg, P in progs.items():
        rules_msg.check_pack(ck, P, "C10.7")
        rules_cmp.check_heap_shape(ck, P, "C10.8", rules_cmp.comparator_sites(P))
        rules_msg.check_flags_initialised(ck, P, "C10.6")
        _main_loop(ck, P, cfg)
        _comparators(ck, P, cfg)
        _init_fini(ck, P, cfg)
        _routing(ck, P, cfg)
        _termination(ck, P, cfg)


def _main_loop(ck, P, cfg):
    f = P.fn("serial_simulation_run")
    g = f.cfg
    loops = [l for l in f.walk() if l.k == "WhileStmt" and not l.macros]
    if len(loops) != 1:
        ck.inconclusive("C10.1", "main-loop", f.where, "main loop not recognised", cfg)
        return
    l = loops[0]
    disp = [c for c in f.calls("common_msg_process") if c.is_inside(l)]
    ext = [s for s in _heap_ops(f, "heap_extract") if s.is_inside(l)]
    frees = [c for c in f.calls("msg_allocator_free") if c.is_inside(l)]
    if len(disp) != 1:
        ck.violated("C10.1", "main-loop:dispatch", l.where, "an iteration must dispatch exactly one event (%d dispatch sites)" % len(disp), cfg)
        return
    d = disp[0]
    # dispatched event = heap minimum
    m = X.strip(X.callee_args(d)[1])
    okmin = False
    if m.k == "DeclRefExpr":
        for v in f.walk():
            if v.k == "VarDecl" and v.did == m.did and v.children and v.macros == [] and any("heap_min" in x.macros for x in v.children[0].walk()):
                okmin = True
    if okmin:
        ck.holds("C10.1", "main-loop:minimum", d.where, "the dispatched event is heap_min(queue)", cfg)
    else:
        ck.violated("C10.1", "main-loop:minimum", d.where, "the dispatched event (%s) is not the heap minimum" % X.show(m), cfg)
    # loop condition: queue not empty
    body_entry, condB = Q.loop_body_entry(f, l)
    head_ids = {e.id for e in condB.elems}
    if not ext or not frees:
        ck.violated("C10.1", "main-loop:consume", l.where, "the loop never extracts / releases the event it dispatched: it would be delivered again", cfg)
        return
    ext_first = {next(x for x in e.walk() if x.id in g.pos).id for e in ext}
    ext_all = set()
    for e in ext:
        ext_all |= {x.id for x in e.walk()}
    w = g.escapes(g.position(d), ext_first, goal="none", goal_ids=head_ids)
    if w:
        ck.violated("C10.1", "main-loop:consume", d.where, "a path returns to the loop head without extracting the dispatched event (%s): it is delivered a second time" % witness_text(f, w), cfg)
    else:
        # at most once: from the end of the extraction no second extraction before the loop head
        last = [x for x in ext[0].walk() if x.id in g.pos][-1]
        w2 = g.escapes(g.position(ext[0]), head_ids, goal="none", goal_ids={i for i in ext_first})
        if w2 and len(ext) == 1:
            # the only way to meet the extraction again is through the loop head, which is a barrier here: fine
            w2 = None
        if len(ext) > 1:
            ck.violated("C10.1", "main-loop:consume", ext[1].where, "more than one extraction per iteration: an undelivered event is dropped", cfg)
        else:
            # the extracted value is what gets released
            fr = frees[0]
            arg = X.callee_args(fr)[0]
            if ext[0].is_inside(arg) or ext[0] is X.strip(arg):
                ck.holds("C10.1", "main-loop:consume", ext[0].where, "every path from the dispatch back to the loop head passes msg_allocator_free(heap_extract(queue, ...)) exactly once", cfg)
            else:
                kind, rv = Q.result_var(ext[0])
                a = typestate.root_var(arg)
                if kind == "var" and a is not None and a.did == rv.did:
                    ck.holds("C10.1", "main-loop:consume", ext[0].where, "extracted event is released once per iteration", cfg)
                else:
                    ck.violated("C10.1", "main-loop:consume", fr.where, "the released message (%s) is not the one extracted from the heap" % X.show(arg)[:50], cfg)
    # the extraction comes after the dispatch (the handler may schedule new events while the current one is still the minimum)
    if ext and not g.dominates(d, next(x for x in ext[0].walk() if x.id in g.pos)):
        ck.violated("C10.1", "main-loop:order", ext[0].where, "the event is extracted before it is dispatched; the statistics/termination code below reads a released message", cfg)
    # shutdown releases what is still queued
    fi = P.fn("serial_simulation_fini")
    fl = [c for c in fi.calls("msg_allocator_free")]
    okf = False
    for c in fl:
        lp = c
        while lp is not None and lp.k != "ForStmt":
            lp = lp.parent
        if lp is not None:
            cond = X.strip(lp.children[2])
            if cond.k == "BinaryOperator" and cond.op == "<" and "queue" in X.show(cond.children[1]) and "count" in X.show(cond.children[1]):
                a = X.show(X.callee_args(c)[0])
                if "queue" in a and X.show(cond.children[0]) in a:
                    okf = True
    if okf:
        ck.holds("C10.1", "shutdown-release", fl[0].where, "every event still queued at the end is released once", cfg)
    else:
        ck.violated("C10.1", "shutdown-release", fi.where, "events left in the queue when the run stops are not released", cfg)


def _comparators(ck, P, cfg):
    sites = rules_cmp.comparator_sites(P)
    good = [n for f, n, macro, res in sites if isinstance(res, dict) and macro == "msg_is_before"]
    n = 0
    for fname in ("serial_simulation_init", "serial_simulation_run", "ScheduleNewEvent_serial"):
        f = P.fn(fname)
        for macro in ("heap_insert", "heap_extract"):
            for s in _heap_ops(f, macro):
                n += 1
                inside = [g for g in good if g.is_inside(s)]
                need = 2 if macro == "heap_extract" else 1
                inst = "%s@%s" % (macro, fname)
                if len(inside) >= need:
                    ck.holds("C10.2", inst, s.where, "ordered by msg_is_before (timestamp, then content tie-break)", cfg)
                else:
                    ck.violated("C10.2", inst, s.where, "this heap operation does not use the canonical comparator (%s): the serial order differs from the parallel runtime's" % (s.d.get("mcall") or "")[:70], cfg)
    ck.expect("C10.2", n, 4, "heap operations of the serial runtime")


def _init_fini(ck, P, cfg):
    init_code, fini_code = P.enum_const("LP_INIT"), P.enum_const("LP_FINI")
    for fname, code, what in (("serial_simulation_init", init_code, "LP_INIT"), ("serial_simulation_fini", fini_code, "LP_FINI")):
        f = P.fn(fname)
        inst = "coverage:%s" % what
        loops = [l for l in f.walk() if l.k == "ForStmt" and not l.macros]
        hit = None
        for l in loops:
            cond = X.strip(l.children[2])
            init = l.children[0]
            iv = [x for x in init.walk() if x.k == "VarDecl"]
            inc = X.strip(l.children[3])
            if not iv or not iv[0].children:
                continue
            bound = X.strip(cond.children[1]) if cond.k == "BinaryOperator" else None
            if bound is not None and bound.k == "DeclRefExpr" and bound.d.get("sc") == "local":
                bound = Q.resolve_local(f, bound)
            if not (X.is_zero(iv[0].children[0]) and cond.k == "BinaryOperator" and cond.op == "<" and X.show(cond.children[0]) == iv[0].name and
                    bound is not None and X.show(bound) == "global_config.lps" and inc.k == "UnaryOperator" and inc.op == "++"):
                continue
            # LP_INIT goes through msg_allocator_pack(i, 0, LP_INIT,...) + common_msg_process; LP_FINI through the dispatcher
            if what == "LP_INIT":
                packs = [c for c in f.calls("msg_allocator_pack") if c.is_inside(l) and X.const_int(X.callee_args(c)[2]) == code and X.show(X.callee_args(c)[0]) == iv[0].name]
                disp = [c for c in f.calls("common_msg_process") if c.is_inside(l)]
                if len(packs) == 1 and len(disp) == 1 and X.const_float(X.callee_args(packs[0])[1]) == 0.0:
                    kind, mv = Q.result_var(packs[0])
                    if kind == "var" and X.show(X.callee_args(disp[0])[1]) == mv.name:
                        hit = l
                        extra = [core for core, B in Q.deciding_branches(f, disp[0], transitive=False) if not (X.strip(core) is cond or X.strip(core).is_inside(cond) or X.show(core) == X.show(cond))]
                        if extra:
                            ck.violated("C10.3", inst + ":unconditional", extra[0].where, "LP_INIT is dispatched to LP i only if `%s`" % X.show(extra[0])[:60], cfg)
            else:
                ds = [c for c in l.walk() if c.k == "CallExpr" and not c.callee and X.show(c.children[0]) == DISPATCH and X.const_int(X.callee_args(c)[2]) == code and
                      X.show(X.callee_args(c)[0]) == iv[0].name]
                if len(ds) == 1:
                    hit = l
                    # nothing but the loop itself decides whether LP i gets its LP_FINI
                    extra = [core for core, B in Q.deciding_branches(f, ds[0], transitive=False) if not (X.strip(core) is cond or cond.is_inside(core) or X.strip(core).is_inside(cond) or X.show(core) == X.show(cond))]
                    if extra:
                        ck.violated("C10.3", inst + ":unconditional", extra[0].where, "LP_FINI is dispatched to LP i only if `%s`: an LP for which this is false never sees its final event, "
                                    "which a textbook executor delivers to every LP" % X.show(extra[0])[:60], cfg)
        if hit is not None:
            ck.holds("C10.3", inst, hit.where, "for(i = 0; i < global_config.lps; ++i): %s dispatched once for LP i" % what, cfg)
        else:
            ck.violated("C10.3", inst, f.where, "%s is not dispatched exactly once for every LP in 0..lps" % what, cfg)
    s = P.fn("serial_simulation")
    calls = [c for c in s.calls() if c.callee in ("serial_simulation_init", "serial_simulation_run", "serial_simulation_fini")]
    names = [c.callee for c in sorted(calls, key=lambda c: (s.cfg.position(c)[0] * -1, s.cfg.position(c)[1]))]
    if len(calls) == 3 and s.cfg.dominates(calls[0], calls[1]) and s.cfg.dominates(calls[1], calls[2]) and [c.callee for c in calls] == ["serial_simulation_init", "serial_simulation_run", "serial_simulation_fini"]:
        ck.holds("C10.3", "sequence", s.where, "init -> run -> fini", cfg)
    else:
        ck.violated("C10.3", "sequence", s.where, "serial_simulation does not run init, run, fini in this order", cfg)


def _routing(ck, P, cfg):
    f = P.fn("ScheduleNewEvent")
    cs = list(f.calls("ScheduleNewEvent_serial"))
    inst = "route@ScheduleNewEvent"
    if len(cs) != 1:
        ck.violated("C10.4", inst, f.where, "ScheduleNewEvent does not hand serial-mode events to the serial scheduler", cfg)
    else:
        c = cs[0]
        g = f.cfg
        paths, _ = Q.path_conditions(f, c)
        guarded = all(any("serial" in X.show(core) and t for core, t in conds) for conds in paths)
        # nothing else of the parallel path is reachable after it
        others = [x for x in f.calls() if x.callee in ("msg_allocator_pack", "msg_queue_insert", "mpi_remote_msg_send")]
        reach = g.reachable_from(g.position(c))
        leaks = [x for x in others if x.id in reach]
        before = [x for x in others if not any(("serial" in X.show(core) and t is False) for conds in Q.path_conditions(f, x)[0] for core, t in conds)]
        args_ok = [X.show(a) for a in X.callee_args(c)] == [p["name"] for p in f.params]
        if guarded and not leaks and not before and args_ok:
            ck.holds("C10.4", inst, c.where, "if(global_config.serial) { ScheduleNewEvent_serial(same arguments); return; } before any parallel-path step", cfg)
        else:
            ck.violated("C10.4", inst, c.where, "serial routing is not exclusive: %s" % ("parallel-path steps run in serial mode" if (leaks or before) else "guard or arguments differ"), cfg)
    s = P.fn("ScheduleNewEvent_serial")
    pk = list(s.calls("msg_allocator_pack"))
    ins = _heap_ops(s, "heap_insert")
    if len(pk) == 1 and len(ins) == 1:
        kind, mv = Q.result_var(pk[0])
        g = s.cfg
        first = next(x for x in ins[0].walk() if x.id in g.pos)
        st = [x for x in ins[0].walk() if x.k == "BinaryOperator" and x.op == "=" and X.strip(x.children[0]).k == "ArraySubscriptExpr" and kind == "var" and X.show(x.children[1]) == mv.name]
        if st and not g.escapes(g.position(pk[0]), {first.id}, goal="exit"):
            ck.holds("C10.4", "insert@ScheduleNewEvent_serial", ins[0].where, "the packed message is inserted in the heap on every (non-aborting) path", cfg)
        else:
            ck.violated("C10.4", "insert@ScheduleNewEvent_serial", s.where, "a scheduled event can be dropped before it reaches the heap", cfg)
        args = [X.show(a) for a in X.callee_args(pk[0])]
        if args != [p["name"] for p in s.params]:
            ck.violated("C10.4", "pack@ScheduleNewEvent_serial", pk[0].where, "the message is packed from %s, not from the scheduler's own arguments" % args, cfg)
    else:
        ck.inconclusive("C10.4", "insert@ScheduleNewEvent_serial", s.where, "serial scheduler shape not recognised", cfg)


def _termination(ck, P, cfg):
    f = P.fn("serial_simulation_run")
    ini = P.fn("serial_simulation_init")
    # marker initialised negative for every LP
    st = [n for n in ini.walk() if n.k == "BinaryOperator" and n.op == "=" and X.show(n.children[0]).endswith("->termination_t")]
    if st and all((X.const_float(s.children[1]) or 0) < 0 for s in st):
        ck.holds("C10.5", "marker-init", st[0].where, "termination marker starts negative (= not terminated); 0 is a valid timestamp", cfg)
    else:
        ck.violated("C10.5", "marker-init", ini.where, "the 'not terminated' marker is not a negative value: it collides with event timestamps", cfg)
    cnt = [v for v in f.walk() if v.k == "VarDecl" and v.children and X.show(v.children[0]) == "global_config.lps" and v.macros == []]
    decs = [n for n in f.walk() if n.k == "UnaryOperator" and n.op == "--" and cnt and X.strip(n.children[0]).k == "DeclRefExpr" and X.strip(n.children[0]).did == cnt[0].did]
    if not cnt or len(decs) != 1:
        ck.inconclusive("C10.5", "count", f.where, "pending-LP counter not recognised", cfg)
        return
    dec = decs[0]
    paths, _ = Q.path_conditions(f, dec)
    ok = bool(paths)
    for conds in paths:
        neg = any(X.strip(core).k == "BinaryOperator" and X.strip(core).op == "<" and "termination_t" in X.show(core) and X.is_zero(X.strip(core).children[1]) and t for core, t in conds)
        pred = any("global_config.committed" in X.show(core) and t for core, t in conds)
        if not (neg and pred):
            ok = False
    # marking happens on the same paths
    marks = [n for n in f.walk() if n.k == "BinaryOperator" and n.op == "=" and X.show(n.children[0]).endswith("->termination_t")]
    mval = Q.resolve_local(f, marks[0].children[1]) if marks else None
    marked = bool(marks) and f.cfg.dominates(marks[0], dec) and (mval.k == "MemberExpr" and mval.name == "dest_t")
    if ok and marked:
        ck.holds("C10.5", "count", dec.where, "counted down once, only when the marker is negative and the predicate holds; the marker then records the event time (>= 0)", cfg)
    else:
        ck.violated("C10.5", "count", dec.where, "the pending-LP counter can be decremented for an LP already counted, or without its predicate holding", cfg)
    # the counter's test: the run stops exactly when the LAST pending LP has just been counted
    ifs = dec.parent
    while ifs is not None and ifs.k != "IfStmt":
        ifs = ifs.parent
    if ifs is not None:
        kids = [c for c in ifs.children if c.k != "Null"]
        core, neg = X.strip_bool(kids[0])
        if core is dec or (core.k == "UnaryOperator" and core.op == "--"):
            bad = None
            for v in (1, 2, 3):
                tested = v if dec.postfix else v - 1
                stops = (tested != 0) ^ neg
                if stops != (v - 1 == 0) and bad is None:
                    bad = (v, stops)
            if bad:
                ck.violated("C10.5", "count-to-zero", dec.where, "with %d pending LP(s) left when one more terminates, the run %s: the test `%s` is true for the wrong count (it must be true exactly when "
                            "the counter becomes 0)" % (bad[0], "stops" if bad[1] else "goes on", X.show(kids[0])), cfg)
            else:
                ck.holds("C10.5", "count-to-zero", dec.where, "`%s` is true exactly when the last pending LP has been counted" % X.show(kids[0]), cfg)
        else:
            ck.inconclusive("C10.5", "count-to-zero", ifs.where, "test of the pending-LP counter not recognised: %s" % X.show(kids[0])[:60], cfg)
    # stop conditions
    brk = [b for b in f.walk() if b.k == "BreakStmt"]
    kinds = set()
    for b in brk:
        # BreakStmt is a terminator: use the path conditions of the preceding element's block
        for B in f.cfg.blocks.values():
            if B.term is b:
                tgt = B.elems[-1] if B.elems else None
                if tgt is None:
                    # empty block: take the branch that leads here
                    for Pb in B.preds:
                        PB = f.cfg.blocks[Pb]
                        if PB.cond is not None:
                            txt = X.show(PB.cond)
                            kinds.add("count" if cnt[0].name in txt else ("time" if "termination_time" in txt else "other:" + txt[:30]))
                else:
                    for conds in Q.path_conditions(f, tgt)[0]:
                        for core, t in conds:
                            txt = X.show(core)
                            if cnt[0].name in txt:
                                kinds.add("count")
                            if "termination_time" in txt:
                                kinds.add("time")
    if {"count", "time"} <= kinds:
        ck.holds("C10.5", "stop", f.where, "the loop is left when no LP is pending or the termination time is reached (or the queue is empty)", cfg)
    else:
        ck.violated("C10.5", "stop", f.where, "stop conditions found: %s; expected 'all predicates hold' and 'termination time passed'" % sorted(kinds), cfg)
