"""C01 — parallel equals sequential: the structural clauses a static rule can decide."""
from .. import rules_rollback as R
from .. import rules_cmp
from .. import rules_index
from .. import rules_msg


def run(ck, progs):
    ck.not_decided = ("THE EQUIVALENCE ITSELF: bit-identity of the LP states with the sequential execution over models x configurations x "
                      "interleavings. The decisive facts (which entry is the last valid one, which checkpoint is chosen, what a handler "
                      "computes) are runtime values. Only necessary structural conditions of the rollback machinery are decided here")
    ck.rule("C01.1", "rollback pipeline: cancel -> restore -> coast forward in this order on every path with one index value; coast forward "
                     "starts at the restored checkpoint's position and re-dispatches the history entries' own fields; only do_rollback runs the stages")
    ck.rule("C01.2", "the index handed to do_rollback is 0 or one past a processed (untagged) history entry that is not after the straggler: "
                     "never one that leaves an undone event's sends uncancelled")
    ck.rule("C01.5", "the lazy `bound` pre-filter of the straggler test is implied by the comparator: it is non-strict, and every writer keeps "
                     "bound >= the timestamp of the newest history entry (lowered only when the history is empty)")
    ck.rule("C01.3", "history discipline: six writers; the processed event is appended untagged after its handler; sent messages are recorded tagged")
    ck.rule("C01.4", "silent re-execution cannot emit (C05.1) and straggler detection / matching use the one canonical order (C16.3)")
    ck.rule("C01.6", "event construction: msg_allocator_pack stores receiver / timestamp / type in the fields of their role and copies exactly the declared payload; ScheduleNewEvent forwards its five parameters position by position")
    for cfg, P in progs.items():
        rules_msg.check_pack(ck, P, "C01.6")
        R.check_rollback_ranges(ck, P, "C01.1")
        R.check_pipeline(ck, P, "C01.1")
        rules_index.check_rollback_index(ck, P, "C01.2")
        rules_index.check_bound_prefilter(ck, P, "C01.5")
        R.check_history_discipline(ck, P, "C01.3")
        R.check_silent(ck, P, "C01.4")
        rules_cmp.check_uses(ck, P, "C01.4")
