"""C19 — topology queries are mutually consistent and rollback-safe: structural clauses."""
from .. import expr as X
from .. import query as Q
from .. import rules_topo as T

PUBLIC = ("GetReceiver", "CountDirections", "IsNeighbor")
GRID_HELPERS = {"TOPOLOGY_HEXAGON": "get_neighbor_hexagon", "TOPOLOGY_SQUARE": "get_neighbor_square", "TOPOLOGY_TORUS": "get_neighbor_torus"}
IO_OK = {"fprintf", "printf", "fputs", "puts", "__assert_fail", "abort", "__builtin_expect", "__builtin_unreachable"}


def _store_targets(f):
    """(node, kind, name): stores of f classified by what they write: local / param-pointee / global."""
    out = []
    for s in f.walk():
        tgt = None
        if s.k in ("BinaryOperator", "CompoundAssignOperator") and (s.k == "CompoundAssignOperator" or s.op == "="):
            tgt = X.strip(s.children[0])
        elif s.k == "UnaryOperator" and s.op in ("++", "--"):
            tgt = X.strip(s.children[0])
        if tgt is None:
            continue
        b = tgt
        deref = False
        while b is not None and b.k in ("MemberExpr", "ArraySubscriptExpr", "UnaryOperator"):
            if b.k == "MemberExpr" and b.arrow:
                deref = True
            if b.k == "ArraySubscriptExpr":
                inner = X.strip(b.children[0])
                if inner.d.get("tp") or (inner.k == "DeclRefExpr" and inner.d.get("sc") == "param"):
                    deref = True
            if b.k == "UnaryOperator":
                if b.op != "*":
                    break
                deref = True
            b = X.strip(b.children[0])
        if b is None or b.k != "DeclRefExpr":
            out.append((s, "unknown", X.show(tgt)))
            continue
        sc = b.d.get("sc")
        if sc == "local":
            out.append((s, "local-pointee" if (deref and b.d.get("tp")) else "local", b.name))
        elif sc == "param":
            out.append((s, "param-pointee" if deref else "local", b.name))
        else:
            out.append((s, "global", b.name))
    return out


def run(ck, progs):
    ck.not_decided = ("the probabilities of the random choices")
    ck.rule("C19.1", "purity: everything reachable from GetReceiver / CountDirections / IsNeighbor writes only its own locals (a store through a "
                     "parameter counts as a store to whatever call sites bind to it); no function-static state; randomness comes only from "
                     "the calling LP's generator")
    ck.rule("C19.2", "the three query functions handle all eight geometries; GetReceiver and IsNeighbor use the same per-geometry helper")
    ck.rule("C19.3", "direction coverage: the directions each grid helper implements are all enumerated by IsNeighbor's loop for that geometry "
                     "and are exactly the candidates offered to the random choice")
    ck.rule("C19.4", "the random choice tries every candidate: the loop that probes the (shuffled) candidates runs over all of them, leaves "
                     "only with a valid receiver or after the last one, and the candidates are only permuted (copied, then swapped pairwise)")
    ck.rule("C19.5", "CountDirections agrees with the fixed-direction queries: for the grids both are evaluated over the predicates they depend on "
                     "(first/last column, first/last row, row parity: 24 attainable combinations, degenerate 1xN / Nx1 / 1x1 maps included) and must give "
                     "the same number everywhere; for rings the count is the number of directions the helper answers; star, mesh and graph return the "
                     "number of other regions / one / the length of the adjacency list")
    ck.rule("C19.6", "a region without neighbours gets INVALID_DIRECTION: the random draw of the star centre and of the full mesh excludes "
                     "`from`, so every path to it must have tested that another region exists (regions != 1)")
    ck.rule("C19.7", "IsNeighbor rejects before dispatching on the geometry only by range checks of one region against the topology")
    ck.rule("C19.8", "AddTopologyLink's search for an existing link ends only at that link or at the end of the (insertion-ordered) list")
    ck.rule("C19.9", "every loop of get_random_neighbor that probes receivers is bounded by a counter it advances (a region without neighbours gets an answer)")
    for cfg, P in progs.items():
        _purity(ck, P, cfg)
        _dispatch(ck, P, cfg)
        _directions(ck, P, cfg)
        _probe_all(ck, P, cfg)
        _counts(ck, P, cfg)
        _lonely(ck, P, cfg)
        _isneighbor_no_blanket_reject(ck, P, cfg)
        _graph_link_search(ck, P, cfg)
        _random_choice_terminates(ck, P, cfg)


def _purity(ck, P, cfg):
    cg = Q.call_graph(P)
    topo = {f.name for f in P.all_functions() if f.file.endswith("lib/topology/topology.c")}
    reach = Q.reachable_functions(P, PUBLIC, {k: {c for c in v if c in topo} for k, v in cg.items()})
    n = 0
    # which parameters does each function write through?
    writes_param = {}
    first_store = {}
    verdict = {}
    for name in sorted(reach):
        f = P.fn_opt(name)
        if f is None:
            continue
        n += 1
        bad = None
        unk = None
        for s, kind, what in _store_targets(f):
            if kind == "global":
                bad = (s, "writes the shared variable `%s`" % what)
            elif kind == "param-pointee":
                writes_param.setdefault(name, set()).add(what)
                first_store.setdefault((name, what), s)
            elif kind == "local-pointee":
                # pointer local: where does it point?  only pointers to the function's own locals are private
                for root_kind, root in _pointer_roots(f, what):
                    if root_kind == "param":
                        writes_param.setdefault(name, set()).add(root)
                        first_store.setdefault((name, root), s)
                    elif root_kind == "global":
                        bad = (s, "writes the shared variable `%s` through the pointer `%s`" % (root, what))
                    elif root_kind == "unknown":
                        unk = (s, "stores through the pointer `%s` whose target is not recognised" % what)
            elif kind == "unknown":
                unk = (s, "stores to `%s`, a location not recognised" % what)
        for v in f.walk():
            if v.k == "VarDecl" and v.sc == "static_local":
                bad = (v, "keeps state in the function-static `%s`" % v.name)
        for c in f.calls():
            if c.callee and c.callee not in topo and c.callee not in IO_OK and c.callee not in ("Random", "RandomRange", "RandomU64", "memcpy", "__builtin_memcpy", "__builtin___memcpy_chk", "list_size") and not c.d.get("builtin"):
                if c.callee in ("malloc", "free", "memset", "va_start", "rs_malloc", "rs_free", "rs_calloc", "rs_realloc"):
                    bad = (c, "calls %s" % c.callee)
        verdict[name] = (bad, unk)
    ck.expect("C19.1", n, 10, "functions reachable from the topology queries")
    # propagate parameter stores up the call graph: a callee that writes through a parameter bound to the caller's parameter
    # makes the caller write through that one
    bound = []
    via = {}
    changed = True
    while changed:
        changed = False
        for callee in sorted(writes_param):
            F = P.fn(callee)
            idx = {p["name"]: i for i, p in enumerate(F.params)}
            for c in P.callers(callee):
                if c.fn.name not in reach:
                    continue
                for pn in sorted(writes_param[callee]):
                    a = X.strip(X.callee_args(c)[idx[pn]])
                    base = a
                    while base is not None and base.k in ("UnaryOperator", "ArraySubscriptExpr", "MemberExpr"):
                        base = X.strip(base.children[0])
                    roots = []
                    if base is not None and base.k == "DeclRefExpr":
                        sc = base.d.get("sc")
                        if sc == "param":
                            roots = [("param", base.name)]
                        elif sc == "local":
                            roots = _pointer_roots(c.fn, base.name) if base.d.get("tp") else [("local", base.name)]
                        else:
                            roots = [("global", base.name)]
                    else:
                        roots = [("unknown", X.show(a))]
                    for rk, r in roots:
                        if rk == "param" and r not in writes_param.get(c.fn.name, set()):
                            writes_param.setdefault(c.fn.name, set()).add(r)
                            first_store.setdefault((c.fn.name, r), first_store.get((callee, pn), c))
                            via[(c.fn.name, r)] = via.get((callee, pn), []) + [callee]
                            changed = True
                    bound.append((callee, pn, c, roots))
    for name in sorted(verdict):
        f = P.fn(name)
        bad, unk = verdict[name]
        inst = "pure@%s" % name
        if not bad and name in PUBLIC and name in writes_param:
            pn = sorted(writes_param[name])[0]
            bad = (first_store[(name, pn)], "writes through its parameter `%s`%s, the topology shared by every LP and thread" % (pn, " (in %s)" % " <- ".join(via[(name, pn)]) if (name, pn) in via else ""))
        if bad:
            ck.violated("C19.1", inst, bad[0].where, "%s %s: the answer depends on earlier calls by other LPs / threads and is not repeated after a rollback" % (name, bad[1]), cfg)
        elif unk:
            ck.inconclusive("C19.1", inst, unk[0].where, "%s %s" % (name, unk[1]), cfg)
        else:
            ck.holds("C19.1", inst, f.where, "stores only to locals%s" % (" and through its parameter(s) %s (checked at call sites)" % sorted(writes_param[name]) if name in writes_param else ""), cfg)
    seen = set()
    for callee, pn, c, roots in bound:
        inst = "bound-store:%s(%s)@%s" % (callee, pn, c.fn.name)
        if (inst, c.where) in seen:
            continue
        seen.add((inst, c.where))
        g = [r for rk, r in roots if rk == "global"]
        u = [r for rk, r in roots if rk == "unknown"]
        pp = [r for rk, r in roots if rk == "param"]
        if g:
            ck.violated("C19.1", inst, c.where, "%s writes through its parameter `%s`, which this call binds to the shared array `%s`: concurrent callers race on it and the random choice depends on the order of earlier calls" % (callee, pn, g[0]), cfg)
        elif u:
            ck.inconclusive("C19.1", inst, c.where, "store through a parameter bound to `%s`, a location not recognised" % u[0], cfg)
        elif pp:
            ck.holds("C19.1", inst, c.where, "bound to the caller's parameter `%s` (propagated to %s's own call sites)" % (pp[0], c.fn.name), cfg)
        else:
            ck.holds("C19.1", inst, c.where, "bound to caller-local storage", cfg)


def _pointer_roots(f, name, depth=0):
    """Where may the local pointer `name` of f point?  [(kind, root)] with kind local / param / global / unknown."""
    out = []
    defs = []
    for s in f.walk():
        if s.k == "VarDecl" and s.name == name and s.sc != "param" and s.children:
            defs.append(s.children[-1])
        elif s.k == "BinaryOperator" and s.op == "=":
            t = X.strip(s.children[0])
            if t.k == "DeclRefExpr" and t.name == name and t.d.get("sc") == "local":
                defs.append(s.children[1])
    if not defs:
        return [("unknown", name)]
    for d in defs:
        b = X.strip(d)
        deref = False
        addr = False
        while b is not None and b.k in ("MemberExpr", "ArraySubscriptExpr", "UnaryOperator", "BinaryOperator", "ConditionalOperator", "StmtExpr"):
            if b.k == "UnaryOperator" and b.op == "&":
                addr = True
            elif b.k == "UnaryOperator" and b.op not in ("*",):
                break
            elif b.k == "BinaryOperator":
                if b.op not in ("+", "-"):
                    break
            elif b.k in ("ConditionalOperator", "StmtExpr"):
                break
            b = X.strip(b.children[0])
        if b is None:
            out.append(("unknown", X.show(d)))
        elif X.is_zero(b) or (b.k in ("IntegerLiteral",)):
            continue
        elif b.k == "DeclRefExpr":
            sc = b.d.get("sc")
            if sc == "param":
                out.append(("param", b.name) if b.d.get("tp") else ("local", b.name))
            elif sc == "local":
                if b.name == name:
                    continue
                if b.d.get("tp") and not addr and depth < 4:
                    out.extend(_pointer_roots(f, b.name, depth + 1))
                else:
                    out.append(("local", b.name))
            else:
                out.append(("global", b.name))
        else:
            out.append(("unknown", X.show(d)))
    return out


def _dispatch(ck, P, cfg):
    geos = P.enum("topology_geometry")
    helper = {}
    for name in PUBLIC:
        f = P.fn(name)
        sw = [s for s in f.walk() if s.k == "SwitchStmt" and s.d.get("enum") == "topology_geometry"]
        inst = "geometries@%s" % name
        if len(sw) != 1:
            ck.violated("C19.2", inst, f.where, "%s does not dispatch on the geometry with one switch" % name, cfg)
            continue
        cases = {}
        for c in sw[0].walk():
            if c.k == "CaseStmt" and c.d.get("label") in geos:
                cases[c.d["label"]] = c
        missing = sorted(set(geos) - set(cases))
        if missing:
            ck.violated("C19.2", inst, sw[0].where, "%s has no case for %s" % (name, missing), cfg)
        else:
            ck.holds("C19.2", inst, sw[0].where, "all %d geometries handled" % len(geos), cfg)
        g = f.cfg
        helper[name] = {}
        for c in f.calls():
            if c.callee and c.callee.startswith("get_neighbor_"):
                sc = g.switch_case_of(c)
                if sc:
                    for v in sc[1]:
                        for gname, gv in geos.items():
                            if gv == v:
                                helper[name].setdefault(gname, set()).add(c.callee)
    for gname in sorted(geos):
        a = helper.get("GetReceiver", {}).get(gname, set())
        b = helper.get("IsNeighbor", {}).get(gname, set())
        inst = "same-helper:%s" % gname
        if len(a) != 1:
            ck.violated("C19.2", inst, P.fn("GetReceiver").where, "GetReceiver uses %s for %s" % (sorted(a) or "no helper", gname), cfg)
        elif b and b != a:
            ck.violated("C19.2", inst, P.fn("IsNeighbor").where, "GetReceiver computes %s neighbours with %s but IsNeighbor checks them with %s" % (gname, sorted(a), sorted(b)), cfg)
        else:
            ck.holds("C19.2", inst, P.fn("GetReceiver").where, "%s%s" % (sorted(a)[0], " in both" if b else " (IsNeighbor decides this geometry by ids alone)"), cfg)


def _array_contents(P, name):
    g = [x for x in P.globals.get(name, []) if x.get("def") and "init_fn" in x]
    if not g:
        return None, None
    root = g[0]["init_fn"].root
    vals = []
    for c in root.children:
        n = X.strip(c)
        vals.append(n.name if n.k == "DeclRefExpr" else X.const_int(n))
    return vals, g[0]


def _directions(ck, P, cfg):
    dirs = P.enum("topology_direction")
    isn = P.fn("IsNeighbor")
    for gname, hname in GRID_HELPERS.items():
        h = P.fn(hname)
        sw = [s for s in h.walk() if s.k == "SwitchStmt" and s.d.get("enum") == "topology_direction"]
        inst = "directions:%s" % hname
        if len(sw) != 1:
            ck.inconclusive("C19.3", inst, h.where, "helper does not switch on the direction", cfg)
            continue
        impl = set()
        rnd_arrays = set()
        g = h.cfg
        for c in sw[0].walk():
            if c.k == "CaseStmt" and c.d.get("label") in dirs and c.d["label"] != "DIRECTION_RANDOM":
                impl.add(c.d["label"])
        for c in h.calls("get_random_neighbor"):
            for a in X.callee_args(c):
                a = X.strip(a)
                if a.k == "DeclRefExpr" and a.d.get("sc") not in ("local", "param") and a.name.startswith("directions"):
                    rnd_arrays.add(a.name)
        # IsNeighbor's loop for this geometry
        loop_set = None
        for c in isn.calls(hname):
            lp = c
            while lp is not None and lp.k != "ForStmt":
                lp = lp.parent
            if lp is None:
                continue
            cond = X.strip(lp.children[2])
            bound = X.const_int(cond.children[1]) if cond.k == "BinaryOperator" and cond.op == "<" else None
            iv = [x for x in lp.children[0].walk() if x.k == "VarDecl"]
            if bound is not None and iv and iv[0].children and X.is_zero(iv[0].children[0]):
                loop_set = {n for n, v in dirs.items() if 0 <= v < bound}
        if loop_set is None:
            ck.inconclusive("C19.3", inst + ":isneighbor", isn.where, "IsNeighbor's enumeration for %s not recognised" % gname, cfg)
        elif impl <= loop_set:
            ck.holds("C19.3", inst + ":isneighbor", isn.where, "IsNeighbor tries %s, a superset of the %d directions %s implements" % (sorted(loop_set), len(impl), hname), cfg)
        else:
            ck.violated("C19.3", inst + ":isneighbor", isn.where, "%s implements %s which IsNeighbor never tries for %s: GetReceiver can return a region IsNeighbor denies" % (hname, sorted(impl - loop_set), gname), cfg)
        if len(rnd_arrays) != 1:
            ck.inconclusive("C19.3", inst + ":random", h.where, "candidate array of the random choice not recognised", cfg)
            continue
        arr = rnd_arrays.pop()
        vals, gi = _array_contents(P, arr)
        if vals is None:
            ck.inconclusive("C19.3", inst + ":random", h.where, "initialiser of %s not found" % arr, cfg)
        elif set(vals) == impl and len(vals) == len(set(vals)):
            # size argument covers the whole array
            ck.holds("C19.3", inst + ":random", "%s:%s" % (gi["file"], gi.get("l")), "%s = %s: exactly the directions %s implements" % (arr, vals, hname), cfg)
        elif set(vals) - impl:
            ck.violated("C19.3", inst + ":random", "%s:%s" % (gi["file"], gi.get("l")), "%s offers %s which %s does not implement" % (arr, sorted(set(map(str, vals)) - impl), hname), cfg)
        else:
            ck.violated("C19.3", inst + ":random", "%s:%s" % (gi["file"], gi.get("l")), "%s lacks %s: a region whose only neighbours lie in those directions gets no random neighbour although one exists" % (arr, sorted(impl - set(vals))), cfg)
        # the count passed is the array's length
        for c in h.calls("get_random_neighbor"):
            n_arg = X.const_int(X.callee_args(c)[2])
            if n_arg is not None and vals is not None and n_arg != len(vals):
                ck.violated("C19.3", inst + ":random-count", c.where, "the random choice is told %d candidates but %s has %d" % (n_arg, arr, len(vals)), cfg)


def _lin(fn, e):
    """e as (variable name or None, constant offset), or None."""
    e = Q.resolve_local(fn, e) if X.strip(e).k == "DeclRefExpr" and X.strip(e).d.get("sc") == "local" and not _is_counter(fn, X.strip(e)) else X.strip(e)
    c = X.const_int(e)
    if c is not None:
        return (None, c)
    if e.k == "DeclRefExpr":
        return (e.name, 0)
    if e.k in ("CStyleCastExpr", "ImplicitCastExpr", "ParenExpr"):
        return _lin(fn, e.children[-1])
    if e.k == "BinaryOperator" and e.op in ("+", "-"):
        a, b = _lin(fn, e.children[0]), _lin(fn, e.children[1])
        if a is None or b is None:
            return None
        if e.op == "+" and (a[0] is None or b[0] is None):
            return (a[0] or b[0], a[1] + b[1])
        if e.op == "-" and b[0] is None:
            return (a[0], a[1] - b[1])
    return None


def _is_counter(fn, ref):
    for v in fn.walk():
        if v.k == "DeclRefExpr" and v.did == ref.did and X.is_write_target(v):
            return True
    return False


def _probe_all(ck, P, cfg):
    f = P.fn_opt("get_random_neighbor")
    if f is None:
        ck.broken("C19.4: get_random_neighbor not found")
        return
    count_params = [p["name"] for p in f.params if not p.get("tp") and p["name"] != "from"]
    probes = []
    for c in f.calls():
        if c.callee and (c.callee == "GetReceiver" or c.callee.startswith("get_neighbor_")):
            for a in X.callee_args(c):
                a = X.strip(a)
                if a.k == "ArraySubscriptExpr":
                    probes.append((c, a))
    ck.expect("C19.4", len(probes), 1, "probe calls in get_random_neighbor")
    for c, sub in probes:
        inst = "probe-all@get_random_neighbor"
        arr = X.strip(sub.children[0])
        idx = X.strip(sub.children[1])
        lp = c.parent
        while lp is not None and lp.k not in ("ForStmt", "WhileStmt", "DoStmt"):
            lp = lp.parent
        if lp is None or lp.k != "ForStmt" or idx.k != "DeclRefExpr":
            ck.inconclusive("C19.4", inst, c.where, "the probe is not inside a counted for loop over the candidate index", cfg)
            continue
        init, cond, inc, body = lp.children[0], X.strip(lp.children[2]), X.strip(lp.children[3]), lp.children[4]
        # start value
        start = None
        for v in init.walk():
            if v.k == "VarDecl" and v.name == idx.name and v.children:
                start = X.const_int(v.children[-1])
            elif v.k == "BinaryOperator" and v.op == "=" and X.strip(v.children[0]).k == "DeclRefExpr" and X.strip(v.children[0]).name == idx.name:
                start = X.const_int(v.children[1])
        step_ok = (inc is not None and ((inc.k == "UnaryOperator" and inc.op == "++") or (inc.k == "CompoundAssignOperator" and inc.op == "+=" and X.const_int(inc.children[1]) == 1))
                   and X.strip(inc.children[0]).k == "DeclRefExpr" and X.strip(inc.children[0]).name == idx.name)
        writes_in_body = [v for v in body.walk() if v.k == "DeclRefExpr" and v.did == idx.did and X.is_write_target(v)]
        if start is None or not step_ok or writes_in_body or cond is None or cond.k != "BinaryOperator" or cond.op not in ("<", ">", "!=", "<=", ">="):
            ck.inconclusive("C19.4", inst, lp.where, "loop over the candidates not in the counted form `for(i = 0; i < n; i++)`", cfg)
            continue
        l, r = _lin(f, cond.children[0]), _lin(f, cond.children[1])
        op = cond.op
        if l is not None and r is not None and l[0] != idx.name and r[0] == idx.name:
            l, r = r, l
            op = {"<": ">", ">": "<", "<=": ">=", ">=": "<=", "!=": "!="}[op]
        if l is None or r is None or l[0] != idx.name or r[0] not in count_params or op not in ("<", "<=", "!="):
            ck.inconclusive("C19.4", inst, cond.where, "loop bound `%s` not recognised as a comparison of the index with the candidate count" % X.show(cond), cfg)
            continue
        # i + a OP n + b   <=>   i OP n + (b - a); `<=` admits one more
        last = r[1] - l[1] + (1 if op == "<=" else 0)      # the loop visits indices start .. n + last - 1
        if start > 0 or last < 0:
            ck.violated("C19.4", inst, cond.where, "the probe loop visits candidates %d .. %s%+d-1 only: a region whose only valid direction ends up in a skipped position gets "
                        "INVALID_DIRECTION from DIRECTION_RANDOM although a neighbour exists" % (start, r[0], last), cfg)
            continue
        if start < 0 or last > 0:
            ck.violated("C19.4", inst, cond.where, "the probe loop reads candidate positions outside 0 .. %s-1" % r[0], cfg)
            continue
        # exits of the loop body: only `break` under a test that the probe result is valid
        bad_exit = None
        for v in body.walk():
            if v.k == "ContinueStmt":
                bad_exit = bad_exit or v
            if v.k in ("BreakStmt", "ReturnStmt", "GotoStmt"):
                own = v.parent
                while own is not None and own.k not in ("IfStmt", "ForStmt", "WhileStmt", "DoStmt", "SwitchStmt"):
                    own = own.parent
                conds = [x for x in own.children if x.k == "BinaryOperator"] if own is not None and own.k == "IfStmt" else []
                ok = False
                for t in conds:
                    t = X.strip(t)
                    if t.op == "!=" and any(X.const_int(x) is not None and "INVALID_DIRECTION" in (X.strip(x).d.get("me") or X.strip(x).d.get("m") or []) for x in t.children):
                        ok = True
                if not ok:
                    bad_exit = v
        if bad_exit is not None:
            ck.inconclusive("C19.4", inst, bad_exit.where, "the probe loop has an exit other than `break` on a valid receiver", cfg)
            continue
        ck.holds("C19.4", inst, lp.where, "probes %s[0 .. %s-1], leaving early only with a valid receiver" % (arr.name if arr.k == "DeclRefExpr" else X.show(arr), r[0]), cfg)
        # the candidates are only permuted
        if arr.k != "DeclRefExpr":
            continue
        stores = [s for s, kind, what in _store_targets(f) if what == arr.name and kind in ("local", "local-pointee")]
        inst = "permute@get_random_neighbor"
        pairs_ok = True
        by_block = {}
        for s in stores:
            by_block.setdefault(s.parent.id, []).append(s)
        for blk in by_block.values():
            # swap: a[x] = a[y]; a[y] = t  with  t = a[x] declared/assigned earlier in the same block
            if len(blk) != 2:
                pairs_ok = False
                continue
            s1, s2 = blk
            t1, v1 = X.strip(s1.children[0]), X.strip(s1.children[1])
            t2, v2 = X.strip(s2.children[0]), Q.resolve_local(f, s2.children[1])
            if not (v1.k == "ArraySubscriptExpr" and X.show(v1) == X.show(t2) and v2 is not None and X.show(v2) == X.show(t1) and s1.op == "=" and s2.op == "="):
                pairs_ok = False
        seeded = [c2 for c2 in f.calls() if c2.callee in ("memcpy", "__builtin_memcpy", "__builtin___memcpy_chk") and X.strip(X.callee_args(c2)[0]).k == "DeclRefExpr" and X.strip(X.callee_args(c2)[0]).name == arr.name]
        if arr.d.get("sc") == "param":
            ck.holds("C19.4", inst, f.where, "probes the caller's candidate array itself", cfg) if not stores else ck.inconclusive("C19.4", inst, stores[0].where, "stores into the caller's candidate array", cfg)
        elif not seeded:
            ck.inconclusive("C19.4", inst, f.where, "how `%s` is filled from the candidates is not recognised" % arr.name, cfg)
        elif pairs_ok:
            ck.holds("C19.4", inst, seeded[0].where, "`%s` is a copy of the candidates, changed only by %d pairwise swap(s)" % (arr.name, len(by_block)), cfg)
        else:
            ck.inconclusive("C19.4", inst, stores[0].where, "stores into `%s` are not pairwise swaps: it may no longer hold every candidate" % arr.name, cfg)


def _counts(ck, P, cfg):
    cd = P.fn("CountDirections")
    sw = [s for s in cd.walk() if s.k == "SwitchStmt" and s.d.get("enum") == "topology_geometry"]
    if len(sw) != 1:
        ck.inconclusive("C19.5", "count@CountDirections", cd.where, "no single switch on the geometry", cfg)
        return
    bodies = T.case_bodies(sw[0])
    dirs = {k: v for k, v in P.enum("topology_direction").items() if k != "DIRECTION_RANDOM"}
    n = 0
    for gname, hname in sorted(list(GRID_HELPERS.items())):
        inst = "count:%s" % gname
        h = P.fn(hname)
        try:
            valid = T.helper_validity(h, dirs)
        except T.Wrong as u:
            n += 1
            ck.violated("C19.5", "inside:%s" % hname, u.node.where if u.node is not None else h.where, "%s: %s" % (hname, u.why), cfg)
            continue
        except T.Unknown as u:
            ck.inconclusive("C19.5", inst, u.node.where if u.node is not None else h.where, "%s: %s" % (hname, u.why), cfg)
            continue
        if gname not in bodies:
            ck.inconclusive("C19.5", inst, sw[0].where, "no case for %s" % gname, cfg)
            continue
        n += 1
        # a helper that moves along an axis it does not validate can return a region outside the map
        axis_bad = None
        for d, (per_p, bounded) in valid.items():
            for p, (dx, dy) in per_p.items():
                if (dx and "x" not in bounded) or (dy and "y" not in bounded):
                    axis_bad = d
        if axis_bad:
            ck.violated("C19.5", "inside:%s" % hname, h.where, "%s moves along an axis for %s whose result it does not test against the map size: GetReceiver can return a region outside the topology" % (hname, axis_bad), cfg)
            continue
        ck.holds("C19.5", "inside:%s" % hname, h.where, "every move of %s is by one cell and tested against the map size (or taken modulo it)" % hname, cfg)
        bad = None
        unk = None
        for a in T.assignments():
            want = sum(1 for d, (per_p, bounded) in valid.items() if T.is_valid(per_p, bounded, a))
            ab = T.Abs(cd, a)
            try:
                res = ab.run(bodies[gname])
            except T.Unknown as u:
                unk = u
                break
            if res is None or res[0] != "ret" or not isinstance(res[1], int):
                unk = T.Unknown(bodies[gname][0], "the case does not return a number")
                break
            if res[1] != want and bad is None:
                w, hh, x, y = T.witness(a)
                valid_dirs = sorted(d for d, (per_p, bounded) in valid.items() if T.is_valid(per_p, bounded, a))
                bad = (a, "for a region in %s CountDirections returns %d but %s has a valid receiver for %d fixed direction(s) %s — e.g. width %d, height %d, region %d (x=%d, y=%d)"
                       % (T.describe(a), res[1], hname, want, valid_dirs, w, hh, y * w + x, x, y))
        if unk is not None:
            ck.inconclusive("C19.5", inst, unk.node.where if unk.node is not None else cd.where, "CountDirections/%s: %s" % (gname, unk.why), cfg)
        elif bad:
            ck.violated("C19.5", inst, bodies[gname][0].where, bad[1], cfg)
        else:
            ck.holds("C19.5", inst, bodies[gname][0].where, "CountDirections equals the number of valid fixed directions of %s on all %d attainable combinations of (first/last column, first/last row, row parity)" % (hname, len(T.assignments())), cfg)
    ck.expect("C19.5", n, 3, "grid geometries compared")
    # rings: the count is the number of fixed directions the helper answers
    for gname, hname in (("TOPOLOGY_RING", "get_neighbor_ring"), ("TOPOLOGY_BIDRING", "get_neighbor_bidring")):
        inst = "count:%s" % gname
        h = P.fn_opt(hname)
        if h is None or gname not in bodies:
            ck.inconclusive("C19.5", inst, cd.where, "%s / its case not found" % hname, cfg)
            continue
        try:
            answered = []
            for d, v in sorted(dirs.items()):
                ab = T.Abs(h, {"classify_return": True}, env={"direction": v})
                res = ab.run([c for c in h.root.children])
                if res is None or res[0] != "ret":
                    raise T.Unknown(h.root, "no return reached for %s" % d)
                if res[1] == "VALID":
                    answered.append(d)
            res = T.Abs(cd, {}).run(bodies[gname])
            if res is None or res[0] != "ret" or not isinstance(res[1], int):
                raise T.Unknown(bodies[gname][0], "the case does not return a number")
        except T.Unknown as u:
            ck.inconclusive("C19.5", inst, u.node.where if u.node is not None else h.where, "%s: %s" % (hname, u.why), cfg)
            continue
        if res[1] != len(answered):
            ck.violated("C19.5", inst, bodies[gname][0].where, "CountDirections returns %d but %s answers %d fixed direction(s) %s" % (res[1], hname, len(answered), answered), cfg)
        else:
            ck.holds("C19.5", inst, bodies[gname][0].where, "returns %d = the fixed directions %s answers %s" % (res[1], hname, answered), cfg)
    # rings: what the helper answers is a region of the ring (reduced modulo the number of regions)
    for hname in ("get_neighbor_ring", "get_neighbor_bidring"):
        h = P.fn_opt(hname)
        if h is None:
            continue
        inst = "inside:%s" % hname
        bad = None
        nret = 0
        for r in h.walk():
            if r.k != "ReturnStmt" or not r.children:
                continue
            e = X.strip(r.children[0], casts=True)
            if T._is_invalid(e):
                continue
            nret += 1
            if not (e.k == "BinaryOperator" and e.op == "%" and X.strip(e.children[1], casts=True).k == "MemberExpr" and X.strip(e.children[1], casts=True).name == "regions"):
                bad = bad or r
        if bad is not None:
            ck.violated("C19.5", inst, bad.where, "%s returns `%s`, which is not reduced modulo the number of regions: from the last region it names a region that does not exist" % (hname, X.show(bad.children[0])[:60]), cfg)
        elif nret:
            ck.holds("C19.5", inst, h.where, "every region %s returns is taken modulo the number of regions" % hname, cfg)
    # star: a leaf's only neighbour is the centre, region 0
    h = P.fn_opt("get_neighbor_star")
    if h is not None:
        inst = "leaf-to-centre@get_neighbor_star"
        try:
            res = T.Abs(h, {"Z": False}, env={"direction": dirs and P.enum_const("DIRECTION_RANDOM")}).run(list(h.root.children))
        except T.Unknown as u:
            res = None
        if res is None or res[0] != "ret":
            ck.inconclusive("C19.5", inst, h.where, "leaf branch not evaluable", cfg)
        elif res[1] == 0:
            ck.holds("C19.5", inst, h.where, "a leaf gets region 0, the centre", cfg)
        else:
            ck.violated("C19.5", inst, h.where, "a leaf gets %s instead of the centre (region 0), which is its only neighbour" % _symshow(res[1]), cfg)
    # mesh: the draw is repeated until it differs from `from`
    h = P.fn_opt("get_neighbor_mesh")
    if h is not None:
        inst = "not-self@get_neighbor_mesh"
        draws = [c for c in h.calls() if c.callee in ("Random", "RandomRange", "RandomU64")]
        okl = False
        for c in draws:
            lp = c.parent
            while lp is not None and lp.k not in ("DoStmt", "WhileStmt", "ForStmt"):
                lp = lp.parent
            if lp is not None:
                cond = [x for x in lp.children if x.k not in ("CompoundStmt", "Null")]
                if cond and any(x.k == "BinaryOperator" and x.op == "==" and any(y.k == "DeclRefExpr" and y.name == "from" for y in x.walk()) for x in cond[-1].walk()):
                    okl = True
        if not draws:
            ck.inconclusive("C19.5", inst, h.where, "no random draw", cfg)
        elif okl:
            ck.holds("C19.5", inst, draws[0].where, "the draw is repeated while it equals `from`", cfg)
        else:
            ck.violated("C19.5", inst, draws[0].where, "the random receiver of a full mesh can be `from` itself: CountDirections counts the OTHER regions as neighbours", cfg)
    # star, mesh: number of other regions / one
    for gname, cases in (("TOPOLOGY_FCMESH", [({}, ("R", -1))]), ("TOPOLOGY_STAR", [({"Z": True}, ("R", -1)), ({"Z": False}, 1)])):
        inst = "count:%s" % gname
        if gname not in bodies:
            ck.inconclusive("C19.5", inst, cd.where, "case not found", cfg)
            continue
        try:
            got = [(a, T.Abs(cd, a).run(bodies[gname]), want) for a, want in cases]
        except T.Unknown as u:
            ck.inconclusive("C19.5", inst, u.node.where if u.node is not None else cd.where, u.why, cfg)
            continue
        wrong = [(a, r, want) for a, r, want in got if r is None or r[0] != "ret" or r[1] != want]
        if wrong:
            a, r, want = wrong[0]
            ck.violated("C19.5", inst, bodies[gname][0].where, "CountDirections returns %s for %s, expected %s" % (_symshow(r[1] if r else None), "the centre" if a.get("Z") else "a leaf" if "Z" in a else "a region", _symshow(want)), cfg)
        else:
            ck.holds("C19.5", inst, bodies[gname][0].where, "returns " + ", ".join("%s%s" % (_symshow(w), " (centre)" if a.get("Z") else " (leaf)" if "Z" in a else "") for a, r, w in got), cfg)
    # graph: the length of the adjacency list of `from`
    inst = "count:TOPOLOGY_GRAPH"
    rets = [s for st in bodies.get("TOPOLOGY_GRAPH", []) for s in st.walk() if s.k == "ReturnStmt"]
    if len(rets) != 1:
        ck.inconclusive("C19.5", inst, cd.where, "graph case not a single return", cfg)
    else:
        e = rets[0].children[0]
        names = {x.name for x in e.walk() if x.k in ("MemberExpr", "DeclRefExpr")}
        macro = any("list_size" in ((x.d.get("m") or []) + (x.d.get("me") or [])) for x in e.walk())
        if macro and {"adjacency", "from", "topology"} <= names:
            ck.holds("C19.5", inst, rets[0].where, "returns list_size(topology->adjacency[from])", cfg)
        else:
            ck.violated("C19.5", inst, rets[0].where, "the graph count is not the size of the adjacency list of `from`", cfg)


def _symshow(v):
    if isinstance(v, tuple):
        return {"R": "regions", "W": "width", "H": "height", "F": "from"}.get(v[0], v[0]) + ("%+d" % v[1] if v[1] else "")
    return str(v)


def _lonely(ck, P, cfg):
    n = 0
    for hname in ("get_neighbor_star", "get_neighbor_mesh"):
        h = P.fn_opt(hname)
        if h is None:
            continue
        draws = [c for c in h.calls() if c.callee in ("Random", "RandomRange", "RandomU64")]
        for c in draws:
            n += 1
            inst = "lonely@%s" % hname
            paths, complete = Q.path_conditions(h, c)
            unguarded = None
            for conds in paths:
                ok = False
                for core, t in conds:
                    core = X.strip(core)
                    if core.k != "BinaryOperator" or core.op not in ("==", "!=", "<", ">", "<=", ">="):
                        continue
                    l, r = X.strip(core.children[0], casts=True), X.strip(core.children[1], casts=True)
                    op = core.op
                    if l.k != "MemberExpr" and r.k == "MemberExpr":
                        l, r = r, l
                        op = {"<": ">", ">": "<", "<=": ">=", ">=": "<=", "==": "==", "!=": "!="}[op]
                    k = X.const_int(r)
                    if l.k != "MemberExpr" or l.name != "regions" or k is None:
                        continue
                    # does (regions OP k) == t exclude regions == 1 ?   (regions >= 1 always)
                    holds_at_1 = {"==": 1 == k, "!=": 1 != k, "<": 1 < k, ">": 1 > k, "<=": 1 <= k, ">=": 1 >= k}[op]
                    if bool(holds_at_1) != bool(t):
                        ok = True
                if not ok:
                    unguarded = conds
            if not complete:
                ck.inconclusive("C19.6", inst, c.where, "too many paths", cfg)
            elif unguarded is not None:
                ck.violated("C19.6", inst, c.where, "%s draws a region other than `from` with %s on a path that never tested topology->regions against 1: in a one-region "
                            "topology it returns a region that does not exist (or never returns) instead of INVALID_DIRECTION" % (hname, c.callee), cfg)
            else:
                ck.holds("C19.6", inst, c.where, "the draw is reached only when another region exists", cfg)
    ck.expect("C19.6", n, 2, "random draws of the star / mesh helpers")


def _isneighbor_no_blanket_reject(ck, P, cfg):
    """C19.7 -- IsNeighbor must confirm every region GetReceiver can return.  For the grids, rings and the torus it does so by asking the
    same helper in every direction; that argument fails if a `return false` can be reached BEFORE the geometry is dispatched under a
    condition that is not a pure range check of from / to against the topology (degenerate sizes make GetReceiver return `from` itself)."""
    f = P.fn("IsNeighbor")
    inst = "no-blanket-reject@IsNeighbor"
    sw = [s for s in f.walk() if s.k == "SwitchStmt"]
    if len(sw) != 1:
        ck.inconclusive("C19.7", inst, f.where, "IsNeighbor is not a single dispatch on the geometry", cfg)
        return
    g = f.cfg
    bad = None
    n = 0
    for r in f.walk():
        if r.k != "ReturnStmt" or not r.children or X.const_int(r.children[0]) != 0:
            continue
        if r.is_inside(sw[0]) or g.dominates(sw[0], r):
            continue
        n += 1
        paths, _ = Q.path_conditions(f, r)
        for conds in paths:
            for core, t in conds:
                txt = X.show(core)
                names = {x.name for x in core.walk() if x.k == "DeclRefExpr" and x.d.get("sc") == "param"}
                range_check = ("regions" in txt) and names <= {f.params[0]["name"], f.params[1]["name"], f.params[2]["name"]} and not (
                    f.params[0]["name"] in names and f.params[1]["name"] in names)
                if not range_check and bad is None:
                    bad = (r, txt)
    if bad:
        ck.violated("C19.7", inst, bad[0].where, "IsNeighbor answers false before looking at the geometry when `%s`: in degenerate sizes (a one-region ring, a torus with one row or column) GetReceiver returns a region this test denies" % bad[1][:70], cfg)
    else:
        ck.holds("C19.7", inst, f.where, "%d early rejection(s), each a range check of one region against the topology" % n, cfg)


def _graph_link_search(ck, P, cfg):
    """C19.8 -- AddTopologyLink looks for an existing link from -> to before it appends a new node: the search must end only at the node
    for `to` or at the end of the list (nodes are appended at the tail, so the list is in insertion order, not sorted); a search that can
    stop earlier appends a duplicate, and CountDirections then exceeds the number of distinct neighbours."""
    f = P.fn_opt("AddTopologyLink")
    inst = "link-search@AddTopologyLink"
    if f is None:
        ck.inconclusive("C19.8", inst, "src/lib/topology/topology.c", "AddTopologyLink not found", cfg)
        return
    to = f.params[2]["name"]
    loops = [l for l in f.walk() if l.k in ("WhileStmt", "ForStmt", "DoStmt") and any(x.k == "MemberExpr" and x.name == "neighbor" for x in l.walk())]
    tails = [x for x in f.walk() if any(m_ in ("list_insert_tail", "list_insert_head") for m_ in x.macros)] or [c for c in f.calls() if c.callee and "insert" in c.callee]
    if len(loops) != 1:
        ck.inconclusive("C19.8", inst, f.where, "the search for an existing link was not recognised", cfg)
        return
    l = loops[0]
    cond = [x for x in l.children if x.k != "Null"][0] if l.k != "ForStmt" else l.children[2]
    rel = [x for x in cond.walk() if x.k == "BinaryOperator" and x.op in ("<", "<=", ">", ">=", "!=", "==") and any(y.k == "MemberExpr" and y.name == "neighbor" for y in x.walk())
           and any(y.k == "DeclRefExpr" and y.name == to for y in x.walk())]
    sorted_insert = any("sorted" in (m_ or "") or "ordered" in (m_ or "") for x in f.walk() for m_ in x.macros)
    if not rel:
        ck.inconclusive("C19.8", inst, cond.where, "the loop does not compare a node's neighbour with the requested one", cfg)
    elif all(x.op == "!=" for x in rel):
        ck.holds("C19.8", inst, cond.where, "the search goes on while the node's neighbour differs from the requested one: it ends at the link or at the end of the list", cfg)
    elif sorted_insert:
        ck.inconclusive("C19.8", inst, cond.where, "an ordered search over a list maintained by an ordered insertion: not decided", cfg)
    else:
        ck.violated("C19.8", inst, cond.where, "the search for an existing link stops on `%s`, i.e. it assumes a sorted list, but new links are appended at the tail: adding a link that exists behind a larger neighbour appends a duplicate node and CountDirections counts it" % X.show(rel[0])[:50], cfg)


def _random_choice_terminates(ck, P, cfg):
    """C19.9 -- the random choice over the grid candidates returns for every region, including one without neighbours (a 1x1 map): a loop in
    get_random_neighbor that can only end by FINDING a valid receiver never ends there."""
    f = P.fn("get_random_neighbor")
    inst = "terminates@get_random_neighbor"
    g = f.cfg
    bad = None
    n = 0
    for l in f.walk():
        if l.k not in ("WhileStmt", "DoStmt", "ForStmt"):
            continue
        if not any(c.callee == "GetReceiver" or (c.callee or "").startswith("get_neighbor_") for c in f.calls() if c.is_inside(l)):
            continue
        n += 1
        if l.k == "ForStmt":
            cond = l.children[2]
        else:
            cond = [x for x in l.children if x.k != "Null"][0 if l.k == "WhileStmt" else -1]
        # a bound on the number of iterations: the condition (or a break) compares a counter that the loop advances
        counters = {X.strip(u.children[0]).name for u in l.walk() if u.k == "UnaryOperator" and u.op in ("++", "--") and X.strip(u.children[0]).k == "DeclRefExpr"}
        counters |= {X.strip(u.children[0]).name for u in l.walk() if u.k == "CompoundAssignOperator" and X.strip(u.children[0]).k == "DeclRefExpr"}
        tests = [cond] + [i.children[0] for i in l.walk() if i.k == "IfStmt" and any(b.k in ("BreakStmt", "ReturnStmt") for b in i.walk())]
        bounded = any(x.k == "DeclRefExpr" and x.name in counters for t_ in tests if t_ is not None and t_.k != "Null" for x in t_.walk())
        if not bounded and bad is None:
            bad = l
    if n == 0:
        ck.inconclusive("C19.9", inst, f.where, "no probing loop recognised", cfg)
    elif bad is not None:
        ck.violated("C19.9", inst, bad.where, "the loop that draws a direction ends only when a valid receiver is found: for a region without neighbours (a 1x1 map) GetReceiver(from, DIRECTION_RANDOM) never returns", cfg)
    else:
        ck.holds("C19.9", inst, f.where, "every probing loop is bounded by a counter it advances", cfg)
