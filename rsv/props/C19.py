"""C19 — topology queries are mutually consistent and rollback-safe: structural clauses."""
from .. import expr as X
from .. import query as Q

PUBLIC = ("GetReceiver", "CountDirections", "IsNeighbor")
GRID_HELPERS = {"TOPOLOGY_HEXAGON": "get_neighbor_hexagon", "TOPOLOGY_SQUARE": "get_neighbor_square", "TOPOLOGY_TORUS": "get_neighbor_torus"}
IO_OK = {"fprintf", "printf", "fputs", "puts", "__assert_fail", "abort", "__builtin_expect", "__builtin_unreachable"}


def _store_targets(f):
    """(node, kind, name): stores of f classified by what they write: local / param-pointee / global."""
    out = []
    for s in f.walk():
        tgt = None
        if s.k in ("BinaryOperator", "CompoundAssignOperator") and (s.k == "CompoundAssignOperator" or s.op == "="):
            tgt = X.strip(s.children[0])
        elif s.k == "UnaryOperator" and s.op in ("++", "--"):
            tgt = X.strip(s.children[0])
        if tgt is None:
            continue
        b = tgt
        deref = False
        while b is not None and b.k in ("MemberExpr", "ArraySubscriptExpr", "UnaryOperator"):
            if b.k == "MemberExpr" and b.arrow:
                deref = True
            if b.k == "ArraySubscriptExpr":
                inner = X.strip(b.children[0])
                if inner.d.get("tp") or (inner.k == "DeclRefExpr" and inner.d.get("sc") == "param"):
                    deref = True
            if b.k == "UnaryOperator":
                if b.op != "*":
                    break
                deref = True
            b = X.strip(b.children[0])
        if b is None or b.k != "DeclRefExpr":
            out.append((s, "unknown", X.show(tgt)))
            continue
        sc = b.d.get("sc")
        if sc == "local":
            out.append((s, "local-pointee" if (deref and b.d.get("tp")) else "local", b.name))
        elif sc == "param":
            out.append((s, "param-pointee" if deref else "local", b.name))
        else:
            out.append((s, "global", b.name))
    return out


def run(ck, progs):
    ck.not_decided = ("the arithmetic of CountDirections and of receiver validity for degenerate sizes (1xN, Nx1, 1x1 grids, one-region star): "
                      "numeric facts over all sizes, outside this technique")
    ck.rule("C19.1", "purity: everything reachable from GetReceiver / CountDirections / IsNeighbor writes only its own locals (a store through a "
                     "parameter counts as a store to whatever call sites bind to it); no function-static state; randomness comes only from "
                     "the calling LP's generator")
    ck.rule("C19.2", "the three query functions handle all eight geometries; GetReceiver and IsNeighbor use the same per-geometry helper")
    ck.rule("C19.3", "direction coverage: the directions each grid helper implements are all enumerated by IsNeighbor's loop for that geometry "
                     "and are exactly the candidates offered to the random choice")
    for cfg, P in progs.items():
        _purity(ck, P, cfg)
        _dispatch(ck, P, cfg)
        _directions(ck, P, cfg)


def _purity(ck, P, cfg):
    cg = Q.call_graph(P)
    topo = {f.name for f in P.all_functions() if f.file.endswith("lib/topology/topology.c")}
    reach = Q.reachable_functions(P, PUBLIC, {k: {c for c in v if c in topo} for k, v in cg.items()})
    n = 0
    # which parameters does each function write through?
    writes_param = {}
    for name in sorted(reach):
        f = P.fn_opt(name)
        if f is None:
            continue
        n += 1
        inst = "pure@%s" % name
        bad = None
        for s, kind, what in _store_targets(f):
            if kind == "global":
                bad = (s, "writes the shared variable `%s`" % what)
            elif kind == "param-pointee":
                writes_param.setdefault(name, set()).add(what)
            elif kind == "local-pointee":
                # pointer local: where does it point? accept pointers to locals only
                bad = bad or None
        for v in f.walk():
            if v.k == "VarDecl" and v.sc == "static_local":
                bad = (v, "keeps state in the function-static `%s`" % v.name)
        for c in f.calls():
            if c.callee and c.callee not in topo and c.callee not in IO_OK and c.callee not in ("Random", "RandomRange", "RandomU64", "memcpy", "__builtin_memcpy", "__builtin___memcpy_chk", "list_size") and not c.d.get("builtin"):
                if c.callee in ("malloc", "free", "memset", "va_start"):
                    bad = (c, "calls %s" % c.callee)
        if bad:
            ck.violated("C19.1", inst, bad[0].where, "%s %s: the answer depends on earlier calls by other LPs / threads and is not repeated after a rollback" % (name, bad[1]), cfg)
        else:
            ck.holds("C19.1", inst, f.where, "stores only to locals%s" % (" and through its parameter(s) %s (checked at call sites)" % sorted(writes_param[name]) if name in writes_param else ""), cfg)
    ck.expect("C19.1", n, 10, "functions reachable from the topology queries")
    # bind parameter stores at call sites
    for callee, params in writes_param.items():
        F = P.fn(callee)
        idx = {p["name"]: i for i, p in enumerate(F.params)}
        for c in P.callers(callee):
            if c.fn.name not in reach:
                continue
            for pn in params:
                a = X.strip(X.callee_args(c)[idx[pn]])
                base = a
                while base is not None and base.k in ("UnaryOperator", "ArraySubscriptExpr", "MemberExpr"):
                    base = X.strip(base.children[0])
                inst = "bound-store:%s(%s)@%s" % (callee, pn, c.fn.name)
                if base is not None and base.k == "DeclRefExpr" and base.d.get("sc") not in ("local", "param"):
                    ck.violated("C19.1", inst, c.where, "%s writes through its parameter `%s`, which this call binds to the shared array `%s`: concurrent callers race on it and the random choice depends on the order of earlier calls" % (callee, pn, base.name), cfg)
                elif base is not None and base.k == "DeclRefExpr" and base.d.get("sc") == "param":
                    writes_more = True
                    ck.inconclusive("C19.1", inst, c.where, "store through a parameter forwarded from the caller's caller", cfg)
                else:
                    ck.holds("C19.1", inst, c.where, "bound to caller-local storage", cfg)


def _dispatch(ck, P, cfg):
    geos = P.enum("topology_geometry")
    helper = {}
    for name in PUBLIC:
        f = P.fn(name)
        sw = [s for s in f.walk() if s.k == "SwitchStmt" and s.d.get("enum") == "topology_geometry"]
        inst = "geometries@%s" % name
        if len(sw) != 1:
            ck.violated("C19.2", inst, f.where, "%s does not dispatch on the geometry with one switch" % name, cfg)
            continue
        cases = {}
        for c in sw[0].walk():
            if c.k == "CaseStmt" and c.d.get("label") in geos:
                cases[c.d["label"]] = c
        missing = sorted(set(geos) - set(cases))
        if missing:
            ck.violated("C19.2", inst, sw[0].where, "%s has no case for %s" % (name, missing), cfg)
        else:
            ck.holds("C19.2", inst, sw[0].where, "all %d geometries handled" % len(geos), cfg)
        g = f.cfg
        helper[name] = {}
        for c in f.calls():
            if c.callee and c.callee.startswith("get_neighbor_"):
                sc = g.switch_case_of(c)
                if sc:
                    for v in sc[1]:
                        for gname, gv in geos.items():
                            if gv == v:
                                helper[name].setdefault(gname, set()).add(c.callee)
    for gname in sorted(geos):
        a = helper.get("GetReceiver", {}).get(gname, set())
        b = helper.get("IsNeighbor", {}).get(gname, set())
        inst = "same-helper:%s" % gname
        if len(a) != 1:
            ck.violated("C19.2", inst, P.fn("GetReceiver").where, "GetReceiver uses %s for %s" % (sorted(a) or "no helper", gname), cfg)
        elif b and b != a:
            ck.violated("C19.2", inst, P.fn("IsNeighbor").where, "GetReceiver computes %s neighbours with %s but IsNeighbor checks them with %s" % (gname, sorted(a), sorted(b)), cfg)
        else:
            ck.holds("C19.2", inst, P.fn("GetReceiver").where, "%s%s" % (sorted(a)[0], " in both" if b else " (IsNeighbor decides this geometry by ids alone)"), cfg)


def _array_contents(P, name):
    g = [x for x in P.globals.get(name, []) if x.get("def") and "init_fn" in x]
    if not g:
        return None, None
    root = g[0]["init_fn"].root
    vals = []
    for c in root.children:
        n = X.strip(c)
        vals.append(n.name if n.k == "DeclRefExpr" else X.const_int(n))
    return vals, g[0]


def _directions(ck, P, cfg):
    dirs = P.enum("topology_direction")
    isn = P.fn("IsNeighbor")
    for gname, hname in GRID_HELPERS.items():
        h = P.fn(hname)
        sw = [s for s in h.walk() if s.k == "SwitchStmt" and s.d.get("enum") == "topology_direction"]
        inst = "directions:%s" % hname
        if len(sw) != 1:
            ck.inconclusive("C19.3", inst, h.where, "helper does not switch on the direction", cfg)
            continue
        impl = set()
        rnd_arrays = set()
        g = h.cfg
        for c in sw[0].walk():
            if c.k == "CaseStmt" and c.d.get("label") in dirs and c.d["label"] != "DIRECTION_RANDOM":
                impl.add(c.d["label"])
        for c in h.calls("get_random_neighbor"):
            for a in X.callee_args(c):
                a = X.strip(a)
                if a.k == "DeclRefExpr" and a.d.get("sc") not in ("local", "param") and a.name.startswith("directions"):
                    rnd_arrays.add(a.name)
        # IsNeighbor's loop for this geometry
        loop_set = None
        for c in isn.calls(hname):
            lp = c
            while lp is not None and lp.k != "ForStmt":
                lp = lp.parent
            if lp is None:
                continue
            cond = X.strip(lp.children[2])
            bound = X.const_int(cond.children[1]) if cond.k == "BinaryOperator" and cond.op == "<" else None
            iv = [x for x in lp.children[0].walk() if x.k == "VarDecl"]
            if bound is not None and iv and iv[0].children and X.is_zero(iv[0].children[0]):
                loop_set = {n for n, v in dirs.items() if 0 <= v < bound}
        if loop_set is None:
            ck.inconclusive("C19.3", inst + ":isneighbor", isn.where, "IsNeighbor's enumeration for %s not recognised" % gname, cfg)
        elif impl <= loop_set:
            ck.holds("C19.3", inst + ":isneighbor", isn.where, "IsNeighbor tries %s, a superset of the %d directions %s implements" % (sorted(loop_set), len(impl), hname), cfg)
        else:
            ck.violated("C19.3", inst + ":isneighbor", isn.where, "%s implements %s which IsNeighbor never tries for %s: GetReceiver can return a region IsNeighbor denies" % (hname, sorted(impl - loop_set), gname), cfg)
        if len(rnd_arrays) != 1:
            ck.inconclusive("C19.3", inst + ":random", h.where, "candidate array of the random choice not recognised", cfg)
            continue
        arr = rnd_arrays.pop()
        vals, gi = _array_contents(P, arr)
        if vals is None:
            ck.inconclusive("C19.3", inst + ":random", h.where, "initialiser of %s not found" % arr, cfg)
        elif set(vals) == impl and len(vals) == len(set(vals)):
            # size argument covers the whole array
            ck.holds("C19.3", inst + ":random", "%s:%s" % (gi["file"], gi.get("l")), "%s = %s: exactly the directions %s implements" % (arr, vals, hname), cfg)
        elif set(vals) - impl:
            ck.violated("C19.3", inst + ":random", "%s:%s" % (gi["file"], gi.get("l")), "%s offers %s which %s does not implement" % (arr, sorted(set(map(str, vals)) - impl), hname), cfg)
        else:
            ck.violated("C19.3", inst + ":random", "%s:%s" % (gi["file"], gi.get("l")), "%s lacks %s: a region whose only neighbours lie in those directions gets no random neighbour although one exists" % (arr, sorted(impl - set(vals))), cfg)
        # the count passed is the array's length
        for c in h.calls("get_random_neighbor"):
            n_arg = X.const_int(X.callee_args(c)[2])
            if n_arg is not None and vals is not None and n_arg != len(vals):
                ck.violated("C19.3", inst + ":random-count", c.where, "the random choice is told %d candidates but %s has %d" % (n_arg, arr, len(vals)), cfg)
