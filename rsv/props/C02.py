"""C02 — distributed equals sequential: the structural clauses of the MPI path."""
import itertools

from .. import rules_mpi
from .. import expr as X
from .. import query as Q
from .. import interp
from .. import rules_gvt, rules_msg, rules_part
from .C11 import Renamed

M32 = (1 << 32) - 1


def run(ck, progs):
    ck.not_decided = ("THE EQUIVALENCE ITSELF under arbitrary delivery delays, inter-sender reordering and completion times of the non-blocking "
                      "collectives (a property of schedules and network behaviours); MPI's own guarantees")
    ck.rule("C02.1", "wire discrimination: control, anti and event messages have pairwise distinct sizes in this struct layout, in the order "
                     "control < anti < smallest event, and the receive path tests exactly those sizes")
    ck.rule("C02.2", "the transmitted anti-message prefix contains every field its receiver reads; fields outside it that the receiver reads "
                     "are initialised on the anti receive path; flags and raw_flags alias exactly")
    ck.rule("C02.3", "every remote send is stamped and counted once before its MPI send, every receive counted once by the helper of its kind")
    ck.rule("C02.4", "remote identifier pipeline, evaluated over representative (rank, thread, colour, sequence) values through the four helpers: "
                     "the colour bit read on receive is the one written on send; after the masks the event word and the anti word differ by "
                     "exactly the ANTI bit; the word is > ANTI|PROCESSED (that is how remote messages are recognised); distinct senders get "
                     "distinct words; each helper bumps its counter once")
    ck.rule("C02.5", "both anti-message matchers compare the same identifying fields (sender word and sequence number)")
    ck.rule("C02.6", "a remotely cancelled buffer is released only through the at-GVT list (the non-blocking send may still read it)")
    ck.rule("C02.7", "events and anti-messages are routed with lid_to_nid of the destination LP")
    ck.rule("C02.8", "both anti-message matchers search exhaustively: an anti-message is declared early (and an event declared not cancelled) only "
                     "when the end of the list was reached; nothing but the end-of-list test and the identity tests decides that outcome")
    ck.rule("C02.9", "MPI point-to-point signatures: bytes on the send side, in the size query and on the receive side; the tag probed is the tag "
                     "sent; MPI_COMM_WORLD everywhere; asynchronous polling accepts any source; MPI_THREAD_MULTIPLE requested and tested")
    ck.rule("C02.10", "an event travels whole: the byte count sent is (header after the preamble) + payload size for every payload size, the receiver "
                      "derives the payload size from the received byte count by the inverse arithmetic, and nobody else rewrites lp_msg.pl_size")
    for cfg, P in progs.items():
        _sizes(ck, P, cfg)
        _prefix(ck, P, cfg)
        rules_gvt.check_stamp_and_count(ck, P, "C02.3")
        rules_gvt.check_receive_kind(ck, P, "C02.3")
        _ids(ck, P, cfg)
        _matchers(ck, P, cfg)
        _exhaustive(ck, P, cfg)
        _matched_only(ck, P, cfg)
        rules_mpi.check_p2p(ck, P, "C02.9")
        rules_msg.check_deferred_free(ck, P, "C02.6")
        rules_part.check_routing_users(Renamed(ck, {}), P, "C02.7")
        from . import C11
        C11._pl_size(Renamed(ck, {"C11.4": "C02.10"}), P, cfg)


def _layout(P):
    f = {x["name"]: x for x in P.record("lp_msg")["fields"]}
    pre = f["dest"]["off"]
    anti = f["m_seq"]["off"] - pre + f["m_seq"]["size"]
    ev0 = f["pl"]["off"] - pre
    return f, pre, anti, ev0


def _sizes(ck, P, cfg):
    f, pre, anti, ev0 = _layout(P)
    ctrl = P.enums["msg_ctrl_code"]["size"]
    where = "src/lp/msg.h"
    if ctrl < anti < ev0:
        ck.holds("C02.1", "sizes", where, "control %d < anti-message %d < empty event %d bytes" % (ctrl, anti, ev0), cfg)
    else:
        ck.violated("C02.1", "sizes", where, "control %d, anti-message %d, empty event %d bytes are not strictly increasing: the receiver, which tells the kinds apart by size alone, confuses them" % (ctrl, anti, ev0), cfg)
    # what the code computes
    s = P.fn("mpi_remote_anti_msg_send")
    sz = [X.const_int(Q.resolve_local(s, X.callee_args(c)[1])) for c in s.calls("MPI_Isend")]
    if sz == [anti]:
        ck.holds("C02.1", "anti-size-macro", s.where, "msg_remote_anti_size() = %d = offsetof(m_seq) - preamble + sizeof(m_seq)" % anti, cfg)
    else:
        ck.violated("C02.1", "anti-size-macro", s.where, "the anti-message is sent with %s bytes; the layout gives %d" % (sz, anti), cfg)
    c = P.fn("mpi_control_msg_send_to")
    sz = [X.const_int(X.callee_args(x)[1]) for x in c.calls("MPI_Isend")]
    if sz == [ctrl]:
        ck.holds("C02.1", "ctrl-size", c.where, "control messages are %d bytes" % ctrl, cfg)
    else:
        ck.violated("C02.1", "ctrl-size", c.where, "control messages are sent with %s bytes, the receiver expects %d" % (sz, ctrl), cfg)
    # tests on the receive paths
    for fname in ("mpi_remote_msg_handle", "mpi_remote_msg_drain"):
        h = P.fn(fname)
        consts = set()
        for n in h.walk():
            if n.k == "BinaryOperator" and n.op in ("<=", "==", "!=", "<", ">", ">=") and "size" in X.show(n.children[0]):
                v = X.const_int(n.children[1])
                if v is not None and v > 0:
                    consts.add(({"!=": "==", ">": "<="}.get(n.op, n.op), v))
        need = {("==", ctrl)} | ({("<=", anti)} if fname.endswith("handle") else {("==", anti)})
        if need <= consts:
            ck.holds("C02.1", "tests@%s" % fname, h.where, "size tests %s" % sorted(consts), cfg)
        else:
            ck.violated("C02.1", "tests@%s" % fname, h.where, "size tests %s do not separate control (%d) / anti (%d) / event (>= %d) messages" % (sorted(consts), ctrl, anti, ev0), cfg)


def _prefix(ck, P, cfg):
    f, pre, anti, ev0 = _layout(P)
    lo, hi = pre, pre + anti
    inside = {n for n, x in f.items() if x["size"] and lo <= x["off"] and x["off"] + x["size"] <= hi}
    # which fields of a message do the functions on the receive side read?
    readers = {}
    for fn in P.all_functions():
        if not (fn.file.endswith(("lp/process.c", "lp/msg.h", "datatypes/msg_queue.c", "mm/msg_allocator.c", "gvt/termination.c", "gvt/fossil.c")) or fn.name.startswith("gvt_remote_")):
            continue
        for n in fn.walk():
            if n.k == "MemberExpr" and n.rec == "lp_msg" and n.d.get("name") and Q.access_kind(n) in ("read", "atomic-load", "atomic-rmw", "rmw-plain"):
                readers.setdefault(n.name, set()).add(fn.name)
    h = P.fn("mpi_remote_msg_handle")
    inits = set()
    for n in h.walk():
        if n.k == "BinaryOperator" and n.op == "=":
            t = X.strip(n.children[0])
            if t.k == "MemberExpr" and t.rec == "lp_msg":
                inits.add(t.name)
    for name in sorted(readers):
        inst = "anti-field:%s" % name
        if name in inside:
            ck.holds("C02.2", inst, "src/lp/msg.h", "transmitted (offset %d within [%d,%d))" % (f[name]["off"], lo, hi), cfg)
        elif name in inits:
            ck.holds("C02.2", inst, h.where, "not transmitted, initialised on the anti receive path", cfg)
        elif name == "next":
            ck.holds("C02.2", inst, "src/lp/msg.h", "queue link, written by the queue before it is read", cfg)
        elif name in ("pl", "extra_pl"):
            if "pl_size" in inits:
                ck.holds("C02.2", inst, h.where, "payload is never read for an anti-message: pl_size is initialised to 0", cfg)
            else:
                ck.violated("C02.2", inst, h.where, "the comparator may read the payload of an anti-message whose pl_size was not initialised", cfg)
        elif name in ("send", "send_t"):
            ck.holds("C02.2", inst, "src/lp/msg.h", "debug-only field", cfg) if name in inside else ck.inconclusive("C02.2", inst, "src/lp/msg.h", "debug-only field outside the prefix", cfg)
        else:
            ck.violated("C02.2", inst, "src/lp/msg.h", "lp_msg.%s is read on the receive side (%s) but an anti-message neither carries it (offset %d is outside [%d,%d)) nor has it initialised: the receiver acts on stale bytes of a recycled buffer" % (
                name, sorted(readers[name])[:3], f[name]["off"], lo, hi), cfg)
    ck.expect("C02.2", len(readers), 6, "lp_msg fields read on the receive side")
    # the anti receive buffer is allocated for an empty payload: the wire must not overwrite the size recorded for it
    inst = "anti-field:pl_size-not-transmitted"
    if "pl_size" in inside or (f["pl_size"]["off"] < hi and f["pl_size"]["off"] + f["pl_size"]["size"] > lo):
        ck.violated("C02.2", inst, "src/lp/msg.h", "lp_msg.pl_size (offset %d) lies inside the transmitted anti-message prefix [%d,%d): the receiver allocates a buffer for an empty payload and records 0, then the receive overwrites it with the payload size of the ORIGINAL message; the tie-break compares that many payload bytes of a buffer that has none, and the buffer is released to the wrong pool" % (f["pl_size"]["off"], lo, hi), cfg)
    else:
        ck.holds("C02.2", inst, "src/lp/msg.h", "pl_size lies outside the transmitted prefix: the size recorded by the receiver (0) stands", cfg)
    if f["flags"]["off"] == f["raw_flags"]["off"] and f["flags"]["size"] == f["raw_flags"]["size"]:
        ck.holds("C02.2", "alias", "src/lp/msg.h", "flags and raw_flags occupy the same %d bytes" % f["flags"]["size"], cfg)
    else:
        ck.violated("C02.2", "alias", "src/lp/msg.h", "flags and raw_flags do not alias exactly", cfg)
    if f["next"]["off"] + f["next"]["size"] <= pre:
        ck.holds("C02.2", "preamble", "src/lp/msg.h", "the list link lies in the preamble that is not transmitted", cfg)
    else:
        ck.violated("C02.2", "preamble", "src/lp/msg.h", "the list link is part of the transmitted data: a received message overwrites queue state", cfg)


def _ids(ck, P, cfg):
    ANTI, PROC = P.enum_const("MSG_FLAG_ANTI"), P.enum_const("MSG_FLAG_PROCESSED")
    snd, asn, rcv, arc = (P.fn(n) for n in ("gvt_remote_msg_send", "gvt_remote_anti_msg_send", "gvt_remote_msg_receive", "gvt_remote_anti_msg_receive"))
    max_thr = 1 << 12
    max_nodes = 1 << 16
    for name, lst in P.globals.items():
        pass
    # MAX_THREADS / MAX_NODES from the array bounds the runtime itself declares
    for g in P.globals.get("reducing_p", []):
        if g.get("nelem"):
            max_thr = g["nelem"]
    for g in P.globals.get("remote_msg_seq", []):
        pass
    nids = [0, 1, 2, max_nodes - 1]
    rids = [0, 1, max_thr - 2, max_thr - 1]
    if getattr(ck, "tier", "quick") == "thorough":
        # thorough: every thread id the runtime can have, against a spread of ranks (distinctness is checked over all of them)
        rids = list(range(max_thr))
        nids = [0, 1, 2, 255, 256, max_nodes - 2, max_nodes - 1]
    problems = []
    words = {}
    n_eval = 0
    m = snd.params[0]["name"]
    d = snd.params[1]["name"]
    full = len(rids) > 8
    brids = [0, 1, max_thr - 2, max_thr - 1]
    combos = itertools.product(nids, brids, (0, 1), (0, 1), (0, 5, (1 << 31) - 1))
    if full:
        combos = itertools.chain(combos, ((n_, r_, c_, c_, 5) for n_ in nids for r_ in rids for c_ in (0, 1)))
    for nid, rid, ph, ph2, seq in combos:
        n_eval += 1
        env = {"nid": nid, "rid": rid, "gvt_phase": ph, d: 3, "remote_msg_seq[%d][3]" % ph: seq}
        o = interp.Interp(snd).run(env)
        if len(o) != 1 or o[0].env.get("%s->raw_flags" % m) is None or o[0].env.get("%s->m_seq" % m) is None:
            ck.inconclusive("C02.4", "id-pipeline", snd.where, "cannot evaluate gvt_remote_msg_send", cfg)
            return
        raw, mseq = o[0].env["%s->raw_flags" % m] & M32, o[0].env["%s->m_seq" % m] & M32
        if o[0].env.get("remote_msg_seq[%d][3]" % ph) != seq + 1:
            problems.append(("send-count", "gvt_remote_msg_send does not advance the per-destination counter of the current colour by exactly one"))
        # receive of the event
        rm = rcv.params[0]["name"]
        o2 = interp.Interp(rcv).run({"%s->raw_flags" % rm: raw, "remote_msg_received[0]": 0, "remote_msg_received[1]": 0})
        e2 = o2[0].env
        if e2.get("remote_msg_received[%d]" % ph) != 1 or e2.get("remote_msg_received[%d]" % (1 - ph)) != 0:
            problems.append(("colour-event", "an event stamped with colour %d is counted as received for colour %s (rank %d thread %d)" % (ph, [k for k in (0, 1) if e2.get("remote_msg_received[%d]" % k)], nid, rid)))
        w = e2.get("%s->raw_flags" % rm)
        if w is None:
            ck.inconclusive("C02.4", "id-pipeline", rcv.where, "cannot evaluate gvt_remote_msg_receive", cfg)
            return
        w &= M32
        if not w > (ANTI | PROC):
            problems.append(("recognised-remote", "the identifier of a message from rank %d thread %d is %#x after masking: not above ANTI|PROCESSED, so the receiver treats the event and its anti-message as LOCAL ones (the anti-message is dropped or the event never matched)" % (nid, rid, w)))
        if w & (ANTI | PROC):
            problems.append(("flag-bits-clear", "the received identifier %#x has protocol flag bits set" % w))
        # anti-message: stamped on the sender's copy (which still carries the word as stamped)
        am = asn.params[0]["name"]
        ad = asn.params[1]["name"]
        o3 = interp.Interp(asn).run({"%s->raw_flags" % am: raw, "gvt_phase": ph2, ad: 3, "remote_msg_seq[%d][3]" % ph2: seq})
        e3 = o3[0].env
        if e3.get("remote_msg_seq[%d][3]" % ph2) != seq + 1:
            problems.append(("anti-send-count", "gvt_remote_anti_msg_send does not advance the counter of the current colour by exactly one"))
        raw_a = e3.get("%s->raw_flags" % am)
        arm = arc.params[0]["name"]
        o4 = interp.Interp(arc).run({"%s->raw_flags" % arm: raw_a, "remote_msg_received[0]": 0, "remote_msg_received[1]": 0})
        e4 = o4[0].env
        if raw_a is None or e4.get("%s->raw_flags" % arm) is None:
            ck.inconclusive("C02.4", "id-pipeline", arc.where, "cannot evaluate the anti-message helpers", cfg)
            return
        if e4.get("remote_msg_received[%d]" % ph2) != 1 or e4.get("remote_msg_received[%d]" % (1 - ph2)) != 0:
            problems.append(("colour-anti", "an anti-message sent under colour %d (event colour %d) is counted for colour %s" % (ph2, ph, [k for k in (0, 1) if e4.get("remote_msg_received[%d]" % k)])))
        # the event's buffer is handed to a NON-BLOCKING send and the anti-message colour is later stamped into that same buffer:
        # MPI may read the event after the stamping, so the event can arrive carrying the anti colour bit as well
        o5 = interp.Interp(rcv).run({"%s->raw_flags" % rm: raw_a, "remote_msg_received[0]": 0, "remote_msg_received[1]": 0})
        w5 = o5[0].env.get("%s->raw_flags" % rm)
        if w5 is None or (w5 & M32) != w or o5[0].env.get("remote_msg_received[%d]" % ph) != 1:
            problems.append(("late-read", "an event whose buffer MPI reads after its sender stamped the anti-message colour %d into it arrives as %#x instead of %#x: it looks already "
                             "processed / carries a different sender word, so neither its anti-message nor an early anti-message ever matches it" % (ph2, (w5 or 0) & M32, w)))
        wa = e4["%s->raw_flags" % arm] & M32
        if wa != (w | ANTI):
            problems.append(("anti-matches-event", "event word %#x but anti-message word %#x (expected %#x): the two can never be matched" % (w, wa, w | ANTI)))
        words.setdefault(w, set()).add((nid, rid))
    clash = {w: s for w, s in words.items() if len(s) > 1}
    if clash:
        w, s = sorted(clash.items())[0]
        problems.append(("distinct-senders", "senders %s (rank, thread) all get the identifier %#x: an anti-message of one can cancel an event of another with the same sequence number" % (sorted(s), w)))
    seen = set()
    for key, text in problems:
        if key in seen:
            continue
        seen.add(key)
        ck.violated("C02.4", "id:%s" % key, snd.where if "send" in key or key in ("recognised-remote", "distinct-senders", "flag-bits-clear") else rcv.where, text, cfg)
    for key in ("send-count", "colour-event", "recognised-remote", "flag-bits-clear", "anti-send-count", "colour-anti", "late-read", "anti-matches-event", "distinct-senders"):
        if key not in seen:
            ck.holds("C02.4", "id:%s" % key, snd.where, "over %d (rank, thread, colours, sequence) combinations incl. rank %d and thread %d" % (n_eval, nids[-1], rids[-1]), cfg)
    ck.meta["c02_id_evaluations"] = n_eval
    # the test that recognises remote messages is "> ANTI|PROCESSED" on the value the RMW returned (C06.1 checks the dispatch)
    # sequence number carries the colour in bit 0 and never collides within a colour: m_seq = (counter << 1) | colour
    o = interp.Interp(snd).run({"nid": 0, "rid": 0, "gvt_phase": 1, d: 3, "remote_msg_seq[1][3]": 5})
    if (o[0].env.get("%s->m_seq" % m) or 0) & M32 == ((5 << 1) | 1):
        ck.holds("C02.4", "id:sequence", snd.where, "m_seq = (per-destination counter << 1) | colour", cfg)
    else:
        ck.violated("C02.4", "id:sequence", snd.where, "m_seq is %s for counter 5 / colour 1: sequence numbers of the two colours can collide" % o[0].env.get("%s->m_seq" % m), cfg)


MATCH_NAMES = {"raw_flags", "flags", "m_seq"}


def _cond_names(f, core):
    """(fields and globals read, unresolved locals, calls) of a branch condition; single-definition locals are seen through."""
    fields, locs, calls = set(), set(), set()
    todo, seen = [core], set()
    while todo:
        n = todo.pop()
        for x in n.walk():
            if x.k == "DeclRefExpr" and x.d.get("sc") in ("local", "param") and x.d.get("dk") == "var":
                if x.did in seen:
                    continue
                seen.add(x.did)
                r = Q.resolve_local(f, x) if x.d.get("sc") == "local" else None
                if r is not None and not (r.k == "DeclRefExpr" and r.did == x.did):
                    todo.append(r)
                else:
                    locs.add(x.name)
            elif x.k == "DeclRefExpr" and x.d.get("dk") == "var":
                fields.add(x.name)
            elif x.k == "MemberExpr" and x.name:
                fields.add(x.name)
            elif x.k == "CallExpr" and x.callee:
                calls.add(x.callee)
    return fields, locs, calls


def _exhaustive(ck, P, cfg):
    # (function, the statement that records "not found", what it means)
    h = P.fn("handle_remote_anti_msg")
    pub = [n for n in h.walk() if n.k == "BinaryOperator" and n.op == "=" and X.show(n.children[0]).endswith("early_antis")]
    if not pub:
        # parked through a helper extracted from the handler: its call is the "not found" outcome
        for g2 in Q.with_helpers(P, h)[1:]:
            if any(n.k == "BinaryOperator" and n.op == "=" and X.show(n.children[0]).endswith("early_antis") for n in g2.walk()):
                pub = list(h.calls(g2.name))
    c = P.fn("check_early_anti_messages")
    notfound = [r for r in c.walk() if r.k == "ReturnStmt" and r.children and X.const_int(r.children[0]) == 0]
    ck.expect("C02.8", len(pub) + len(notfound), 2, "not-found outcomes of the two matchers")
    for f, outs, inst, cursors, what in ((h, pub, "exhaustive@handle_remote_anti_msg", None, "the anti-message is put on the early list"),
                                         (c, notfound, "exhaustive@check_early_anti_messages", None, "the event is declared not cancelled")):
        for o in outs:
            bad = None
            n_dec = 0
            work = [o]
            done = set()
            while work:
                tgt = work.pop()
                if tgt.id in done:
                    continue
                done.add(tgt.id)
                for core, B in Q.deciding_branches(f, tgt):
                    n_dec += 1
                    fields, locs, calls = _cond_names(f, core)
                    extra_fields = {x for x in fields if x not in MATCH_NAMES and x not in ("next", "early_antis", "p_msgs", "count", "items", "p")}
                    extra_calls = {x for x in calls if x not in ("is_msg_sent", "__builtin_expect")}
                    extra_locs = set()
                    for x in locs:
                        if _is_cursor(f, x):
                            continue
                        sets = _flag_sets(f, x)
                        if sets is None:
                            extra_locs.add(x)
                        else:
                            work.extend(sets)      # a found / done flag: what decides its assignments decides the outcome
                    if extra_fields or extra_calls or extra_locs:
                        bad = bad or (core, sorted(extra_fields | extra_calls | extra_locs))
            if bad:
                ck.violated("C02.8", inst, bad[0].where, "%s when `%s` (reads %s): the search stops before every entry was compared, so an anti-message whose event is "
                            "further down the list never cancels it" % (what, X.show(bad[0])[:90], ", ".join(bad[1])), cfg)
            elif not n_dec:
                ck.inconclusive("C02.8", inst, o.where, "no branch decides the not-found outcome", cfg)
            else:
                ck.holds("C02.8", inst, o.where, "%s only at the end of the list (%d deciding test(s): end of list and identity only)" % (what, n_dec), cfg)


def _matched_only(ck, P, cfg):
    """handle_remote_anti_msg may release the anti-message only after it matched an event (both identity fields compared equal on
    the path); otherwise the anti-message must be kept for the event that has not arrived or not been processed yet."""
    h = P.fn("handle_remote_anti_msg")
    if len(h.params) < 2:
        ck.inconclusive("C02.8", "release-after-match@handle_remote_anti_msg", h.where, "unexpected signature", cfg)
        return
    a = h.params[1]["name"]
    frees = [c for c in h.calls("msg_allocator_free") if X.strip(X.callee_args(c)[0]).k == "DeclRefExpr" and X.strip(X.callee_args(c)[0]).name == a]
    ck.expect("C02.8", len(frees), 1, "releases of the anti-message in handle_remote_anti_msg")
    for c in frees:
        inst = "release-after-match@handle_remote_anti_msg"
        # the tests that decide whether the release executes (found-flags followed to what decides their assignments)
        got = set()
        work, done, n_dec = [c], set(), 0
        while work:
            tgt = work.pop()
            if tgt.id in done:
                continue
            done.add(tgt.id)
            for core, B in Q.deciding_branches(h, tgt):
                n_dec += 1
                core = X.strip(core)
                for cmp in core.walk():
                    if cmp.k == "BinaryOperator" and cmp.op in ("!=", "=="):
                        for x in cmp.walk():
                            if x.k == "MemberExpr" and x.name in ("raw_flags", "m_seq", "flags"):
                                got.add("raw_flags" if x.name == "flags" else x.name)
                fields, locs, calls = _cond_names(h, core)
                for x in locs:
                    sets = _flag_sets(h, x)
                    if sets:
                        work.extend(sets)
        if {"raw_flags", "m_seq"} <= got:
            ck.holds("C02.8", inst, c.where, "whether the anti-message is released is decided by the comparison of both identity fields; otherwise it is parked on the early list", cfg)
        else:
            ck.violated("C02.8", inst, c.where, "the anti-message is released on a path that no identity comparison decides (%d deciding test(s), identity fields among them: %s): the event it "
                        "cancels may still be queued or in flight, and will be processed as if it had never been cancelled" % (n_dec, sorted(got) or "none"), cfg)


def _flag_sets(f, name):
    """If the local `name` only ever holds constants (a found / done flag), the assignment statements other than its
    initialiser; otherwise None."""
    sets = []
    for n in f.walk():
        if n.k == "VarDecl" and n.name == name and n.sc != "param":
            if n.children and X.const_int(n.children[-1]) is None:
                return None
        elif n.k == "BinaryOperator" and n.op == "=" and X.strip(n.children[0]).k == "DeclRefExpr" and X.strip(n.children[0]).name == name:
            if X.const_int(n.children[1]) is None:
                return None
            sets.append(n)
        elif n.k in ("UnaryOperator", "CompoundAssignOperator") and n.children and X.strip(n.children[0]).k == "DeclRefExpr" and X.strip(n.children[0]).name == name and (n.k == "CompoundAssignOperator" or n.op in ("++", "--", "&")):
            return None
    return sets


def _is_cursor(f, name):
    """A local that the function steps through the list with: an index used to address the list's elements, or a pointer
    (re)assigned from a `next` link / the list head / an element."""
    for n in f.walk():
        if n.k == "ArraySubscriptExpr" and any(x.k == "DeclRefExpr" and x.name == name for x in n.children[1].walk()):
            return True
        if n.k == "BinaryOperator" and n.op == "=" and X.strip(n.children[0]).k == "DeclRefExpr" and X.strip(n.children[0]).name == name:
            rhs = X.show(n.children[1])
            if "next" in rhs or "prev_p" in rhs or "items" in rhs:
                return True
        if n.k == "VarDecl" and n.name == name and n.children and n.sc != "param":
            rhs = X.show(n.children[-1])
            if "prev_p" in rhs or "early_antis" in rhs or "items" in rhs:
                return True
    return name in ("msg", "a_msg", "lp", "proc_p")


def _matchers(ck, P, cfg):
    def keys(f, a_name):
        """fields compared between the anti-message and the candidate in equality tests"""
        out = set()
        locals_from = {}
        for v in f.walk():
            if v.k == "VarDecl" and v.children:
                s = X.strip(v.children[0])
                if s.k == "MemberExpr" and s.rec == "lp_msg":
                    locals_from[v.name] = s.name
        for n in f.walk():
            if n.k == "BinaryOperator" and n.op in ("==", "!="):
                sides = []
                for c in n.children:
                    s = X.strip(c)
                    if s.k == "MemberExpr" and s.rec == "lp_msg":
                        sides.append(s.name)
                    elif s.k == "DeclRefExpr" and s.name in locals_from:
                        sides.append(locals_from[s.name])
                if len(sides) == 2 and sides[0] == sides[1]:
                    out.add(sides[0])
        return out
    a = keys(P.fn("handle_remote_anti_msg"), None)
    b = keys(P.fn("check_early_anti_messages"), None)
    want = {"raw_flags", "m_seq"}
    if a == b == want:
        ck.holds("C02.5", "matchers", P.fn("check_early_anti_messages").where, "both matchers compare %s" % sorted(want), cfg)
    else:
        ck.violated("C02.5", "matchers", P.fn("check_early_anti_messages").where, "handle_remote_anti_msg matches on %s, check_early_anti_messages on %s; both must use the sender word and the sequence number: "
                    "an anti-message that overtook its event cancels a different event (or none)" % (sorted(a), sorted(b)), cfg)
    # the early list is consulted for remote events before they are processed
    f = P.fn("process_msg")
    cs = list(f.calls("check_early_anti_messages"))
    disp = Q.calls_via(P, f, "common_msg_process")
    if len(cs) == 1 and disp and f.cfg.dominates(cs[0], disp[0]) is False:
        # the call sits behind `flags && early_antis &&`: it cannot dominate; require that every path to the dispatch that has both true passes it
        pass
    if len(cs) == 1 and disp:
        c = cs[0]
        guards = []
        cur, p = c, c.parent
        top = c
        while p is not None and (p.k in ("ParenExpr", "ImplicitCastExpr") or (p.k == "BinaryOperator" and p.op == "&&") or (p.k == "CallExpr" and p.callee == "__builtin_expect")):
            if p.k == "BinaryOperator" and (p.children[1] is cur or cur.is_inside(p.children[1])):
                stack = [p.children[0]]
                while stack:
                    q = X.strip(stack.pop())
                    if q.k == "BinaryOperator" and q.op == "&&":
                        stack.extend(q.children)
                    else:
                        guards.append(X.show(q))
            cur, p = p, p.parent
        ifs = p if p is not None and p.k == "IfStmt" else None
        txt = " && ".join(reversed(guards))
        only_remote = all(g == "flags" or g.endswith("early_antis") for g in guards) and any("early_antis" in g for g in guards)
        first = next((x for x in (ifs.children if ifs is not None else []) for x in x.walk() if x.id in f.cfg.pos), None)
        then_returns = ifs is not None and any(x.k == "ReturnStmt" for x in [k for k in ifs.children if k.k != "Null"][1].walk())
        if ifs is not None and only_remote and "flags" not in guards:
            ck.violated("C02.5", "early-check", c.where, "local events are matched against the early anti-messages too (guards: %s): a local event carries no sender word and an uninitialised "
                        "sequence number, so it can be taken for the event a remote anti-message cancels and be dropped" % (txt or "none"), cfg)
        elif ifs is not None and only_remote and then_returns and first is not None and f.cfg.dominates(first, disp[0]):
            ck.holds("C02.5", "early-check", c.where, "before an event is processed: if(%s && check_early_anti_messages(...)) return; the guards only skip messages that cannot have an early anti-message" % txt, cfg)
        else:
            ck.violated("C02.5", "early-check", c.where, "a remote event can be processed without consulting the early anti-message list (guards: %s)" % (txt or "none"), cfg)
    else:
        ck.violated("C02.5", "early-check", f.where, "process_msg does not consult the early anti-message list exactly once", cfg)
