"""C08 — every run returns: structural (SPMD) clauses of termination / shutdown code."""
from .. import rules_gvt, expr as X
from .. import query as Q
from ..cfg import witness_text
from . import C07
from .C11 import Renamed

BARRIER = "sync_thread_barrier"
THREAD_VARYING_GLOBALS = {"rid", "current_lp", "lid_thread_first", "lid_thread_end", "thread_phase", "gvt_phase", "gvt_accumulator"}


def _thread_varying(core, P):
    """Does a condition depend on data that differs between the threads of a rank?  Returns a reason or None."""
    for x in core.walk():
        if x.k == "DeclRefExpr" and x.d.get("dk") == "var":
            if x.d.get("tls"):
                return "thread-local `%s`" % x.name
            if x.name in THREAD_VARYING_GLOBALS:
                return "`%s`" % x.name
        if x.k == "CallExpr" and x.callee == BARRIER:
            return "the leader flag returned by a barrier"
        if x.k == "CallExpr" and x.callee in ("gvt_phase_run", "msg_queue_extract", "msg_queue_time_peek", "mpi_reduce_sum_scatter_done", "mpi_reduce_min_done"):
            return "the per-thread result of %s()" % x.callee
        if x.k == "MemberExpr" and x.rec in ("lp_ctx", "lp_msg", "process_ctx"):
            return "per-LP data (%s)" % X.show(x)
    return None


from .. import rules_cover


def run(ck, progs):
    ck.not_decided = ("liveness under all interleavings of the last vote / stop request with an open or just-started GVT round; that MPI "
                      "progress is made; bounded completion of the spin loops")
    ck.rule("C08.1", "SPMD uniformity: no thread barrier is control-dependent on thread-varying data (rid, thread-locals, barrier results, "
                     "per-LP data) and none sits inside a leader-only region; functions containing barriers are called uniformly; the node "
                     "barrier is entered only by the leader elected by a thread barrier")
    ck.rule("C08.2", "keep stepping: every iteration of the worker loop runs the MPI receive path and the GVT automaton; both drain loops step "
                     "the automaton (the last also drains MPI); the partial-round flush precedes the first shutdown barrier")
    ck.rule("C08.3", "control-message dispatch and the control-message table cover every control code")
    ck.rule("C08.4", "LP_FINI is dispatched exactly once per LP on every path of process_lp_fini")
    ck.rule("C08.5", "the counter a thread's vote depends on is conserved (a spurious increment would make the run never end): C07.1")
    ck.rule("C08.6", "a copy of the thread count kept in shared state (vote counter) is taken after the last point where the runtime changes it")
    ck.rule("C08.7", "RootsimStop on the parallel runtime sends every rank at least as many termination notices as it is waiting for")
    ck.rule("C08.8", "the control-message broadcast (GVT start, termination) reaches every rank, and one worker is started per thread id and every worker joined: evaluated over the loop indices for 1..8 ranks / threads")
    ck.rule("C08.9", "after a message count the shares of total_sent[] zeroed by threads 0..t-1 cover the entries of ranks 0..n-1 (a stale "
                     "entry makes a rank wait for messages it already received and the round never ends): evaluated for 1..8 ranks x threads")
    ck.rule("C08.13", "the worker loop goes on exactly while the count of awaited termination notices is positive (surplus notices, which the protocol "
                      "produces, take it below zero and must not restart the wait)")
    ck.rule("C08.12", "a GVT round ends: the node-level bookkeeping balances (see C04.11), so no rank waits for messages or threads that never come")
    ck.rule("C08.11", "exactly one thread of one rank opens GVT rounds, only when every rank acknowledged the previous round, and every rank sends its GVT_DONE notice to that rank (which waits for one notice per rank before "
                      "the next round; otherwise no further GVT is computed and termination is never detected)")
    ck.rule("C08.10", "no rank is left without a worker thread: lp_global_init, evaluated for 1..12 LPs x 1..8 ranks (ranks > LPs included), "
                      "either keeps >= 1 thread or refuses to start (a rank with no thread never joins a GVT reduction and all others wait for it)")
    for cfg, P in progs.items():
        rules_cover.check_broadcast(ck, P, "C08.8")
        rules_cover.check_rank_has_worker(ck, P, "C08.10")
        rules_gvt.check_round_completion_notice(ck, P, "C08.11")
        rules_gvt.check_node_protocol(ck, P, "C08.12")
        _loop_test_absorbs_extra_notices(ck, P, cfg)
        rules_cover.check_partition_clear(ck, P, "C08.9")
        rules_cover.check_spawn_join(ck, P, "C08.8")
        _after_node_barrier(ck, P, cfg)
        _thread_count_copies(ck, P, cfg)
        _stop(ck, P, cfg)
        _uniform(ck, P, cfg)
        _stepping(ck, P, cfg)
        _dispatch(ck, P, cfg)
        _fini_once(ck, P, cfg)
        C07._conservation(Renamed(ck, {"C07.1": "C08.5"}), P, cfg)


def _uniform(ck, P, cfg):
    sites = P.callers(BARRIER)
    containing = {}
    for c in sites:
        f = c.fn
        if not f.file.startswith("src/"):
            continue
        containing.setdefault(f.name, []).append(c)
    n = 0
    for fname, cs in sorted(containing.items()):
        f = P.fn(fname)
        for i, c in enumerate(cs):
            n += 1
            inst = "barrier@%s#%d" % (fname, i + 1)
            deps = Q.control_dependences(f, c)
            bad = None
            for core, B in deps:
                if c.is_inside(core) or core is c:
                    continue
                why = _thread_varying(core, P)
                if why:
                    bad = "control-dependent on `%s`, which depends on %s" % (X.show(core)[:60], why)
            paths = deps
            if bad:
                ck.violated("C08.1", inst, c.where, "this barrier is %s: threads for which the condition differs never arrive and the others wait forever" % bad, cfg)
            else:
                ck.holds("C08.1", inst, c.where, "reached by every thread: control-dependent on %d branch(es), none thread-varying" % len(paths), cfg)
    ck.expect("C08.1", n, 7, "thread barrier call sites in the runtime")
    # functions containing barriers are themselves called uniformly
    frontier = set(containing)
    seen = set()
    while frontier:
        fn = frontier.pop()
        if fn in seen:
            continue
        seen.add(fn)
        for c in P.callers(fn):
            g = c.fn
            if not g.file.startswith("src/"):
                continue
            bad = None
            for core, B in Q.control_dependences(g, c):
                why = _thread_varying(core, P)
                if why:
                    bad = (core, why)
            inst = "caller:%s->%s" % (g.name, fn)
            if bad:
                ck.violated("C08.1", inst, c.where, "%s (which contains a thread barrier) is called only under `%s`, which depends on %s" % (fn, X.show(bad[0])[:60], bad[1]), cfg)
            else:
                ck.holds("C08.1", inst, c.where, "called uniformly by every thread", cfg)
            frontier.add(g.name)
    # node barrier only by the elected leader
    nb = [c for c in P.callers("mpi_node_barrier") if c.fn.file.startswith("src/")]
    for i, c in enumerate(nb):
        f = c.fn
        inst = "node-barrier@%s#%d" % (f.name, i + 1)
        paths, _ = Q.path_conditions(f, c)
        ok = bool(paths)
        for conds in paths:
            elected = False
            for core, t in conds:
                cc = X.strip(core)
                if cc.k == "CallExpr" and cc.callee == BARRIER and t:
                    elected = True          # the leader flag of a thread barrier
                if cc.k == "DeclRefExpr" and cc.name == "rid" and t is False:
                    elected = True          # thread 0 of the rank: exactly one thread as well
                if cc.k == "BinaryOperator" and cc.op == "==" and t and X.show(cc.children[0]) == "rid" and X.const_int(cc.children[1]) == 0:
                    elected = True
            if not elected:
                ok = False
        if ok:
            ck.holds("C08.1", inst, c.where, "entered only by the thread a thread barrier elected (one thread per rank)", cfg)
        else:
            ck.violated("C08.1", inst, c.where, "the node barrier is not restricted to the leader of a thread barrier: several threads (or none) of a rank enter the MPI collective", cfg)
    ck.expect("C08.1", len(nb), 3, "node barrier call sites")


def _stepping(ck, P, cfg):
    f = P.fn("parallel_thread_run")
    loops = [l for l in f.walk() if l.k == "WhileStmt" and not l.macros and any(c.callee == "process_msg" for c in l.walk() if c.k == "CallExpr")]
    loops = [l for l in loops if not any(o is not l and l.is_inside(o) for o in loops)]
    g = f.cfg
    if len(loops) != 1:
        ck.inconclusive("C08.2", "worker-loop", f.where, "worker loop not recognised", cfg)
    else:
        l = loops[0]
        body_entry, condB = Q.loop_body_entry(f, l)
        for callee in ("mpi_remote_msg_handle", "gvt_phase_run"):
            cs = [c for c in f.calls(callee) if c.is_inside(l)]
            inst = "worker-loop:%s" % callee
            w = g.escapes(g.edge_point(body_entry), {c.id for c in cs}, goal="none", goal_ids={e.id for e in condB.elems}) if cs else [(0, l.line)]
            if w:
                ck.violated("C08.2", inst, l.where, "an iteration of the worker loop can skip %s (%s): %s" % (
                    callee, witness_text(f, w), "remote messages and control messages (GVT start, termination) are never received" if callee == "mpi_remote_msg_handle" else "an open GVT round is never completed, the other threads wait in it forever"), cfg)
            else:
                ck.holds("C08.2", inst, cs[0].where, "called on every path around the loop", cfg)
    d = P.fn("gvt_msg_drain")
    g = d.cfg
    loops = [l for l in d.walk() if l.k in ("WhileStmt", "DoStmt") and not l.macros]
    n_ok = 0
    for i, l in enumerate(loops):
        inst = "drain-loop#%d" % (i + 1)
        steps = [c for c in d.calls("gvt_phase_run") if c.is_inside(l)]
        if steps:
            n_ok += 1
            ck.holds("C08.2", inst, l.where, "steps the GVT automaton each iteration", cfg)
        else:
            ck.violated("C08.2", inst, l.where, "a shutdown wait loop does not step the GVT automaton: the condition it waits for can never change", cfg)
    ck.expect("C08.2", len(loops), 2, "wait loops in gvt_msg_drain")
    last = [l for l in loops if any(c.callee == "mpi_remote_msg_drain" for c in l.walk() if c.k == "CallExpr")]
    if last:
        ck.holds("C08.2", "drain-loop:mpi", last[-1].where, "the flushing rounds keep receiving (and discarding) remote messages and control messages", cfg)
    else:
        ck.violated("C08.2", "drain-loop:mpi", d.where, "the flushing rounds never poll MPI: GVT control messages of the final rounds are not received and the loop spins forever", cfg)
    # the flushing rounds must not wait for the configured GVT period: the timer is forced before each of them
    forced = [n for n in d.walk() if n.k == "BinaryOperator" and n.op == "=" and X.show(n.children[0]) == "gvt_timer" and X.const_int(n.children[1]) == 0]
    if last and forced and any(f_.is_inside(o) and last[-1].is_inside(o) and g.dominates(f_, next(x for x in last[-1].walk() if x.id in g.pos)) for f_ in forced for o in d.walk() if o.k == "ForStmt"):
        ck.holds("C08.2", "drain-loop:timer", forced[0].where, "gvt_timer is reset before each flushing round: the round starts at once, whatever the configured period", cfg)
    elif last:
        ck.violated("C08.2", "drain-loop:timer", last[-1].where, "the flushing rounds wait for the configured GVT period to elapse (the timer is not forced): with a long period the shutdown takes unboundedly long", cfg)
    # one flushing round per message colour: remote messages of BOTH colours can still be in flight when the ranks leave their main loops
    if last:
        outer = last[-1].parent
        while outer is not None and outer.k != "ForStmt":
            outer = outer.parent
        inst = "drain-loop:both-colours"
        if outer is None:
            ck.inconclusive("C08.2", inst, last[-1].where, "the flushing rounds are not in a counted loop", cfg)
        else:
            iv = [x for x in outer.children[0].walk() if x.k == "VarDecl"]
            got = rules_cover.for_indices(outer, iv[0].name, {}) if iv else None
            if got is None or got == "runaway":
                ck.inconclusive("C08.2", inst, outer.where, "number of flushing rounds not evaluable", cfg)
            elif len(got) < 2:
                ck.violated("C08.2", inst, outer.where, "%d flushing round(s) at shutdown: a GVT round counts the messages of ONE colour, so messages of the other colour can remain in flight "
                            "when MPI is finalised (or a rank keeps waiting for them)" % len(got), cfg)
            else:
                ck.holds("C08.2", inst, outer.where, "%d flushing rounds: one per message colour" % len(got), cfg)
    # both receive paths dispatch control messages
    for fname in ("mpi_remote_msg_handle", "mpi_remote_msg_drain"):
        h = P.fn(fname)
        cs = list(h.calls("control_msg_process"))
        rc = [c for c in h.calls("MPI_Mrecv") if X.show(X.callee_args(c)[0]).startswith("&") and "dest" not in X.show(X.callee_args(c)[0])]
        inst = "ctrl-dispatch@%s" % fname
        if len(cs) == 1 and len(rc) == 1 and h.cfg.dominates(rc[0], cs[0]) and X.show(X.callee_args(cs[0])[0]) == X.show(X.callee_args(rc[0])[0])[1:]:
            ck.holds("C08.2", inst, cs[0].where, "a received control code is handed to control_msg_process", cfg)
        else:
            ck.violated("C08.2", inst, h.where, "%s receives control messages without dispatching them: a GVT start / termination notice arriving here is lost" % fname, cfg)
    # partial-round flush precedes the first barrier
    bars = list(d.calls(BARRIER))
    flush = [l for l in loops if any("thread_phase" in X.show(c) for c in l.children if c.k not in ("CompoundStmt", "Null"))]
    if flush and bars:
        first = next(x for x in flush[0].walk() if x.id in g.pos)
        if all(g.dominates(first, b) for b in bars):
            ck.holds("C08.2", "flush-before-barrier", flush[0].where, "a thread that left the worker loop mid-round completes that round before waiting at the shutdown barrier", cfg)
        else:
            ck.violated("C08.2", "flush-before-barrier", bars[0].where, "a thread can wait at the shutdown barrier while the other threads wait for it inside an open GVT round", cfg)
    else:
        ck.violated("C08.2", "flush-before-barrier", d.where, "gvt_msg_drain does not complete the thread's open GVT round before the shutdown barrier", cfg)


def _dispatch(ck, P, cfg):
    codes = P.enum("msg_ctrl_code")
    f = P.fn("control_msg_process")
    sw = [s for s in f.walk() if s.k == "SwitchStmt"]
    if len(sw) != 1:
        ck.inconclusive("C08.3", "dispatch", f.where, "dispatch is not a single switch", cfg)
    else:
        cases = {c.d.get("val"): c for c in sw[0].walk() if c.k == "CaseStmt"}
        missing = [n for n, v in codes.items() if v not in cases]
        if missing:
            ck.violated("C08.3", "dispatch", sw[0].where, "control code(s) %s have no case: such a message is silently dropped (a termination or GVT message lost means the run never ends)" % missing, cfg)
        else:
            ck.holds("C08.3", "dispatch", sw[0].where, "all %d control codes handled" % len(codes), cfg)
        want = {"MSG_CTRL_GVT_START": "gvt_start_processing", "MSG_CTRL_GVT_DONE": "gvt_on_done_ctrl_msg", "MSG_CTRL_TERMINATION": "termination_on_ctrl_msg"}
        g = f.cfg
        for name, callee in want.items():
            if name not in codes:
                continue
            cs = list(f.calls(callee))
            okc = False
            for c in cs:
                sc = g.switch_case_of(c)
                if sc and sc[1] == {codes[name]}:
                    okc = True
            if okc:
                ck.holds("C08.3", "dispatch:%s" % name, cs[0].where, "-> %s()" % callee, cfg)
            else:
                ck.violated("C08.3", "dispatch:%s" % name, f.where, "%s is not handled by %s()" % (name, callee), cfg)
    tab = P.globals.get("ctrl_msgs", [])
    tab = [t for t in tab if t.get("def") and "init_fn" in t]
    if tab:
        init = tab[0]["init_fn"].root
        vals = [X.const_int(c) for c in init.children]
        missing = [n for n, v in codes.items() if v >= len(vals) or vals[v] != v]
        if missing:
            ck.violated("C08.3", "table", "%s:%s" % (tab[0]["file"], tab[0].get("l")), "ctrl_msgs[] has no (or a wrong) entry for %s: sending it transmits another code" % missing, cfg)
        else:
            ck.holds("C08.3", "table", "%s:%s" % (tab[0]["file"], tab[0].get("l")), "ctrl_msgs[code] == code for all %d codes" % len(codes), cfg)


def _fini_once(ck, P, cfg):
    f = P.fn("process_lp_fini")
    fini = P.enum_const("LP_FINI")
    ds = [c for c in f.walk() if c.k == "CallExpr" and not c.callee and X.show(c.children[0]) == "global_config.dispatcher"]
    finis = [c for c in ds if X.const_int(X.callee_args(c)[2]) == fini]
    g = f.cfg
    if len(finis) == 1 and not g.escapes(g.entry_point(), {finis[0].id}, goal="exit") and not g.escapes(g.position(finis[0]), set(), goal="none", goal_ids={finis[0].id}):
        a = X.callee_args(finis[0])
        ck.holds("C08.4", "lp-fini-once", finis[0].where, "dispatcher(%s, ..., LP_FINI, ...) exactly once on every path" % X.show(a[0]), cfg)
    else:
        ck.violated("C08.4", "lp-fini-once", f.where, "LP_FINI is not dispatched exactly once per LP (%d call sites)" % len(finis), cfg)


def _after_node_barrier(ck, P, cfg):
    """After `if(leader) mpi_node_barrier()` the other threads of the rank must wait (second thread barrier) before they
    step the GVT automaton or process messages again: otherwise they run ahead of ranks that have not reached their barrier."""
    for c in [c for c in P.callers("mpi_node_barrier") if c.fn.file.startswith("src/")]:
        f = c.fn
        g = f.cfg
        elect = [b for b in f.calls(BARRIER) if any(core is b or b.is_inside(core) or core.is_inside(b) for core, B in Q.control_dependences(f, c))]
        if not elect:
            continue
        b1 = elect[0]
        later = [x for x in f.calls() if x.callee in ("gvt_phase_run", "process_msg", "mpi_remote_msg_drain", "mpi_remote_msg_handle") and g.dominates(b1, x)]
        inst = "rejoin-after-node-barrier@%s" % f.name
        if not later:
            ck.holds("C08.1", inst, c.where, "no protocol step follows in this function", cfg)
            continue
        others = {b.id for b in f.calls(BARRIER) if b is not b1}
        w = g.escapes(g.position(b1), others, goal="none", goal_ids={x.id for x in later})
        if w:
            ck.violated("C08.1", inst, c.where, "while the leader is inside the node barrier the other threads of the rank already step the GVT protocol (%s): they can start and wait in a round that ranks still before their barrier cannot join yet, and the leader is not there to take part" % witness_text(f, w), cfg)
        else:
            ck.holds("C08.1", inst, c.where, "every thread passes a second thread barrier before the next protocol step", cfg)


def _thread_count_copies(ck, P, cfg):
    writers = set()
    for f, node, kind in Q.field_accesses(P, "simulation_configuration", "n_threads"):
        if kind in ("write", "rmw-plain") and f.name != "RootsimInit":
            writers.add(f.name)
    copiers = {}
    for f in P.all_functions():
        if not f.file.startswith("src/"):
            continue
        for n in f.walk():
            val = None
            if n.k == "AtomicExpr" and Q.atomic_kind(n) == "store" and len(n.children) > 1:
                val = n.children[1]
            elif n.k == "BinaryOperator" and n.op == "=":
                t = X.strip(n.children[0])
                if t.k == "DeclRefExpr" and t.d.get("sc") in ("file_static", "global", "extern"):
                    val = n.children[1]
            if val is not None and X.show(val) == "global_config.n_threads":
                copiers.setdefault(f.name, n)
    n = 0
    for cname, node in copiers.items():
        for c in P.callers(cname):
            g = c.fn
            for w in writers:
                ws = list(g.calls(w))
                if not ws:
                    continue
                n += 1
                inst = "thread-count-copy:%s" % cname
                if all(g.cfg.dominates(x, c) for x in ws):
                    ck.holds("C08.6", inst, c.where, "%s() copies the thread count after %s() may have lowered it" % (cname, w), cfg)
                else:
                    ck.violated("C08.6", inst, c.where, "%s() copies global_config.n_threads (%s) before %s() may lower it (fewer LPs than threads): the copy is never reached by the votes of the threads that actually run, so the run never ends" % (
                        cname, X.show(node)[:60], w), cfg)
    if not n:
        ck.inconclusive("C08.6", "thread-count-copy", "", "no stored copy of the thread count is ordered against a writer in one function", cfg)


def _stop(ck, P, cfg):
    f = P.fn("RootsimStop")
    TERM = P.enum_const("MSG_CTRL_TERMINATION")
    bs = [c for c in f.calls("mpi_control_msg_broadcast") if X.const_int(X.callee_args(c)[0]) == TERM]
    inst = "stop-notifies-all-ranks"
    if not bs:
        ck.violated("C08.7", inst, f.where, "RootsimStop does not broadcast the termination notice on the parallel runtime: the other ranks (whose configuration this call cannot change) never stop", cfg)
        return
    b = bs[0]
    paths, _ = Q.path_conditions(f, b)
    par = all(any("serial" in X.show(core) and t is False for core, t in conds) or not any("serial" in X.show(core) for core, t in conds) for conds in paths)
    lp = b
    while lp is not None and lp.k not in ("WhileStmt", "ForStmt", "DoStmt"):
        lp = lp.parent
    count_ok = None
    if lp is not None and lp.k == "WhileStmt":
        core = X.strip([x for x in lp.children if x.k != "Null"][0])
        if core.k == "UnaryOperator" and core.op == "--" and core.postfix:
            v = X.strip(core.children[0])
            for d in f.walk():
                if d.k == "VarDecl" and d.name == v.name and d.children:
                    init = X.strip(d.children[0])
                    if init.k == "DeclRefExpr" and init.name == "n_nodes":
                        count_ok = (True, "n_nodes")
                    elif init.k == "BinaryOperator" and init.op == "+" and X.show(init.children[0]) == "n_nodes" and (X.const_int(init.children[1]) or 0) >= 0:
                        count_ok = (True, X.show(init))
                    elif X.const_int(init) is not None:
                        count_ok = (False, str(X.const_int(init)))
    if not par:
        ck.violated("C08.7", inst, b.where, "the termination broadcast of RootsimStop is not on the parallel path", cfg)
    elif count_ok is None:
        # count the broadcasts by evaluating the function over its loop index for 1..8 ranks
        from .. import interp
        short = None
        unknown = False
        for n in range(1, 9):
            outs = interp.Interp(f, max_visits=n + 5).run({"global_config.serial": 0, "n_nodes": n})
            done = [o for o in outs if o.how == "exit"]
            if outs and all(o.how == "loop-bound" for o in outs):
                continue        # more than n + 4 broadcasts: enough
            if len(done) != 1 or len(outs) != 1:
                unknown = True
                break
            k = len([1 for name, a, e in done[0].calls if name == "mpi_control_msg_broadcast"])
            if k < n and short is None:
                short = (n, k)
        if unknown:
            ck.inconclusive("C08.7", inst, b.where, "number of termination notices not recognised", cfg)
        elif short:
            ck.violated("C08.7", inst, b.where, "with %d rank(s) RootsimStop broadcasts the termination notice %d time(s): a rank waiting for %d notices keeps running" % (short[0], short[1], short[0]), cfg)
        else:
            ck.holds("C08.7", inst, b.where, "for 1..8 ranks at least n_nodes broadcasts", cfg)
    elif count_ok[0]:
        ck.holds("C08.7", inst, b.where, "%s broadcasts: every rank's counter of %s pending ranks reaches zero whatever was already received" % (count_ok[1], "n_nodes"), cfg)
    else:
        ck.violated("C08.7", inst, b.where, "only %s termination broadcast(s): a rank waiting for n_nodes notices keeps running" % count_ok[1], cfg)


def _loop_test_absorbs_extra_notices(ck, P, cfg):
    """Termination notices can outnumber what a rank waits for (a vote-triggered broadcast plus RootsimStop, RootsimStop called twice, its
    n_nodes + 1 broadcasts): the counter then passes below zero, and the worker loop must treat every value <= 0 as 'may end'."""
    from ..rules_gvt import _counter_test_truth
    w = P.fn("parallel_thread_run")
    inst = "loop-test@parallel_thread_run"
    loops = [l for l in w.walk() if l.k == "WhileStmt" and not l.macros]
    tests = []
    for l in loops:
        cond = [x for x in l.children if x.k != "Null"][0]
        loads = [y for y in cond.walk() if y.k == "AtomicExpr" and Q.atomic_kind(y) == "load" and Q.atomic_target(y)[1] == "nodes_to_end"]
        if loads:
            tests.append((l, cond, loads[0]))
    if len(tests) != 1:
        ck.inconclusive("C08.13", inst, w.where, "the worker loop's test of nodes_to_end was not recognised", cfg)
        return
    l, cond, a = tests[0]
    core, neg = X.strip_bool(cond)
    ti = a.d.get("ti")
    bad = None
    for v in (-3, -1, 0, 1, 2):
        val = v
        if ti and not ti[1]:
            val = v & ((1 << ti[0]) - 1)        # an unsigned counter wraps instead of going negative
        tr = _counter_test_truth(core, neg, a, val, 1)
        if tr is None:
            ck.inconclusive("C08.13", inst, cond.where, "loop test `%s` not evaluable" % X.show(cond)[:60], cfg)
            return
        if tr != (v > 0) and bad is None:
            bad = (v, tr)
    if bad:
        ck.violated("C08.13", inst, cond.where, "with nodes_to_end == %d the worker loop %s: one termination notice more than the rank was waiting for (a vote-triggered broadcast plus RootsimStop, or two stop requests) takes the counter past zero and the workers never leave their loop" % (bad[0], "goes on" if bad[1] else "ends"), cfg)
    else:
        ck.holds("C08.13", inst, cond.where, "the loop goes on exactly while the counter is positive: surplus notices are absorbed", cfg)
