"""C17 — thread barrier: structural clauses of sync_thread_barrier (core/sync.c)."""
from .. import expr as X
from .. import query as Q
from .. import ceval

M32 = (1 << 32) - 1


def _branch_subtrees(f):
    """(IfStmt, then-subtree, else-subtree) for the if on the phase variable."""
    out = []
    for n in f.walk():
        if n.k == "IfStmt":
            kids = [c for c in n.children if c.k != "Null"]
            if len(kids) >= 2:
                out.append((n, kids[0], kids[1], kids[2] if len(kids) > 2 else None))
    return out


def run(ck, progs):
    ck.not_decided = "that no thread passes early and the barrier is reusable under every interleaving (needs schedules)"
    ck.rule("C17.1", "the phase variable is thread-local and private to the function; the counters are shared, function-private atomics")
    ck.rule("C17.2", "the phase advances on every path through the barrier")
    ck.rule("C17.3", "finite-domain evaluation of the phase automaton: consecutive uses take different counters, the two uses of one "
                     "counter alternate direction, and the automaton returns to its initial phase")
    ck.rule("C17.4", "both arrival RMWs are at least acq_rel")
    ck.rule("C17.5", "the leader flag is an equality test of the RMW result with the first value of an up-count (0) or the last value of a "
                     "down-count (1): exactly one thread sees it")
    ck.rule("C17.6", "each spin loop reloads the counter atomically in its body and exits only at the extreme of its direction "
                     "(thread count going up, 0 going down)")
    ck.rule("C17.7", "the barrier body interpreted one arrival at a time over 10 consecutive uses (1, 2, 3, 5, 8 threads in lock step): exactly one "
                     "leader per use, an arrival waits at every counter value before the last arrival and passes at the last; a counter whose "
                     "rest value grows is also taken across 2^32; a barrier that also stores to its counters after the spin is replayed under the "
                     "schedule `a released thread arrives in the next use, the store lands, the rest arrive` (a lost arrival = not reusable)")
    for cfg, P in progs.items():
        _run(ck, P, cfg)
        _sequential_uses(ck, P, cfg)


def _run(ck, P, cfg):
    f = P.fn("sync_thread_barrier")
    g = f.cfg
    # ---- C17.1
    statics = [n for n in f.walk() if n.k == "VarDecl" and n.sc == "static_local"]
    tls = [n for n in statics if n.tls]
    shared = [n for n in statics if not n.tls]
    phase = None
    for n in tls:
        if n.d.get("ti"):
            phase = n
    if phase is None:
        # is there a non thread-local static integer that plays the phase role (assigned, used to index)?
        cand = [n for n in shared if n.d.get("ti")]
        glob = [x for x in f.walk() if x.k == "DeclRefExpr" and x.d.get("sc") in ("file_static", "global", "extern") and x.d.get("ti") and X.is_write_target(x)]
        if cand or glob:
            w = (cand or glob)[0]
            ck.violated("C17.1", "phase-thread-local", w.where, "the barrier's phase variable `%s` is not thread-local: threads would share one phase" % w.name, cfg)
        else:
            ck.inconclusive("C17.1", "phase-thread-local", f.where, "no phase variable recognised: a different barrier algorithm", cfg)
        for r in ("C17.2", "C17.3", "C17.5", "C17.6"):
            ck.inconclusive(r, "automaton", f.where, "phase variable not recognised", cfg)
        return
    ck.holds("C17.1", "phase-thread-local", phase.where, "`%s` is a thread-local function-static" % phase.name, cfg)
    ctrs = [n for n in shared if "atomic" in (n.t or "").lower() or "_Atomic" in (n.t or "")]
    if not ctrs:
        ck.inconclusive("C17.1", "counters-shared", f.where, "no function-static atomic counter found", cfg)
        return
    ck.holds("C17.1", "counters-shared", ctrs[0].where, "`%s` (%s) is function-static, not thread-local" % (ctrs[0].name, ctrs[0].t), cfg)
    cs = ctrs[0]

    # ---- C17.2 phase advances on every path
    adv = [n for n in f.walk() if n.k in ("BinaryOperator", "CompoundAssignOperator", "UnaryOperator") and
           ((n.k == "UnaryOperator" and n.op in ("++", "--")) or n.op in ("=", "+=", "-=", "^=")) and
           X.strip(n.children[0]).k == "DeclRefExpr" and X.strip(n.children[0]).did == phase.did]
    if not adv:
        ck.violated("C17.2", "advance", f.where, "the phase is never advanced", cfg)
        return
    w = g.escapes(g.entry_point(), {a.id for a in adv}, goal="exit")
    if w:
        ck.violated("C17.2", "advance", adv[0].where, "a path returns without advancing the phase", cfg)
    else:
        ck.holds("C17.2", "advance", adv[0].where, "`%s` is on every path to the exit" % X.show(adv[0]), cfg)

    # ---- counter pointer: c = cs + index(phase)
    cptr = None
    for n in f.walk():
        if n.k == "VarDecl" and n.sc == "local" and n.children and X.refs_var(n.children[0], did=cs.did):
            cptr = n
    idx_expr = None
    if cptr is not None:
        init = X.strip(cptr.children[0])
        if init.k == "BinaryOperator" and init.op == "+":
            idx_expr = init.children[1] if X.refs_var(init.children[0], did=cs.did) else init.children[0]
        elif init.k == "UnaryOperator" and init.op == "&":
            sub = X.strip(init.children[0])
            if sub.k == "ArraySubscriptExpr":
                idx_expr = sub.children[1]
    # RMWs and their direction
    rmws = []
    for a in Q.atomics(f):
        if Q.atomic_kind(a) != "rmw":
            continue
        v = X.const_int(a.children[1]) if len(a.children) > 1 else None
        op = Q.RMW_OPS[a.aop]
        d = None
        if v is not None:
            v &= M32
            if (op == "add" and v == 1) or (op == "sub" and v == M32):
                d = "up"
            elif (op == "add" and v == M32) or (op == "sub" and v == 1):
                d = "down"
        rmws.append((a, d))
    if idx_expr is None or len(rmws) < 2 or any(d is None for _, d in rmws):
        for r in ("C17.3", "C17.5", "C17.6"):
            ck.inconclusive(r, "automaton", f.where, "counter selection or arrival RMWs not recognised (a different barrier algorithm)", cfg)
        _orders(ck, rmws, cfg)
        return

    # ---- C17.3 finite-domain evaluation
    advance = adv[0]
    rhs = advance.children[1] if advance.k == "BinaryOperator" and advance.op == "=" else None
    seq = []
    ph = 0
    ok3 = True
    for step in range(16):
        idx = ceval.ev(idx_expr, {phase.name: ph})
        paths = ceval.feasible_paths(f, {phase.name: ph})
        dirs = set()
        for elems, decided, how in paths:
            for e in elems:
                for a, d in rmws:
                    if e is a:
                        dirs.add(d)
        nxt = ceval.ev(rhs, {phase.name: ph}) if rhs is not None else None
        if idx is None or len(dirs) != 1 or nxt is None:
            ck.inconclusive("C17.3", "automaton", f.where, "phase %d: cannot evaluate counter index / direction / successor" % ph, cfg)
            ok3 = False
            break
        seq.append((ph, idx, dirs.pop()))
        ph = nxt
        if ph == 0:
            break
    else:
        ck.inconclusive("C17.3", "automaton", f.where, "phase does not return to 0 within 16 uses", cfg)
        ok3 = False
    if ok3:
        desc = ", ".join("phase %d: counter %d %s" % s for s in seq)
        n = len(seq)
        bad = None
        if n < 2:
            bad = "the automaton has a single phase: a fast thread re-entering the barrier meets slow threads still spinning on the same counter"
        for i in range(n):
            a, b = seq[i], seq[(i + 1) % n]
            if a[1] == b[1]:
                bad = "consecutive uses (phases %d and %d) take the same counter %d: a fast thread re-entering disturbs threads still leaving" % (a[0], b[0], a[1])
        byc = {}
        for s in seq:
            byc.setdefault(s[1], []).append(s[2])
        for c, ds in byc.items():
            for i in range(len(ds)):
                if ds[i] == ds[(i + 1) % len(ds)] and len(ds) > 0:
                    if len(ds) == 1 or ds[i] == ds[(i + 1) % len(ds)]:
                        bad = bad or "counter %d is used in direction %s twice in a row: it never returns to its start value" % (c, ds[i])
        if bad:
            ck.violated("C17.3", "automaton", f.where, bad + " [" + desc + "]", cfg)
        else:
            ck.holds("C17.3", "automaton", f.where, desc + "; back at phase 0 after %d uses" % n, cfg)

    _orders(ck, rmws, cfg)

    # ---- C17.5 leader flag
    for a, d in rmws:
        inst = "leader:%s" % d
        cur, p = a, a.parent
        while p is not None and p.k in ("ParenExpr", "ImplicitCastExpr"):
            cur, p = p, p.parent
        if p is not None and p.k == "VarDecl":
            # the result is kept in a local first: the leader test is the comparison of that local
            uses = [u for u in f.walk() if u.k == "DeclRefExpr" and u.did == p.did and not X.is_write_target(u)]
            if len(uses) == 1:
                cur, p = uses[0], uses[0].parent
                while p is not None and p.k in ("ParenExpr", "ImplicitCastExpr"):
                    cur, p = p, p.parent
        k = None
        if p is not None and p.k == "UnaryOperator" and p.op == "!":
            k = 0
        elif p is not None and p.k == "BinaryOperator" and p.op == "==":
            other = p.children[1] if p.children[0] is cur else p.children[0]
            k = X.const_int(other)
            if k is None:
                ck.inconclusive("C17.5", inst, a.where, "leader compares the RMW result with a non-constant: %s" % X.show(p), cfg)
                continue
        else:
            ck.violated("C17.5", inst, a.where, "the leader flag is not an equality test of the value the arrival RMW returned (%s)" % (X.show(p) if p is not None else "result discarded"), cfg)
            continue
        want = 0 if d == "up" else 1
        if k == want:
            ck.holds("C17.5", inst, a.where, "count %s, leader iff the RMW returned %d: exactly one arrival sees it" % (d, k), cfg)
        else:
            ck.violated("C17.5", inst, a.where, "count %s, leader iff the RMW returned %d: %s" % (
                d, k, "a down-count from n returns n..1, no thread ever sees 0" if (d == "down" and k == 0) else "not seen by exactly one thread for every thread count"), cfg)

    # ---- C17.6 spin loops
    loops = [n for n in f.walk() if n.k in ("DoStmt", "WhileStmt", "ForStmt")]
    n_ok = 0
    for a, d in rmws:
        inst = "spin:%s" % d
        # loops in the same branch as the RMW
        branch = None
        for (ifs, cond, th, el) in _branch_subtrees(f):
            if a.is_inside(th):
                branch = th
            elif el is not None and a.is_inside(el):
                branch = el
        mine = [l for l in loops if branch is not None and l.is_inside(branch)]
        if not mine:
            # one loop shared by both directions, after the branches
            inside_any = lambda l: any(l.is_inside(th) or (el is not None and l.is_inside(el)) for (ifs, cond, th, el) in _branch_subtrees(f))
            after = [l for l in loops if not inside_any(l) and l.line >= a.line]
            mine = after
        if len(mine) != 1:
            ck.inconclusive("C17.6", inst, a.where, "expected one spin loop next to the arrival RMW, found %d" % len(mine), cfg)
            continue
        lp = mine[0]
        loads = [x for x in lp.walk() if x.k == "AtomicExpr" and Q.atomic_kind(x) == "load" and cptr is not None and X.refs_var(x.children[0], did=cptr.did)]
        if not loads:
            ck.violated("C17.6", inst, lp.where, "the spin loop does not reload the counter atomically in its body", cfg)
            continue
        kind, dst = Q.result_var(loads[0])
        cond = [c for c in lp.children if c.k not in ("CompoundStmt", "Null")]
        condn = cond[-1] if cond else None
        core, neg = X.strip_bool(condn) if condn is not None else (None, False)
        good = None
        if kind == "var" and core is not None:
            if d == "down":
                # continue while r != 0
                if core.k == "DeclRefExpr" and core.did == dst.did and not neg:
                    good = "continues while %s != 0" % dst.name
                elif core.k == "BinaryOperator" and core.op == ">" and X.strip(core.children[0]).k == "DeclRefExpr" and X.is_zero(core.children[1]) and not neg:
                    good = "continues while %s > 0" % dst.name
            else:
                if core.k == "BinaryOperator" and core.op in ("!=", "<") and not neg:
                    l, r = X.strip(core.children[0]), X.strip(core.children[1])
                    if l.k == "DeclRefExpr" and l.did == dst.did and _is_thread_count(f, r):
                        good = "continues while %s %s thread count" % (dst.name, core.op)
        if not good and kind == "var" and core is not None and core.k == "BinaryOperator" and core.op == "!=" and not neg and branch is not None:
            # `while(r != target)` with the target set next to the arrival RMW
            l, r = X.strip(core.children[0]), X.strip(core.children[1])
            if l.k == "DeclRefExpr" and l.did == dst.did and r.k == "DeclRefExpr" and r.d.get("sc") == "local":
                sets = [x for x in f.walk() if x.k == "BinaryOperator" and x.op == "=" and X.strip(x.children[0]).k == "DeclRefExpr" and X.strip(x.children[0]).did == r.did]
                here = [x for x in sets if x.is_inside(branch)]
                if len(here) == 1 and all(any(x.is_inside(b) for x in [y]) for y in sets for b in [branch] if y in here):
                    tgt = X.strip(here[0].children[1])
                    if (d == "down" and X.is_zero(tgt)) or (d == "up" and _is_thread_count(f, tgt)):
                        good = "continues while %s != %s, which this branch sets to %s" % (dst.name, r.name, X.show(tgt))
        if not good and kind == "var" and core is not None and core.k == "BinaryOperator" and d == "up":
            rr = X.strip(core.children[1]) if X.strip(core.children[0]).k == "DeclRefExpr" and X.strip(core.children[0]).did == dst.did else X.strip(core.children[0])
            if rr.k == "DeclRefExpr" and rr.d.get("sc") in ("static_local", "file_static", "global", "extern"):
                copies = [x for x in f.walk() if x.k == "BinaryOperator" and x.op == "=" and X.strip(x.children[0]).k == "DeclRefExpr" and X.strip(x.children[0]).name == rr.name and _is_thread_count(f, x.children[1])]
                if copies:
                    ck.violated("C17.6", inst, lp.where, "the up-count waits for `%s`, a copy of the thread count kept in static storage (set at %s): the count of THIS use is not read, so a later "
                                "group of threads of another size is released early or never; the copy is also written by every thread without synchronisation" % (rr.name, copies[0].where), cfg)
                    continue
        if good:
            n_ok += 1
            ck.holds("C17.6", inst, lp.where, "reloads with %s each iteration; %s" % (loads[0].aop.replace("__c11_atomic_", "atomic_"), good), cfg)
        elif core is not None and d == "down" and core.k == "BinaryOperator" and core.op in ("!=", ">", "<", "==") and X.const_int(core.children[1]) not in (None, 0):
            ck.violated("C17.6", inst, lp.where, "a down-count spin loop exits at %s instead of 0" % X.show(core), cfg)
        elif core is not None and d == "up" and core.k == "BinaryOperator" and X.const_int(core.children[1]) is not None:
            ck.violated("C17.6", inst, lp.where, "an up-count spin loop exits at the constant %s instead of the thread count" % X.show(core.children[1]), cfg)
        else:
            cex = _refute_spin(f, condn, dst if kind == "var" else None, d) if condn is not None else None
            if cex:
                ck.violated("C17.6", inst, lp.where, "with %d threads a thread spinning after counting %s leaves the loop `while(%s)` when the counter reads %d, %s"
                            % (cex[0], d, X.show(condn), cex[1], "before all threads have arrived" if cex[2] == "early" else "and never leaves it at %d" % cex[3]), cfg)
            else:
                ck.inconclusive("C17.6", inst, lp.where, "spin loop exit condition not recognised: %s" % (X.show(condn) if condn is not None else "?"), cfg)
    ck.expect("C17.4", len(rmws), 2, "arrival RMWs")


def _refute_spin(f, cond, dst, d):
    """Search small thread counts for a counter value at which the spin loop's continue-condition is wrong: the loop must be
    left exactly at the extreme of its direction.  Only a definite counterexample is reported: (threads, value, kind, extreme)."""
    if dst is None:
        return None
    tc_keys = set()
    locs = {}
    for x in cond.walk():
        if x.k == "MemberExpr" and x.name == "n_threads":
            tc_keys.add(X.show(x))
        if x.k == "DeclRefExpr" and x.d.get("sc") == "local" and x.did != dst.did:
            r = Q.resolve_local(f, x)
            if r is None or (r.k == "DeclRefExpr" and r.did == x.did):
                return None
            locs[x.name] = r
            for y in r.walk():
                if y.k == "MemberExpr" and y.name == "n_threads":
                    tc_keys.add(X.show(y))
    if not tc_keys:
        return None
    for n in range(1, 65):
        env = {k: n for k in tc_keys}
        for name, r in locs.items():
            v = ceval.ev(r, env)
            if v is None:
                return None
            env[name] = v
        extreme = n if d == "up" else 0
        values = range(1, n + 1) if d == "up" else range(0, n)
        for r in values:
            env[dst.name] = r
            v = ceval.ev(cond, env)
            if v is None:
                return None
            leaves = not v
            if leaves and r != extreme:
                return (n, r, "early", extreme)
            if not leaves and r == extreme:
                return (n, r, "stuck", extreme)
    return None


def _is_thread_count(f, n):
    n = X.strip(n)
    if n.k == "MemberExpr" and n.name == "n_threads":
        return True
    if n.k == "DeclRefExpr":
        for v in f.walk():
            if v.k == "VarDecl" and v.did == n.did and v.children:
                return _is_thread_count(f, v.children[0])
    return False


def _orders(ck, rmws, cfg):
    for a, d in rmws:
        o = a.d.get("order")
        inst = "order:%s" % (d or "?")
        if o is None:
            ck.inconclusive("C17.4", inst, a.where, "memory order is not a constant", cfg)
        elif X.order_has_release(o) and X.order_has_acquire(o):
            ck.holds("C17.4", inst, a.where, "arrival RMW is %s" % X.MEMORY_ORDER[o], cfg)
        else:
            ck.violated("C17.4", inst, a.where, "arrival RMW is %s; it must release this thread's earlier writes and acquire those of the threads that arrived before (>= acq_rel)" % X.MEMORY_ORDER.get(o, o), cfg)


def _sequential_uses(ck, P, cfg):
    """C17.7 -- the barrier body is interpreted, one arriving thread at a time, over consecutive uses (threads in lock step, so the
    values a counter takes within one use are the same under every interleaving): in each use exactly one arrival gets the leader flag,
    an arrival waits while the counter holds any value it takes before the last arrival, and passes at the value the last arrival
    leaves.  If the rest value of a counter grows from use to use, one more use is interpreted starting from the largest rest value
    below 2^32 (the wrap)."""
    from .. import interp
    f = P.fn("sync_thread_barrier")
    inst = "uses@sync_thread_barrier"
    statics = [n for n in f.walk() if n.k == "VarDecl" and n.sc == "static_local" and n.tls and n.d.get("ti")]
    if len(statics) != 1:
        ck.inconclusive("C17.7", inst, f.where, "the thread-local phase variable was not recognised", cfg)
        return
    pname = statics[0].name
    # the interpretation models ONE kind of shared object: the counters the arrivals increment.  Anything else that is shared
    # (a sense flag, a generation number written by the last arriver) is outside the model: inconclusive, never an alarm.
    ats = Q.atomics(f)
    rmw_keys = {X.show(X.strip(a.children[0])) for a in ats if Q.atomic_kind(a) == "rmw"}
    other = [a for a in ats if Q.atomic_kind(a) in ("store", "other") or X.show(X.strip(a.children[0])) not in rmw_keys]
    shared_plain = [n for n in f.walk() if n.k == "DeclRefExpr" and n.d.get("sc") in ("file_static", "global", "extern") and X.is_write_target(n)]
    only_counter_stores = bool(other) and all(Q.atomic_kind(a) == "store" for a in other)
    if rmw_keys and only_counter_stores and not shared_plain:
        # a barrier that also *stores* to its counters (recycling one for a later use): decided by _reset_hazard, which looks for one
        # concrete schedule in which such a store overwrites an arrival of the next use; anything it cannot follow stays inconclusive
        if _reset_hazard(ck, P, cfg, f, pname, inst):
            return
    if not rmw_keys or other or shared_plain:
        ck.inconclusive("C17.7", inst, f.where, "the barrier shares state besides its arrival counters (%s): not the kind of algorithm this interpretation models" % (
            X.show(other[0])[:50] if other else (shared_plain[0].name if shared_plain else "no arrival RMW")), cfg)
        return

    def call(phase, cells, T, load_value=None):
        """One thread runs the barrier body: cells = {counter text: value}.  load_value None: atomic loads are undetermined (both ways);
        otherwise every load returns it.  Returns (leader flag or None, new phase, cells, passes?)."""
        cells = dict(cells)

        def atomic(ip, e, st):
            kind = Q.atomic_kind(e)
            ptr = e.children[0]
            key = ip.key(X.strip(ptr), st) if False else None
            # which counter: evaluate the pointer expression cs + idx / &cs[idx] through the local that holds it
            idx = None
            pe = X.strip(ptr)
            if pe.k == "DeclRefExpr":
                idx = st["env"].get(pe.name)
            else:
                idx = ip.rv(ptr, st)
            if idx is None:
                return None
            ti = e.d.get("ti")
            if kind == "load":
                return load_value if load_value is not None else None
            if kind == "rmw":
                op = Q.RMW_OPS[e.aop]
                arg = ip.rv(e.children[1], st)
                old = cells.get(idx, 0)
                if arg is None:
                    return None
                new = {"add": old + arg, "sub": old - arg, "or": old | arg, "and": old & arg, "xor": old ^ arg}.get(op)
                if new is None:
                    return None
                cells[idx] = new & M32
                return old
            return None
        env = {pname: phase, "global_config.n_threads": T}
        # the counter pointer: a local initialised with `cs + (phase & 1)`; model the array base as 0 and element size 1
        for n in f.walk():
            if n.k == "VarDecl" and n.sc == "static_local" and not n.tls:
                env[n.name] = 0
        outs = interp.Interp(f, max_visits=6, atomic=atomic).run(env)
        exits = [o for o in outs if o.how == "exit"]
        waits = [o for o in outs if o.how == "loop-bound"]
        return exits, waits, cells

    bad = None
    n_uses = 0
    for T in (1, 2, 3, 5, 8):
        cells = {}
        phase = 0
        rests = {}
        probes = [None]
        for use in range(0, 10):
            start_cells = dict(cells)
            leaders = 0
            seq = []
            ph_next = None
            for i in range(T):
                exits, waits, cells = call(phase, cells, T, None)
                if not exits:
                    ck.inconclusive("C17.7", inst, f.where, "the barrier body could not be interpreted (thread %d of %d, use %d)" % (i, T, use), cfg)
                    return
                rets = {o.ret for o in exits}
                phs = {o.env.get(pname) for o in exits}
                if len(rets) != 1 or None in rets or len(phs) != 1 or None in phs:
                    ck.inconclusive("C17.7", inst, f.where, "leader flag / next phase are not determined by the arrival order", cfg)
                    return
                leaders += 1 if next(iter(rets)) else 0
                ph_next = next(iter(phs))
                changed = [k for k in cells if cells[k] != start_cells.get(k, 0)]
                seq.append(dict(cells))
            n_uses += 1
            touched = sorted({k for s_ in seq for k in s_ if s_[k] != start_cells.get(k, 0)} | {k for k in start_cells if seq and seq[-1].get(k) != start_cells[k]})
            if leaders != 1 and bad is None:
                bad = "with %d thread(s), use number %d of the barrier elects %d leaders" % (T, use + 1, leaders)
            if len(touched) == 1:
                k = touched[0]
                vals = [s_[k] for s_ in seq]
                final = vals[-1]
                for j, v in enumerate(vals):
                    # does a thread spinning on value v go on?
                    ex, wt, _ = call(phase, dict(start_cells), T, v)
                    passes = bool(ex) and not wt
                    if j < len(vals) - 1 and passes and v != final and bad is None:
                        bad = "with %d threads, in use number %d a thread goes on when the counter holds %d, i.e. after only %d of %d arrivals" % (T, use + 1, v, j + 1, T)
                    if j == len(vals) - 1 and not passes and bad is None:
                        bad = "with %d thread(s), in use number %d nobody goes on when all have arrived (counter %d)" % (T, use + 1, v)
                rests.setdefault(k, []).append(final)
            elif len(touched) > 1:
                ck.inconclusive("C17.7", inst, f.where, "one use modifies several counters", cfg)
                return
            phase = ph_next
        # the wrap probe: rest values in arithmetic progression
        for k, rv_ in rests.items():
            if len(rv_) >= 3 and rv_[1] - rv_[0] == rv_[2] - rv_[1] != 0:
                d = rv_[1] - rv_[0]
                start = (M32 // d) * d
                if start == M32 + 1 - d and (M32 + 1) % d == 0:
                    continue
                cells = {k: start}
                # find a phase that uses counter k: replay phases until a use touches k
                for ph in range(0, 4):
                    c2 = dict(cells)
                    seq = []
                    leaders = 0
                    okp = True
                    for i in range(T):
                        exits, waits, c2 = call(ph, c2, T, None)
                        if not exits or len({o.ret for o in exits}) != 1:
                            okp = False
                            break
                        leaders += 1 if next(iter({o.ret for o in exits})) else 0
                        seq.append(c2.get(k))
                    if not okp or not seq or seq[-1] == start:
                        continue
                    n_uses += 1
                    if leaders != 1 and bad is None:
                        bad = "with %d threads, the use that takes the counter across 2^32 (from %d) elects %d leaders" % (T, start, leaders)
                    for j, v in enumerate(seq[:-1]):
                        ex, wt, _ = call(ph, {k: start}, T, v)
                        if ex and not wt and v != seq[-1] and bad is None:
                            bad = "with %d threads, in the use that takes the counter across 2^32 (from %d) a thread goes on when the counter holds %d, after %d of %d arrivals" % (T, start, v, j + 1, T)
                    break
    if bad:
        ck.violated("C17.7", inst, f.where, bad, cfg)
    else:
        ck.holds("C17.7", inst, f.where, "%d uses interpreted (1, 2, 3, 5, 8 threads in lock step): one leader per use, waiting at every intermediate counter value, passing at the final one" % n_uses, cfg)


def _reset_hazard(ck, P, cfg, f, pname, inst):
    """A counter store placed after the last spin of a use is not ordered before the arrivals that threads already released make in
    the next use.  If it targets the counter those arrivals use, the schedule `B released, B arrives in use k+1, A stores, the others
    arrive` is replayed on the interpreted body: when nobody can then pass use k+1, an arrival was lost and the barrier is not reusable.
    Returns True when it reported (violated); False leaves the verdict to the caller (inconclusive)."""
    from .. import interp

    def call(phase, cells, T, load_value, log, apply_stores):
        cells = dict(cells)

        def atomic(ip, e, st):
            kind = Q.atomic_kind(e)
            pe = X.strip(e.children[0])
            idx = st["env"].get(pe.name) if pe.k == "DeclRefExpr" else ip.rv(e.children[0], st)
            if idx is None:
                log.append(("?",))
                return None
            if kind == "load":
                log.append(("load", idx))
                return load_value
            if kind == "store":
                val = ip.rv(e.children[1], st)
                log.append(("store", idx, val))
                if apply_stores and val is not None:
                    cells[idx] = val & M32
                return 0
            if kind == "rmw":
                arg = ip.rv(e.children[1], st)
                old = cells.get(idx, 0)
                new = None if arg is None else {"add": old + arg, "sub": old - arg, "or": old | arg, "and": old & arg, "xor": old ^ arg}.get(Q.RMW_OPS[e.aop])
                if new is None:
                    log.append(("?",))
                    return None
                cells[idx] = new & M32
                log.append(("rmw", idx))
                return old
            log.append(("?",))
            return None
        env = {pname: phase, "global_config.n_threads": T}
        for n in f.walk():
            if n.k == "VarDecl" and n.sc == "static_local" and not n.tls:
                env[n.name] = 0
        outs = interp.Interp(f, max_visits=6, atomic=atomic).run(env)
        return [o for o in outs if o.how == "exit"], [o for o in outs if o.how == "loop-bound"], cells

    for T in (2, 3):
        cells, phase = {}, 0
        for use in range(6):
            # lock-step arrivals of this use, counter stores held back
            pre = []
            for i in range(T):
                pre.append(dict(cells))
                lg = []
                ex, wt, cells = call(phase, cells, T, None, lg, False)
                if ("?",) in lg or not any(x[0] == "rmw" for x in lg):
                    return False
            arr = [x for x in lg if x[0] == "rmw"]
            v = cells.get(arr[0][1], 0)
            # every thread once more from its own arrival state, now seeing the final counter value: the path it takes when released
            late, ph_next = [], None
            for i in range(T):
                lg = []
                ex, wt, _ = call(phase, pre[i], T, v, lg, False)
                if wt or len(ex) != 1 or ("?",) in lg or ex[0].env.get(pname) is None:
                    return False
                ph_next = ex[0].env.get(pname)
                loads = [j for j, x in enumerate(lg) if x[0] == "load"]
                for j, x in enumerate(lg):
                    if x[0] == "store":
                        if x[2] is None or not loads or j < loads[-1]:
                            return False            # a store before / between spins: another algorithm
                        late.append((i, x[1], x[2]))
            # the counter the next use's arrivals increment
            lg = []
            call(ph_next, cells, T, None, lg, False)
            nxt = [x[1] for x in lg if x[0] == "rmw"]
            if not nxt or ("?",) in lg:
                return False
            for (a, idx, val) in late:
                if idx != nxt[0]:
                    continue
                # schedule: some other released thread B arrives in use k+1, then A's store lands, then everybody else arrives
                c2 = dict(cells)
                _, _, c2 = call(ph_next, c2, T, None, [], False)
                c2[idx] = val & M32
                for _i in range(T - 1):
                    _, _, c2 = call(ph_next, c2, T, None, [], False)
                ex, wt, _ = call(ph_next, c2, T, c2.get(idx, 0), [], False)
                if wt or not ex:
                    ck.violated("C17.7", inst, f.where, "with %d threads, in use number %d thread %d stores %d to counter %d after its spin, unordered with the arrivals that "
                                "released threads already make on that counter in use number %d: replaying `another thread arrives, the store lands, the "
                                "rest arrive` leaves the counter at %d and nobody can pass (a lost arrival: the barrier is not reusable)" % (
                                    T, use + 1, a, val, idx, use + 2, c2.get(idx, 0)), cfg)
                    return True
            for (a, idx, val) in late:
                cells[idx] = val & M32
            phase = ph_next
    return False
