"""C13 — fossil collection keeps what a legal rollback needs: structural clauses."""
from .. import rules_fossil, rules_msg


def run(ck, progs):
    ck.not_decided = "the exact state obtained by a rollback performed after a fossil collection (a behavioural fact over histories)"
    ck.rule("C13.1", "checkpoint-log collection: the kept checkpoint has ref_i <= committed frontier; the re-base amount, the returned value "
                     "and the kept entry's ref_i are one value applied to every kept entry; the log is truncated by the kept index and only "
                     "older checkpoints are freed")
    ck.rule("C13.2", "history side: frontier argument is 'newest committed index + 1', scan is strictly below GVT, truncation uses the returned value")
    ck.rule("C13.3", "restore picks the newest checkpoint with ref_i <= target, returns that checkpoint's own ref_i, frees only newer ones and cuts the log after it")
    ck.rule("C13.5", "fossil_lp_collect reads the history only after testing that it is not empty (an LP whose history was reclaimed completely must survive the next round)")
    ck.rule("C13.4", "the scan for the committed frontier reads the timestamp of a history element only when the element is proven a processed "
                     "message (both tag bits clear) or is the last element of the history; a sent-message entry taken for a processed one "
                     "puts the frontier inside an uncommitted event")
    for cfg, P in progs.items():
        rules_fossil.check_log_collect(ck, P, "C13.1")
        rules_fossil.check_frontier_argument(ck, P, "C13.2")
        rules_fossil.check_strict_frontier(ck, P, "C13.2")
        rules_fossil.check_release_equals_truncate(ck, P, "C13.2")
        rules_fossil.check_log_restore(ck, P, "C13.3")
        rules_msg.check_entry_derefs(ck, P, "C13.4", only=("fossil_lp_collect",), floor=1)
        rules_fossil.check_nonempty_before_last(ck, P, "C13.5")
