"""C16 — event order is a strict weak order with content-only tie-break (sufficient condition)."""
from .. import rules_cmp


def run(ck, progs):
    ck.not_decided = ("nothing of the order itself beyond the lemma 'a lexicographic composition of strict weak orders on key "
                      "projections is a strict weak order' (taken on trust); NaN timestamps are excluded as invalid models")
    ck.rule("C16.1", "msg_is_before_extended is a cascade of stages if(k(a)!=k(b)) return k(a) OP k(b) with the same projection k on "
                     "both sides, closed by a strict byte comparison whose length an earlier stage equalised")
    ck.rule("C16.2", "the comparator reads only event content: timestamp, cancellation bit, type, payload size, payload bytes")
    ck.rule("C16.3", "every ordering decision over events (queue heap, serial heap, straggler test and matcher) is an expansion of "
                     "msg_is_before / q_elem_is_before of the canonical shape t(a)<t(b) || (t(a)==t(b) && ext(a,b))")
    ck.rule("C16.4", "the heaps that use the order keep their shape: at every heap_insert / heap_extract expansion the comparisons have the operand "
                     "roles and polarity of a min-heap, the sibling is examined whenever it exists, the hole and the moved element are updated in "
                     "step, and extract's child index and insert's parent index are inverse (parent(child(j)) = parent(child(j)+1) = j)")
    ck.assume("timestamps are not NaN (a NaN timestamp is not a valid model input)")
    ck.assume("lexicographic composition of strict weak orders over key projections is a strict weak order")
    for cfg, P in progs.items():
        rules_cmp.check_extended(ck, P, "C16.1", "C16.2")
        sites = rules_cmp.check_uses(ck, P, "C16.3")
        rules_cmp.check_heap_shape(ck, P, "C16.4", sites)
