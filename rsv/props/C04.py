"""C04 — GVT is a monotone, safe lower bound: structural clauses."""
from .. import rules_gvt
from .. import rules_fossil
from .. import rules_mpi


from .. import rules_cover


def run(ck, progs):
    ck.not_decided = ("monotonicity and safety of the computed number under all interleavings of the two-phase reduction with message "
                      "traffic (a schedule property); equality of the value across ranks")
    ck.rule("C04.1", "the timestamp of every extracted message is folded into the thread's GVT accumulator (a running minimum) before anything else happens to the message")
    ck.rule("C04.2", "both per-round minima take a fresh queue peek folded with the accumulator; the accumulator is reset only at round start")
    ck.rule("C04.3", "all five GVT consumers are called once per completed round, under value != 0, with the one value gvt_phase_run returned")
    ck.rule("C04.4", "every remote send is stamped and counted for its destination exactly once before the MPI send; every receive is counted "
                     "exactly once on every path, by the helper matching the message kind")
    ck.rule("C04.5", "memory-order floors on the rendezvous counters that publish plain data (reducing_p[], total_sent[], the reduced value)")
    ck.rule("C04.6", "reclamation compares strictly below GVT (fossil scan, deferred message release)")
    ck.rule("C04.7", "each MPI collective is entered by the single thread elected through an RMW result")
    ck.rule("C04.8", "the two reductions across ranks: minimum of one double per rank, sum-scatter of one uint32 per rank, datatype = C type of the "
                     "buffers, separate static buffers, and the request each *_done sibling tests is the one started")
    ck.rule("C04.9", "the node-level minimum folds the local minimum of every thread (evaluated for 1..8 threads and every position of the smallest value) and the per-destination send counts are accumulated for every rank (loop header evaluated for 1..8 ranks)")
    ck.rule("C04.11", "bookkeeping of the node-level automaton: the snapshot of the send counters covers every rank; the received-message counter "
                      "balances (+1 per thread, -(expected + threads) by the elected thread); the elected thread releases the round only when every "
                      "thread has arrived; the last state resets both automata; first reduction -> message count, second -> minimum reduction")
    ck.rule("C04.10", "constants of the round protocol: a thread leaves each rendezvous exactly when its counter is 0 (phases A, D) or the thread count (B, C), evaluated for 1..8 threads; the colour flips when the first reduction completes and only then; every per-colour counter of the node automaton is indexed with the closed colour !gvt_phase; the per-thread received count is cleared after it was handed over")
    for cfg, P in progs.items():
        rules_gvt.check_round_protocol(ck, P, "C04.10")
        rules_gvt.check_node_protocol(ck, P, "C04.11")
        rules_cover.check_node_minimum(ck, P, "C04.9")
        rules_cover.check_sent_totals(ck, P, "C04.9")
        rules_gvt.check_extraction_first(ck, P, "C04.1")
        rules_gvt.check_two_peeks(ck, P, "C04.2")
        rules_gvt.check_consumers(ck, P, "C04.3")
        rules_gvt.check_stamp_and_count(ck, P, "C04.4")
        rules_gvt.check_receive_kind(ck, P, "C04.4")
        rules_gvt.check_floors(ck, P, "C04.5")
        rules_fossil.check_strict_frontier(ck, P, "C04.6")
        rules_gvt.check_unique_collective_caller(ck, P, "C04.7")
        rules_mpi.check_collectives(ck, P, "C04.8")
