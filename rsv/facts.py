"""Fact base: build (cmake configure + rsfacts per unit) and load.

Nothing here runs ROOT-Sim/core: cmake is used in configure-only mode to obtain the compile database of
/repo's *current* working tree, and rsfacts (libTooling) parses each unit with the real flags.  Facts are cached
under /verif/.cache/facts/<hash> where <hash> covers every file of the repository that can influence the
analysis, so an edited tree is always re-analysed.
"""
import concurrent.futures
import fcntl
import hashlib
import json
import os
import shutil
import subprocess
import sys
import time

VERIF = os.path.dirname(os.path.dirname(os.path.abspath(__file__)))
REPO = os.environ.get("VERIF_REPO", "/repo")
CACHE = os.path.join(VERIF, ".cache")
RSFACTS = os.path.join(CACHE, "bin", "rsfacts")
RESOURCE_DIR = "/usr/lib/llvm-14/lib/clang/14.0.6"
CONFIGS = {
    "asbuilt": [],            # flags exactly as the build uses them (-O2 -g -DNDEBUG)
    "debug": ["-UNDEBUG"],    # assertions and the debug layout of struct lp_msg
}


class AnalysisBroken(Exception):
    """The analysis itself cannot be carried out (tool failure, vanished anchor...).  Exit code 2."""


def _tree_files(repo):
    out = []
    for base in ("src", "test"):
        for root, dirs, files in os.walk(os.path.join(repo, base)):
            dirs.sort()
            for f in sorted(files):
                if f.endswith((".c", ".h", ".py", ".txt", ".cmake")):
                    out.append(os.path.join(root, f))
    for f in ("CMakeLists.txt",):
        p = os.path.join(repo, f)
        if os.path.exists(p):
            out.append(p)
    return out


def tree_hash(repo=REPO):
    h = hashlib.sha256()
    for p in _tree_files(repo):
        h.update(os.path.relpath(p, repo).encode())
        h.update(b"\0")
        with open(p, "rb") as f:
            h.update(f.read())
        h.update(b"\0")
    for tool in (RSFACTS,):
        if os.path.exists(tool):
            st = os.stat(tool)
            h.update(("%s:%d:%d" % (tool, st.st_size, int(st.st_mtime))).encode())
    h.update(repo.encode())
    return h.hexdigest()[:20]


def ensure_tool():
    if os.path.exists(RSFACTS):
        src = os.path.join(VERIF, "tools", "rsfacts.cc")
        if os.stat(src).st_mtime <= os.stat(RSFACTS).st_mtime:
            return
    rc = subprocess.call([os.path.join(VERIF, "setup.sh")])
    if rc != 0 or not os.path.exists(RSFACTS):
        raise AnalysisBroken("cannot build rsfacts (setup.sh failed)")


def _run_rsfacts(args):
    cdb, unit, config, extra, out, repo = args
    cmd = [RSFACTS, "-p", cdb, "--root", repo, "--config", config, "-o", out,
           "--extra-arg=-resource-dir=" + RESOURCE_DIR, "--extra-arg=-w"]
    cmd += ["--extra-arg=" + e for e in extra]
    cmd.append(unit)
    p = subprocess.run(cmd, stdout=subprocess.PIPE, stderr=subprocess.STDOUT, text=True)
    return unit, config, p.returncode, p.stdout[-2000:]


def _prune_cache(keep):
    base = os.path.join(CACHE, "facts")
    if not os.path.isdir(base):
        return
    ents = []
    for d in os.listdir(base):
        p = os.path.join(base, d)
        if d != keep and os.path.isdir(p):
            ents.append((os.stat(p).st_mtime, p))
    ents.sort()
    for _, p in ents[:-3]:
        shutil.rmtree(p, ignore_errors=True)


def build_facts(configs=("asbuilt",), repo=REPO, verbose=False, cache_root=None, cdb_from=None, reuse=None):
    """Return the directory holding <config>/<unit>.json for the current tree, building it if needed.

    cache_root / cdb_from are used by the self-validation: facts of a mutated scratch copy are kept inside the
    scratch directory, and its compile database is the real one with the repository path rewritten."""
    ensure_tool()
    cache_root = cache_root or os.path.join(CACHE, "facts")
    os.makedirs(cache_root, exist_ok=True)
    h = tree_hash(repo)
    d = os.path.join(cache_root, h)
    lock = open(os.path.join(cache_root, ".lock"), "w")
    fcntl.flock(lock, fcntl.LOCK_EX)
    try:
        os.makedirs(d, exist_ok=True)
        cdb = os.path.join(d, "cdb")
        ccj = os.path.join(cdb, "compile_commands.json")
        if not os.path.exists(ccj) and cdb_from:
            os.makedirs(cdb, exist_ok=True)
            txt = open(os.path.join(cdb_from[0], "compile_commands.json")).read()
            open(ccj, "w").write(txt.replace(cdb_from[1].rstrip("/") + "/", repo.rstrip("/") + "/"))
        if not os.path.exists(ccj):
            shutil.rmtree(cdb, ignore_errors=True)
            os.makedirs(cdb)
            p = subprocess.run(["cmake", "-G", "Ninja", "-S", repo, "-B", cdb, "-DCMAKE_EXPORT_COMPILE_COMMANDS=ON",
                                "-DCMAKE_BUILD_TYPE=RelWithDebInfo", "-DCMAKE_C_FLAGS=-Wno-error"],
                               stdout=subprocess.PIPE, stderr=subprocess.STDOUT, text=True)
            if p.returncode != 0 or not os.path.exists(ccj):
                raise AnalysisBroken("cmake configure failed:\n" + p.stdout[-3000:])
        db = json.load(open(ccj))
        units = sorted(e["file"] for e in db if "/CMakeFiles/rscore.dir/" in e.get("output", e.get("command", "")))
        if len(units) < 20:
            raise AnalysisBroken("compile database lists only %d units of rscore" % len(units))
        jobs = []
        for cfg in configs:
            os.makedirs(os.path.join(d, cfg), exist_ok=True)
            for u in units:
                out = os.path.join(d, cfg, os.path.relpath(u, repo).replace("/", "__") + ".json")
                if not os.path.exists(out) and reuse is not None:
                    # reuse = (facts dir of the unmodified tree, set of changed files): a unit that includes none of the
                    # changed files has identical facts (all paths in the facts are relative to the repository root)
                    src = os.path.join(reuse[0], cfg, os.path.basename(out))
                    if os.path.exists(src):
                        try:
                            deps = set(json.load(open(src)).get("deps", ["*"]))
                        except ValueError:
                            deps = {"*"}
                        if "*" not in deps and deps and not (deps & set(reuse[1])):
                            os.symlink(src, out)
                if not os.path.exists(out):
                    jobs.append((cdb, u, cfg, CONFIGS[cfg], out, repo))
        if jobs:
            t0 = time.time()
            with concurrent.futures.ThreadPoolExecutor(max_workers=16) as ex:
                for unit, cfg, rc, out in ex.map(_run_rsfacts, jobs):
                    if rc != 0:
                        # remove partial outputs so that a later run retries
                        raise AnalysisBroken("rsfacts failed on %s [%s]:\n%s" % (unit, cfg, out))
            if verbose:
                print("facts: %d unit-configs extracted in %.1fs" % (len(jobs), time.time() - t0), file=sys.stderr)
        if cache_root == os.path.join(CACHE, "facts"):
            _prune_cache(h)
        return d, units
    finally:
        fcntl.flock(lock, fcntl.LOCK_UN)
        lock.close()


# ------------------------------------------------------------------------------------------------------------------
class Node:
    __slots__ = ("d", "id", "fn", "parent", "children")

    def __init__(self, d, i, fn):
        self.d = d
        self.id = i
        self.fn = fn
        self.parent = None
        self.children = []

    # -- raw attribute access
    def __getattr__(self, name):
        # only called when normal lookup fails
        try:
            return self.d[name]
        except KeyError:
            return None

    @property
    def k(self):
        return self.d["k"]

    @property
    def line(self):
        return self.d.get("l", 0)

    @property
    def file(self):
        fi = self.d.get("f")
        return self.fn.files[fi] if fi is not None else "?"

    @property
    def macros(self):
        return self.d.get("m", [])

    @property
    def where(self):
        return "%s:%s" % (self.file, self.line)

    def walk(self):
        stack = [self]
        while stack:
            n = stack.pop()
            yield n
            stack.extend(reversed(n.children))

    def ancestors(self):
        p = self.parent
        while p is not None:
            yield p
            p = p.parent

    def is_inside(self, other):
        return any(a is other for a in self.ancestors())

    def __repr__(self):
        return "<%s#%d %s>" % (self.k, self.id, self.where)


class Function:
    def __init__(self, d, unit, files, config):
        self.d = d
        self.name = d["name"]
        self.unit = unit
        self.files = files
        self.config = config
        self.file = files[d["f"]] if "f" in d else "?"
        self.line = d.get("l", 0)
        self.static = bool(d.get("static"))
        self.params = d["params"]
        self.nodes = [Node(nd, i, self) for i, nd in enumerate(d["nodes"])]
        for n in self.nodes:
            for c in n.d.get("c", []):
                ch = self.nodes[c]
                ch.parent = n
                n.children.append(ch)
        self.root = self.nodes[d["root"]]
        self._cfg = None

    @property
    def where(self):
        return "%s:%s" % (self.file, self.line)

    def walk(self):
        return self.root.walk()

    def find(self, kind=None, pred=None):
        for n in self.walk():
            if kind is not None and n.k != kind and (not isinstance(kind, tuple) or n.k not in kind):
                continue
            if pred is not None and not pred(n):
                continue
            yield n

    def calls(self, name=None):
        for n in self.walk():
            if n.k == "CallExpr" and (name is None or n.callee == name or (isinstance(name, (set, tuple, list, frozenset)) and n.callee in name)):
                yield n

    @property
    def cfg(self):
        if self._cfg is None:
            from . import cfg as _cfg
            self._cfg = _cfg.CFG(self)
        return self._cfg

    def __repr__(self):
        return "<fn %s %s>" % (self.name, self.where)


class Program:
    """All units of one configuration."""

    def __init__(self, facts_dir, config, units=None):
        self.config = config
        self.functions = {}      # name -> [Function] (deduplicated on (file, line))
        self.records = {}
        self.enums = {}
        self.globals = {}        # name -> [global dict]
        self.units = []
        self.n_functions = 0
        # root of the analysed tree (a mutated scratch copy has its own): taken from the compile database next to the facts
        self.root = REPO
        try:
            cc = json.load(open(os.path.join(facts_dir, "cdb", "compile_commands.json")))
            for e in cc:
                if "/src/" in e["file"] and "rscore.dir" in e.get("output", ""):
                    self.root = e["file"][:e["file"].index("/src/")]
                    break
        except (OSError, ValueError):
            pass
        d = os.path.join(facts_dir, config)
        seen = set()
        for fn in sorted(os.listdir(d)):
            if not fn.endswith(".json"):
                continue
            u = json.load(open(os.path.join(d, fn)))
            if u.get("errors"):
                raise AnalysisBroken("clang reported %d errors in %s [%s]" % (u["errors"], u["unit"], config))
            self.units.append(u["unit"])
            files = u["files"]
            for f in u["functions"]:
                key = (f["name"], files[f["f"]], f.get("l"))
                if key in seen:
                    continue
                seen.add(key)
                F = Function(f, u["unit"], files, config)
                self.functions.setdefault(F.name, []).append(F)
                self.n_functions += 1
            for r in u["records"]:
                self.records.setdefault(r["name"], r)
            for e in u["enums"]:
                name = e["name"] or "anon@%s:%s" % (files[e["f"]], e["l"])
                self.enums.setdefault(name, e)
            for g in u["globals"]:
                g = dict(g)
                g["unit"] = u["unit"]
                g["file"] = files[g["f"]] if "f" in g else "?"
                lst = self.globals.setdefault(g["name"], [])
                if not any(x["file"] == g["file"] and x.get("l") == g.get("l") and x.get("def") == g.get("def") for x in lst):
                    if "init_nodes" in g:
                        pf = {"name": "<init %s>" % g["name"], "params": [], "nodes": g["init_nodes"], "root": g["init_root"],
                              "f": g.get("f"), "l": g.get("l")}
                        g["init_fn"] = Function(pf, u["unit"], files, config)
                    lst.append(g)

        self.inlined = []
        if not os.environ.get("RSV_NO_INLINE"):
            from . import inline
            self.inlined = inline.normalise(self, Function)

    # -- lookups that raise AnalysisBroken when an anchor vanished
    def fn(self, name, file=None):
        lst = self.functions.get(name, [])
        if file:
            lst = [f for f in lst if f.file.endswith(file)]
        if not lst:
            raise AnalysisBroken("anchor vanished: function %s%s not found [%s]" % (name, " in " + file if file else "", self.config))
        if len(lst) > 1:
            raise AnalysisBroken("anchor ambiguous: %d functions named %s [%s]" % (len(lst), name, self.config))
        return lst[0]

    def fn_opt(self, name, file=None):
        lst = self.functions.get(name, [])
        if file:
            lst = [f for f in lst if f.file.endswith(file)]
        return lst[0] if len(lst) == 1 else None

    def all_functions(self):
        for lst in self.functions.values():
            for f in lst:
                yield f

    def record(self, name):
        if name not in self.records:
            raise AnalysisBroken("anchor vanished: struct %s [%s]" % (name, self.config))
        return self.records[name]

    def field(self, rec, name):
        for f in self.record(rec)["fields"]:
            if f["name"] == name:
                return f
        raise AnalysisBroken("anchor vanished: field %s.%s [%s]" % (rec, name, self.config))

    def enum(self, name):
        if name not in self.enums:
            raise AnalysisBroken("anchor vanished: enum %s [%s]" % (name, self.config))
        return {c["name"]: c["val"] for c in self.enums[name]["consts"]}

    def enum_const(self, cname):
        for e in self.enums.values():
            for c in e["consts"]:
                if c["name"] == cname:
                    return c["val"]
        raise AnalysisBroken("anchor vanished: enumerator %s [%s]" % (cname, self.config))

    def global_def(self, name):
        lst = [g for g in self.globals.get(name, []) if g.get("def")]
        if not lst:
            raise AnalysisBroken("anchor vanished: global %s [%s]" % (name, self.config))
        return lst[0]

    def callers(self, name):
        """All call sites of a function by resolved callee."""
        out = []
        for f in self.all_functions():
            for c in f.calls(name):
                out.append(c)
        return out


_loaded = {}


def load(config="asbuilt", verbose=False):
    key = (config,)
    if key not in _loaded:
        d, units = build_facts((config,), verbose=verbose)
        _loaded[key] = Program(d, config)
    return _loaded[key]
