"""Thorough tier: cross-check of the atomic facts (operation class and memory order per function) that rsfacts read
from the AST against what clang emits as LLVM IR for the same unit with the same flags.  A disagreement means the
dumper (part of the trusted base of every memory-order rule) mis-reports the program: analysis broken, exit 2."""
import json
import os
import re
import shlex
import subprocess

from . import facts
from . import query as Q

ORD = {"monotonic": 0, "unordered": 0, "acquire": 2, "release": 3, "acq_rel": 4, "seq_cst": 5}
UNITS = {
    "C04": ["src/gvt/gvt.c"], "C06": ["src/lp/process.c"], "C07": ["src/gvt/termination.c", "src/parallel/parallel.c"],
    "C15": ["src/datatypes/msg_queue.c"], "C17": ["src/core/sync.c"], "C08": ["src/core/sync.c", "src/gvt/gvt.c"],
}


def ir_atomics(cdb_dir, unit_abs, extra=()):
    cc = json.load(open(os.path.join(cdb_dir, "compile_commands.json")))
    ent = [e for e in cc if e["file"] == unit_abs]
    if not ent:
        return None
    args = shlex.split(ent[0]["command"])
    out = ["clang-14"]
    skip = False
    for a in args[1:]:
        if skip:
            skip = False
            continue
        if a == "-o":
            skip = True
            continue
        if a in ("-c",) or a.startswith("-O") or a == unit_abs:
            continue
        out.append(a)
    out += ["-O0", "-Xclang", "-disable-O0-optnone", "-w", "-S", "-emit-llvm", "-o", "-", unit_abs] + list(extra)
    p = subprocess.run(out, stdout=subprocess.PIPE, stderr=subprocess.PIPE, text=True, cwd=ent[0]["directory"])
    if p.returncode != 0:
        return None
    res = {}
    cur = None
    for line in p.stdout.splitlines():
        m = re.match(r"define .*@([A-Za-z0-9_.]+)\(", line)
        if m:
            cur = m.group(1)
            continue
        if line.startswith("}"):
            cur = None
            continue
        if cur is None:
            continue
        m = re.search(r"\batomicrmw\b.*?\b(monotonic|acquire|release|acq_rel|seq_cst)\b", line)
        if m:
            res.setdefault(cur, []).append(("rmw", ORD[m.group(1)]))
            continue
        m = re.search(r"\bcmpxchg\b.*?\b(monotonic|acquire|release|acq_rel|seq_cst)\s+(monotonic|acquire|seq_cst)\b", line)
        if m:
            res.setdefault(cur, []).append(("rmw", ORD[m.group(1)]))
            continue
        m = re.search(r"\bload atomic\b.*?\b(unordered|monotonic|acquire|seq_cst)\b", line)
        if m:
            res.setdefault(cur, []).append(("load", ORD[m.group(1)]))
            continue
        m = re.search(r"\bstore atomic\b.*?\b(unordered|monotonic|release|seq_cst)\b", line)
        if m:
            res.setdefault(cur, []).append(("store", ORD[m.group(1)]))
    return res


def run(ck, prop, progs):
    units = UNITS.get(prop)
    if not units:
        return
    rid = "%s.IR" % prop
    ck.rule(rid, "cross-check: per function, the multiset of (atomic operation class, memory order) in the dumped AST facts equals the one in "
                 "clang's LLVM IR for the same unit and flags")
    for cfg, P in progs.items():
        d, _ = facts.build_facts((cfg,), repo=P.root) if P.root == facts.REPO else (None, None)
        if d is None:
            continue
        cdb = os.path.join(d, "cdb")
        for u in units:
            ir = ir_atomics(cdb, os.path.join(P.root, u), facts.CONFIGS[cfg])
            if ir is None:
                raise facts.AnalysisBroken("cannot obtain LLVM IR of %s [%s]" % (u, cfg))
            n = 0
            for f in P.all_functions():
                if f.unit != u and f.file != u:
                    continue
                ast = sorted((Q.atomic_kind(a), a.d.get("order")) for a in Q.atomics(f) if f.cfg.position(a) is not None)
                if not ast and f.name not in ir:
                    continue
                if f.name not in ir and f.static:
                    continue            # unused static inline: not emitted
                got = sorted(ir.get(f.name, []))
                n += 1
                if ast == got:
                    ck.holds(rid, "atomics@%s" % f.name, f.where, "%d atomic operation(s) agree: %s" % (len(ast), [(k, o) for k, o in ast][:6]), cfg)
                else:
                    raise facts.AnalysisBroken("dumper and LLVM IR disagree on the atomics of %s [%s]: AST %s vs IR %s" % (f.name, cfg, ast, got))
            ck.expect(rid, n, 1, "functions with atomics in %s" % u)
