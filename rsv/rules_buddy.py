"""The buddy tree's bookkeeping (mm/buddy/buddy.c), C12.7: small integer facts about `longest[]`, each evaluated over the
handful of order values it can take — never over memory."""
import math
from . import expr as X
from . import ceval
from . import interp


def check(ck, P, rid):
    cfg = P.config
    _init(ck, P, rid, cfg)
    _descent(ck, P, rid, cfg)
    _merge(ck, P, rid, cfg)
    _free_size(ck, P, rid, cfg)
    _propagate(ck, P, rid, cfg)


def _propagate(ck, P, rid, cfg):
    """After an allocation every ancestor's value is the larger of its two children's."""
    f = P.fn("buddy_malloc")
    inst = "propagate@buddy_malloc"
    loops = [l for l in f.walk() if l.k == "WhileStmt"]
    st = [s for l in loops for s in l.walk() if s.k == "BinaryOperator" and s.op == "=" and "longest" in X.show(s.children[0])]
    if len(st) != 1:
        ck.inconclusive(rid, inst, f.where, "upward update not recognised", cfg)
        return
    rhs = st[0].children[1]
    subs = sorted({X.show(x) for x in rhs.walk() if x.k == "ArraySubscriptExpr"})
    if len(subs) != 2:
        ck.inconclusive(rid, inst, st[0].where, "upward update reads %s" % subs, cfg)
        return
    bad = None
    for l in range(0, 4):
        for r in range(0, 4):
            env = {subs[0]: l, subs[1]: r}
            v = ceval.ev(rhs, env)
            if v is None:
                for name, fn in (("max", max), ("min", min)):
                    if X.expansions(rhs, name) or name in (X.strip(rhs).macros or []):
                        v = fn(l, r)
            if v is None:
                ck.inconclusive(rid, inst, st[0].where, "upward update not evaluable", cfg)
                return
            if v != max(l, r) and bad is None:
                bad = (l, r, v)
    if bad:
        ck.violated(rid, inst, st[0].where, "children offering orders %d and %d give their parent %d instead of %d: the search then descends into subtrees that cannot hold the request, or "
                    "refuses memory that is free" % (bad[0], bad[1], bad[2], max(bad[0], bad[1])), cfg)
    else:
        ck.holds(rid, inst, st[0].where, "every ancestor gets the larger of its children's values", cfg)


def _init(ck, P, rid, cfg):
    f = P.fn("buddy_init")
    inst = "init@buddy_init"
    rec = P.record("buddy_state")
    fld = [x for x in rec["fields"] if x["name"] == "longest"] if rec else []
    n = None
    if fld:
        n = fld[0].get("size")
    stores = [s for s in f.walk() if s.k == "BinaryOperator" and s.op == "=" and "longest" in X.show(s.children[0])]
    if not n or len(stores) != 1:
        ck.inconclusive(rid, inst, f.where, "initialisation loop of longest[] not recognised", cfg)
        return
    # run the loop over its index: record the value stored at each position
    vals = {}

    class Rec(interp.Interp):
        def step(self, e, st):
            interp.Interp.step(self, e, st)
            if e is stores[0]:
                sub = X.strip(e.children[0])
                i = self.rv(sub.children[1], st) if sub.k == "ArraySubscriptExpr" else None
                vals[i] = st["memo"].get(e.id)
    outs = Rec(f, max_visits=n + 8).run({})
    total = max(vals.values()) if vals and None not in vals.values() else None
    if None in vals or total is None or len(vals) != n:
        ck.inconclusive(rid, inst, f.where, "initialisation covers %d of %d nodes / values not evaluable" % (len(vals), n), cfg)
        return
    bad = [(i, v) for i, v in sorted(vals.items()) if v != total - int(math.floor(math.log2(i + 1)))]
    if bad:
        ck.violated(rid, inst, stores[0].where, "node %d starts with order %d, but a free node at depth %d spans order %d: the allocator hands out blocks that overlap or refuses memory it has"
                    % (bad[0][0], bad[0][1], int(math.floor(math.log2(bad[0][0] + 1))), total - int(math.floor(math.log2(bad[0][0] + 1)))), cfg)
    else:
        ck.holds(rid, inst, stores[0].where, "all %d nodes start with order %d - depth" % (n, total), cfg)


def _descent(ck, P, rid, cfg):
    f = P.fn("buddy_malloc")
    inst = "descent@buddy_malloc"
    req = f.params[1]["name"] if len(f.params) > 1 else None
    incs = [s for s in f.walk() if s.k == "CompoundAssignOperator" and s.op == "+=" and any(x.k == "MemberExpr" and x.name == "longest" for x in s.children[1].walk())]
    if len(incs) != 1 or req is None:
        ck.inconclusive(rid, inst, f.where, "child selection not recognised", cfg)
        return
    e = incs[0].children[1]
    key = None
    for x in e.walk():
        if x.k == "ArraySubscriptExpr":
            key = X.show(x)
    bad = None
    for L in range(0, 5):
        for R in range(0, 5):
            v = ceval.ev(e, {key: L, req: R})
            if v is None:
                ck.inconclusive(rid, inst, incs[0].where, "child selection `%s` not evaluable" % X.show(e), cfg)
                return
            if bool(v) != (L < R) and bad is None:
                bad = (L, R, v)
    if bad:
        ck.violated(rid, inst, incs[0].where, "with the left child's largest free order %d and a request of order %d the search goes %s: it must go right exactly when the left subtree cannot hold "
                    "the request, otherwise it ends in a subtree that is too small and returns memory already in use" % (bad[0], bad[1], "right" if bad[2] else "left"), cfg)
    else:
        ck.holds(rid, inst, incs[0].where, "goes right exactly when longest[left] < requested order", cfg)


def _merge(ck, P, rid, cfg):
    f = P.fn("buddy_free")
    inst = "merge@buddy_free"
    ifs = [s for s in f.walk() if s.k == "IfStmt" and "left_long" in X.show([c for c in s.children if c.k != "Null"][0]) and "right_long" in X.show([c for c in s.children if c.k != "Null"][0])]
    if len(ifs) != 1:
        ck.inconclusive(rid, inst, f.where, "merge test not recognised", cfg)
        return
    kids = [c for c in ifs[0].children if c.k != "Null"]
    cond = kids[0]
    names = sorted({x.name for x in cond.walk() if x.k == "DeclRefExpr"})
    order = [n for n in names if n not in ("left_long", "right_long")]
    if len(order) != 1 or len(kids) < 3:
        ck.inconclusive(rid, inst, ifs[0].where, "merge test reads %s" % names, cfg)
        return
    ns = order[0]

    def stored(branch):
        st = [s for s in branch.walk() if s.k == "BinaryOperator" and s.op == "=" and "longest" in X.show(s.children[0])]
        return st[0].children[1] if len(st) == 1 else None
    a, b = stored(kids[1]), stored(kids[2])
    if a is None or b is None:
        ck.inconclusive(rid, inst, ifs[0].where, "stores of the two branches not recognised", cfg)
        return
    bad = None
    for nsv in (6, 7):
        for l in (0, nsv - 1, nsv):
            for r in (0, nsv - 1, nsv):
                env = {"left_long": l, "right_long": r, ns: nsv}
                c = ceval.ev(cond, env)
                v = _ev_minmax(a if c else b, env) if c is not None else None
                if v is None:
                    ck.inconclusive(rid, inst, ifs[0].where, "merge step not evaluable", cfg)
                    return
                want = nsv + 1 if (l == nsv and r == nsv) else max(l, r)
                if v != want and bad is None:
                    bad = (l, r, nsv, v, want)
    if bad:
        ck.violated(rid, inst, ifs[0].where, "children with largest free orders %d and %d (each child spans order %d) give the parent %d, must be %d: a parent is marked wholly free while one "
                    "half is in use (the next allocation overlaps it), or free halves are never joined" % bad, cfg)
    else:
        ck.holds(rid, inst, ifs[0].where, "parent = order + 1 only when both halves are wholly free, else the larger of the two", cfg)


def _ev_minmax(e, env):
    """ceval, plus the runtime's min()/max() statement-expression macros over plain variables."""
    v = ceval.ev(e, env)
    if v is not None:
        return v
    for name, fn in (("max", max), ("min", min)):
        tops = X.expansions(e, name) or ([e] if name in (X.strip(e).macros or []) else [])
        if tops:
            leaves = sorted({x.name for x in tops[0].walk() if x.k == "DeclRefExpr" and x.name in env})
            if len(leaves) == 2:
                return fn(env[leaves[0]], env[leaves[1]])
    return None


def _free_size(ck, P, rid, cfg):
    f = P.fn("buddy_free")
    inst = "free-size@buddy_free"
    rets = [n for n in f.walk() if n.k == "ReturnStmt"]
    if len(rets) != 1:
        ck.inconclusive(rid, inst, f.where, "expected one return", cfg)
        return
    rv = X.strip(rets[0].children[0])
    init = None
    if rv.k == "DeclRefExpr":
        for n in f.walk():
            if n.k == "VarDecl" and n.did == rv.did and n.children:
                init = n
    st = [m for m in f.walk() if m.k == "BinaryOperator" and m.op == "=" and "longest" in X.show(m.children[0])]
    first = None
    if init is not None:
        for m in st:
            if f.cfg.dominates(m, init):
                first = m
    if init is None or first is None:
        ck.inconclusive(rid, inst, f.where, "size computation not recognised", cfg)
        return
    names = sorted({x.name for x in list(init.children[0].walk()) + list(first.children[1].walk()) if x.k == "DeclRefExpr" and x.d.get("sc") == "local"})
    if len(names) != 1:
        ck.inconclusive(rid, inst, init.where, "size computation reads %s" % names, cfg)
        return
    bad = None
    for v in range(6, 17):
        size = ceval.ev(init.children[0], {names[0]: v})
        order = ceval.ev(first.children[1], {names[0]: v})
        if size is None or order is None:
            ck.inconclusive(rid, inst, init.where, "size computation not evaluable", cfg)
            return
        if size != 1 << order and bad is None:
            bad = (order, size)
    if bad:
        ck.violated(rid, inst, init.where, "a block of order %d (%d bytes) is reported as %d bytes: the checkpoint-size account drifts with every free, and a later checkpoint buffer is "
                    "too small (or needlessly large)" % (bad[0], 1 << bad[0], bad[1]), cfg)
    else:
        ck.holds(rid, inst, init.where, "returns 1 << the order it marks free, for every order", cfg)


def check_no_narrowing(ck, P, rid):
    """The requested size reaches the order computation (count-leading-zeros) at full width: no conversion to a narrower integer
    type is applied to the size itself (conversions of the resulting order, a small number, are fine)."""
    cfg = P.config
    n = 0
    for fname in ("rs_malloc", "buddy_best_effort_realloc", "rs_realloc", "rs_calloc"):
        f = P.fn_opt(fname)
        if f is None:
            continue
        sizes = [p for p in f.params if (p.get("t") or "").replace("const ", "").strip() in ("size_t", "unsigned long", "uint64_t", "unsigned long long")]
        if not sizes:
            continue
        names = {p["name"] for p in sizes}
        # locals initialised from products of the size parameters (rs_calloc's tot) are sizes too
        for v in f.walk():
            if v.k == "VarDecl" and v.children and v.sc == "local" and (v.t or "").replace("const ", "").strip() in ("size_t", "unsigned long") and any(x.k == "DeclRefExpr" and x.name in names for x in v.children[-1].walk()):
                names.add(v.name)
        inst = "full-width@%s" % fname
        n += 1
        bad = None
        for c in f.walk():
            if c.k not in ("CStyleCastExpr", "ImplicitCastExpr") or not c.d.get("ti") or c.d["ti"][0] >= 64:
                continue
            if c.k == "ImplicitCastExpr" and c.ck not in ("IntegralCast",):
                continue
            # does the operand denote the size itself?  descend through arithmetic / parentheses / ?: / min-max statement expressions,
            # never through a call (clz turns a size into an order)
            todo = list(c.children)
            hit = None
            while todo:
                x = todo.pop()
                if x.k in ("CallExpr", "UnaryExprOrTypeTraitExpr", "ChooseExpr", "GenericSelectionExpr"):
                    continue        # a call's result (clz) is an order; sizeof / selection operands are not evaluated
                if x.k == "DeclRefExpr" and x.name in names:
                    hit = x
                    break
                if x.k in ("BinaryOperator",) and x.op in ("<", ">", "<=", ">=", "==", "!=", "&&", "||", ">>"):
                    continue        # a comparison's result is not the size; a right shift by a constant is a deliberate scaling
                todo.extend(x.children)
            if hit is not None and bad is None:
                bad = (c, hit)
        if bad:
            c, hit = bad
            ck.violated(rid, inst, c.where, "`%s` is converted to %s (%d bits) before its size class is computed: a request of 2^32 + k bytes is served like one of k bytes — a block far smaller than "
                        "asked for is returned as if the call had succeeded" % (hit.name, c.t, c.d["ti"][0]), cfg)
        else:
            ck.holds(rid, inst, f.where, "the requested size is never narrowed on the way to its size class", cfg)
    ck.expect(rid, n, 3, "allocator entry points that classify a requested size")


def min_operands(f, ln):
    """Operands of min(a, b) / (a < b ? a : b), single-definition locals seen through; [ln] when ln is not a minimum."""
    from . import query as Q
    ln = Q.resolve_local(f, ln)
    if ln.k == "UnaryOperator" and ln.op == "__extension__" and ln.children:
        ln = X.strip(ln.children[0])
    if ln.k == "StmtExpr" and ln.macros and ln.macros[-1] == "min":
        decls = [v for v in ln.walk() if v.k == "VarDecl" and v.children]
        if len(decls) == 2:
            return [Q.resolve_local(f, d.children[0]) for d in decls]
    elif ln.k == "ConditionalOperator":
        cond = X.strip(ln.children[0])
        a, b = X.strip(ln.children[1]), X.strip(ln.children[2])
        if cond.k == "BinaryOperator" and cond.op in ("<", "<=", ">", ">="):
            l, r = X.strip(cond.children[0]), X.strip(cond.children[1])
            small_first = cond.op in ("<", "<=")
            if {X.show(l), X.show(r)} == {X.show(a), X.show(b)} and (X.show(a) == X.show(l)) == small_first:
                return [Q.resolve_local(f, a), Q.resolve_local(f, b)]
    return [ln]


def check_realloc_copy(ck, P, rid):
    """rs_realloc moves a block that cannot be kept: the copy reads at most the OLD block (its size is what
    buddy_best_effort_realloc reports in .original = 1 << order found by climbing the allocation tree from ptr) and writes at
    most the requested size."""
    from . import query as Q
    cfg = P.config
    f = P.fn("rs_realloc")
    inst = "copy-bound@rs_realloc"
    pnames = [p["name"] for p in f.params]
    copies = [c for c in f.calls() if c.callee in ("memcpy", "__builtin_memcpy", "__builtin___memcpy_chk", "memmove") and len(X.callee_args(c)) >= 3]
    src_is_ptr = []
    for c in copies:
        s = Q.resolve_local(f, X.callee_args(c)[1])
        if s is not None and s.k == "DeclRefExpr" and s.d.get("sc") == "param" and s.name == pnames[0]:
            src_is_ptr.append(c)
    if len(src_is_ptr) != 1:
        ck.inconclusive(rid, inst, f.where, "the copy out of the old block (one memcpy from the pointer parameter) was not recognised", cfg)
        return
    c = src_is_ptr[0]
    ln = Q.resolve_local(f, X.callee_args(c)[2])
    ops = min_operands(f, ln)

    def is_request(n):
        return n.k == "DeclRefExpr" and n.d.get("sc") == "param" and len(pnames) > 1 and n.name == pnames[1]

    def is_original(n):
        if n.k != "MemberExpr" or n.name != "original":
            return False
        base = X.strip(n.children[0])
        if base.k != "DeclRefExpr":
            return False
        for v in f.walk():
            if v.k == "VarDecl" and v.did == base.did and v.children:
                call = X.strip(v.children[0])
                if call.k == "CallExpr" and call.callee == "buddy_best_effort_realloc":
                    a = X.callee_args(call)
                    p_ = Q.resolve_local(f, a[1]) if len(a) > 1 else None
                    return p_ is not None and p_.k == "DeclRefExpr" and p_.name == pnames[0]
        return False
    has_req = any(is_request(o) for o in ops)
    has_org = any(is_original(o) for o in ops)
    other = [o for o in ops if not is_request(o) and not is_original(o)]
    if other:
        ck.inconclusive(rid, inst, c.where, "copy length `%s` is not the smaller of the requested size and the reported old block size" % X.show(ln)[:80], cfg)
    elif not has_org:
        ck.violated(rid, inst, c.where, "the copy out of the old block is `%s` bytes long whatever the size of the old block: growing an allocation reads past its end" % X.show(ln)[:60], cfg)
    elif not has_req:
        ck.violated(rid, inst, c.where, "the copy into the new block is `%s` bytes long whatever the requested size: shrinking an allocation writes past the end of the new block" % X.show(ln)[:60], cfg)
    else:
        ck.holds(rid, inst, c.where, "copies min(requested size, old block size) bytes", cfg)
    # the reported old block size
    be = P.fn("buddy_best_effort_realloc")
    inst = "old-size@buddy_best_effort_realloc"
    stores = [m for m in be.walk() if m.k == "BinaryOperator" and m.op == "=" and X.strip(m.children[0]).k == "MemberExpr" and X.strip(m.children[0]).name == "original"]
    climb = set()
    for lp in be.walk():
        if lp.k in ("ForStmt", "WhileStmt", "DoStmt"):
            conds = [x for x in lp.children if x.k != "Null" and "longest" in X.show(x)[:200]]
            if not any("longest" in X.show(ch) for ch in ([lp.children[2]] if lp.k == "ForStmt" else [lp.children[0] if lp.k == "WhileStmt" else lp.children[1]]) if ch.k != "Null"):
                continue
            for x in lp.walk():
                if x.k == "UnaryOperator" and x.op == "++" and X.strip(x.children[0]).k == "DeclRefExpr":
                    climb.add(X.strip(x.children[0]).did)
    if not stores or len(climb) != 1:
        ck.inconclusive(rid, inst, be.where, "the store of .original / the climb that finds the order of the block were not recognised", cfg)
        return
    cdid = next(iter(climb))
    for m in stores:
        val = m.children[1]
        reads = {}
        todo = [val]
        seen = 0
        while todo and seen < 200:
            n = todo.pop()
            seen += 1
            n = X.strip(n) if n.k in ("ImplicitCastExpr", "ParenExpr", "CStyleCastExpr") else n
            if n.k == "DeclRefExpr" and n.d.get("sc") in ("local", "param"):
                r = Q.resolve_local(be, n)
                if r is not n and not (r.k == "DeclRefExpr" and r.did == n.did):
                    todo.append(r)
                else:
                    reads[n.did] = n.name
                continue
            todo.extend(n.children)
        if set(reads) != {cdid}:
            wrong = sorted(v for d, v in reads.items() if d != cdid)
            ck.violated(rid, inst, m.where, "the old block size reported to rs_realloc is computed from %s, not (only) from the order found by climbing the allocation tree from the block: the copy length is then not bounded by the old block" % (wrong or "no variable"), cfg)
            return
        name = reads[cdid]
        for v in range(6, 17):
            got = ceval.ev(val, {name: v})
            if got is None:
                ck.inconclusive(rid, inst, m.where, "reported size `%s` is not evaluable" % X.show(val)[:60], cfg)
                return
            if got > (1 << v):
                ck.violated(rid, inst, m.where, "a block of order %d (%d bytes) is reported as %d bytes: rs_realloc copies past its end" % (v, 1 << v, got), cfg)
                return
    ck.holds(rid, inst, stores[0].where, "reports at most 1 << order of the block, the order being found by the climb from the block's leaf", cfg)


def check_arena_insert(ck, P, rid):
    """rs_malloc keeps the arena table sorted by address (buddy_find_by_address is a binary search): the index at which a new arena is
    inserted equals the number of arenas with a lower address.  The code between the creation of the arena and the insertion is
    interpreted for tables of 0..5 arenas and every rank of the new address."""
    from . import interp
    from .rules_part import _mcall_args
    cfg = P.config
    f = P.fn("rs_malloc")
    inst = "sorted-insert@rs_malloc"
    adds = [n for n in f.walk() if n.k == "StmtExpr" and n.macros and n.macros[-1] == "array_add_at" and "buddies" in (n.d.get("mcall") or "")]
    inits = [c for c in f.calls() if c.callee == "buddy_init"]
    if not adds or len(inits) != 1:
        ck.inconclusive(rid, inst, f.where, "creation of a new arena / its insertion with array_add_at were not recognised", cfg)
        return
    add = adds[0]
    args = _mcall_args(add) or []
    if len(args) != 3 or not args[1].isidentifier() or not args[2].isidentifier():
        ck.inconclusive(rid, inst, add.where, "insertion index / value are not plain variables: %s" % (add.d.get("mcall") or "")[:60], cfg)
        return
    cont, idx, val = args[0].replace(" ", ""), args[1], args[2]
    pos = f.cfg.position(inits[0])
    if pos is None:
        ck.inconclusive(rid, inst, f.where, "position of buddy_init not found", cfg)
        return
    B = f.cfg.blocks[pos[0]]
    if pos[1] + 1 >= len(B.elems):
        ck.inconclusive(rid, inst, f.where, "nothing follows buddy_init in its block", cfg)
        return
    start = B.elems[pos[1] + 1]
    stop = {x.id for x in add.walk()}
    bad = None
    for n in range(0, 6):
        for r in range(n + 1):
            env = {"%s.count" % cont: n, val: 100 * r + 50}
            for k in range(n):
                env["%s.items[%d]" % (cont, k)] = 100 * (k + 1)
            outs = interp.Interp(f, max_visits=16).run(env, start=start, stop=stop)
            outs = [o for o in outs if o.how == "stop"] if outs and all(o.decided for o in outs) else None
            if not outs:
                ck.inconclusive(rid, inst, add.where, "the search for the insertion index could not be evaluated (it reads something besides the table and the new address)", cfg)
                return
            for o in outs:
                if o.env.get(idx) != r and bad is None:
                    bad = (n, r, o.env.get(idx))
    if bad:
        ck.violated(rid, inst, add.where, "with %d arena(s), a new arena whose address is number %d in ascending order is inserted at index %s: the table is no longer sorted and the binary search of rs_free / rs_realloc misses pointers or picks the wrong arena" % bad, cfg)
    else:
        ck.holds(rid, inst, add.where, "for 0..5 arenas and every rank of the new address the insertion index equals the number of lower addresses", cfg)


def check_result_field_width(ck, P, rid):
    """buddy_realloc_res.original carries the size of the old block, up to 1 << B_TOTAL_EXP (a whole arena): the field must be wide enough,
    or the size of the largest class truncates (to 0) and rs_realloc copies nothing."""
    cfg = P.config
    inst = "old-size-width@buddy_realloc_res"
    try:
        fld = P.field("buddy_realloc_res", "original")
    except Exception:
        fld = None
    st = P.record("buddy_state") if hasattr(P, "record") else None
    total = None
    if st:
        for x in st["fields"]:
            if x["name"] == "base_mem" and x.get("size"):
                total = x["size"]          # bytes of one arena = 1 << B_TOTAL_EXP
    if not fld or not fld.get("size") or not total:
        ck.inconclusive(rid, inst, "src/mm/buddy/buddy.h", "field buddy_realloc_res.original / the arena size were not found", cfg)
        return
    bits = fld["size"] * 8
    if total > (1 << bits) - 1:
        ck.violated(rid, inst, "src/mm/buddy/buddy.h", "buddy_realloc_res.original is %d bits wide but must carry block sizes up to %d (a whole arena): the size of the largest class becomes %d, and a realloc that moves such a block copies that many bytes instead of the common prefix" % (bits, total, total & ((1 << bits) - 1)), cfg)
    else:
        ck.holds(rid, inst, "src/mm/buddy/buddy.h", "%d bits hold every block size up to the arena size %d" % (bits, total), cfg)
