"""Predicate abstraction of the grid arithmetic in the topology library (C19.5).

For the grid geometries the answer of a fixed-direction query and of CountDirections depends on the source region only
through five predicates: A = `x == 0`, B = `x == width-1`, C = `y == 0`, D = `y == height-1`, P = `y & 1`.  Both functions
are evaluated over the truth assignments of these atoms (24 attainable ones: a row 0 is even), never over numbers.
Any use of x, y, width or height that is not one of those atoms makes the obligation inconclusive, so the abstraction is
exact for what it accepts.  Preconditions: from < width*height (so x < width, y < height), width, height >= 1.
"""
from . import expr as X

ATOMS = "ABCDP"


def assignments():
    out = []
    for m in range(32):
        a = {k: bool(m >> i & 1) for i, k in enumerate(ATOMS)}
        if a["C"] and a["P"]:
            continue        # row 0 is even
        out.append(a)
    return out


def witness(a):
    """A concrete (width, height, x, y) realising the assignment, for the report."""
    if a["A"] and a["B"]:
        w, x = 1, 0
    else:
        w = 3
        x = 0 if a["A"] else 2 if a["B"] else 1
    if a["C"] and a["D"]:
        h, y = 1, 0
    elif a["C"]:
        h, y = 3, 0
    elif a["D"]:
        y = 1 if a["P"] else 2
        h = y + 1
    else:
        y = 1 if a["P"] else 2
        h = y + 2
    return w, h, x, y


class Unknown(Exception):
    def __init__(self, node, why):
        Exception.__init__(self, why)
        self.node, self.why = node, why


class Wrong(Exception):
    """A definite inconsistency found while decoding a helper."""
    def __init__(self, node, why):
        Exception.__init__(self, why)
        self.node, self.why = node, why


def is_assert(n):
    return "assert" in (n.d.get("m") or []) or "assert" in (n.d.get("me") or [])


def case_bodies(sw):
    """{label: [statements]} of a switch whose body is a compound statement (fall-through into the next label included)."""
    body = sw.children[-1]
    out = {}
    open_labels = []
    for st in body.children:
        labels = []
        while st.k in ("CaseStmt", "DefaultStmt"):
            labels.append(st.d.get("label") if st.k == "CaseStmt" else "default")
            st = st.children[-1]
        for l in labels:
            out[l] = []
            open_labels.append(l)
        for l in open_labels:
            out[l].append(st)
        if _terminates(st):
            open_labels = []
    return out


def _terminates(st):
    if st.k in ("BreakStmt", "ReturnStmt", "GotoStmt", "ContinueStmt"):
        return True
    if st.k == "CompoundStmt" and st.children:
        return _terminates(st.children[-1])
    if st.k == "IfStmt":
        parts = [c for c in st.children[1:] if c.k != "Null"]
        return len(parts) >= 3 and all(_terminates(p) for p in parts[-2:])
    return False


class Abs:
    """Abstract evaluation of expressions over one assignment.  Values: int | ('X'|'Y'|'W'|'H'|'F', offset) | None."""

    def __init__(self, fn, asg, env=None, ypar=0):
        self.fn, self.a, self.env = fn, asg, dict(env or {})

    def ev(self, n):
        n = X.strip(n, casts=True)
        if n is None:
            raise Unknown(None, "empty expression")
        c = X.const_int(n)
        if c is not None:
            return c
        k = n.k
        if k == "DeclRefExpr":
            if n.d.get("sc") == "param" and n.name == "from":
                return ("F", 0)
            if n.name in self.env:
                return self.env[n.name]
            if n.d.get("dk") == "enum":
                return n.d.get("val")
            raise Unknown(n, "value of `%s` not tracked" % n.name)
        if k == "MemberExpr":
            if n.name == "width":
                return ("W", 0)
            if n.name == "height":
                return ("H", 0)
            if n.name == "regions":
                return ("R", 0)
            raise Unknown(n, "field `%s` is outside the abstraction" % n.name)
        if k == "UnaryOperator":
            if n.op == "!":
                return int(not self.truth(n.children[0]))
            if n.op == "-":
                v = self.ev(n.children[0])
                if isinstance(v, int):
                    return -v
            if n.op == "__extension__":
                return self.ev(n.children[0])
            raise Unknown(n, "operator `%s`" % n.op)
        if k == "ConditionalOperator":
            return self.ev(n.children[1] if self.truth(n.children[0]) else n.children[2])
        if k == "BinaryOperator":
            op = n.op
            if op == "||":
                return int(self.truth(n.children[0]) or self.truth(n.children[1]))
            if op == "&&":
                return int(self.truth(n.children[0]) and self.truth(n.children[1]))
            if op == ",":
                self.ev(n.children[0])
                return self.ev(n.children[1])
            l, r = self.ev(n.children[0]), self.ev(n.children[1])
            if isinstance(l, int) and isinstance(r, int):
                if op in ("+", "-", "*"):
                    return {"+": l + r, "-": l - r, "*": l * r}[op]
                if op in ("==", "!=", "<", ">", "<=", ">="):
                    return int({"==": l == r, "!=": l != r, "<": l < r, ">": l > r, "<=": l <= r, ">=": l >= r}[op])
                if op == "&":
                    return l & r
                raise Unknown(n, "operator `%s` on constants" % op)
            if op in ("+", "-") and isinstance(l, tuple) and isinstance(r, int):
                return (l[0], l[1] + (r if op == "+" else -r))
            if op == "+" and isinstance(r, tuple) and isinstance(l, int):
                return (r[0], r[1] + l)
            if op == "&":
                s, c2 = (l, r) if isinstance(l, tuple) else (r, l)
                if isinstance(s, tuple) and s[0] == "Y" and c2 == 1:
                    return int(self.a["P"]) ^ (s[1] & 1)
                raise Unknown(n, "bit test other than the row parity `y & 1`")
            if op in ("==", "!="):
                t = self._atom(l, r)
                if t is None:
                    t = self._atom(r, l)
                if t is None:
                    raise Unknown(n, "comparison `%s` is not one of the atoms x==0, x==width-1, y==0, y==height-1" % X.show(n))
                return int(t if op == "==" else not t)
            if op == "/" and l == ("F", 0) and r == ("W", 0):
                return ("Y", 0)
            if op == "%" and l == ("F", 0) and r == ("W", 0):
                return ("X", 0)
            if op == "*" and {l, r} == {("Y", 0), ("W", 0)}:
                return ("YW", 0)
            if op == "-" and l == ("F", 0) and r == ("YW", 0):
                return ("X", 0)
            raise Unknown(n, "`%s` is outside the abstraction" % X.show(n))
        raise Unknown(n, "%s is outside the abstraction" % k)

    def _atom(self, l, r):
        if l == ("F", 0) and r == 0 and "Z" in self.a:
            return self.a["Z"]
        if l == ("X", 0) and r == 0:
            return self.a["A"]
        if l == ("X", 0) and r == ("W", -1):
            return self.a["B"]
        if l == ("Y", 0) and r == 0:
            return self.a["C"]
        if l == ("Y", 0) and r == ("H", -1):
            return self.a["D"]
        return None

    def truth(self, n):
        v = self.ev(n)
        if isinstance(v, int):
            return v != 0
        raise Unknown(n, "truth of a symbolic value")

    # ---- statements: returns ('ret', value) or None
    def run(self, stmts):
        for st in stmts:
            r = self.stmt(st)
            if r is not None:
                return r
        return None

    def stmt(self, st):
        if st.k == "Null" or is_assert(st):
            return None
        if st.k == "CompoundStmt":
            return self.run(st.children)
        if st.k == "DeclStmt":
            for v in st.children:
                if v.k == "VarDecl" and v.children:
                    self.env[v.name] = self.ev(v.children[-1])
            return None
        if st.k == "ReturnStmt":
            if self.a.get("classify_return"):
                return ("ret", "INVALID" if st.children and _is_invalid(X.strip(st.children[0], casts=True)) else "VALID")
            return ("ret", self.ev(st.children[0]) if st.children else None)
        if st.k == "BreakStmt":
            return ("break", None)
        if st.k == "IfStmt":
            parts = [c for c in st.children if c.k != "Null"]
            cond = parts[0]
            if self.truth(cond):
                return self.stmt(parts[1])
            return self.stmt(parts[2]) if len(parts) > 2 else None
        e = X.strip(st)
        if e.k == "BinaryOperator" and e.op == "=":
            t = X.strip(e.children[0])
            if t.k != "DeclRefExpr":
                raise Unknown(e, "store to something other than a local")
            self.env[t.name] = self.ev(e.children[1])
            return None
        if e.k == "CompoundAssignOperator" and e.op in ("+=", "-="):
            t = X.strip(e.children[0])
            if t.k != "DeclRefExpr" or t.name not in self.env:
                raise Unknown(e, "update of an untracked variable")
            v, cur = self.ev(e.children[1]), self.env[t.name]
            if not isinstance(v, int):
                raise Unknown(e, "update by a symbolic amount")
            d = v if e.op == "+=" else -v
            self.env[t.name] = cur + d if isinstance(cur, int) else (cur[0], cur[1] + d)
            return None
        if e.k == "UnaryOperator" and e.op in ("++", "--"):
            t = X.strip(e.children[0])
            if t.k != "DeclRefExpr" or t.name not in self.env:
                raise Unknown(e, "update of an untracked variable")
            d = 1 if e.op == "++" else -1
            cur = self.env[t.name]
            self.env[t.name] = cur + d if isinstance(cur, int) else (cur[0], cur[1] + d)
            return None
        raise Unknown(st, "statement %s is outside the abstraction" % st.k)


def helper_validity(h, dirs):
    """For a grid helper: {direction: fn(asg) -> bool (valid receiver)} for its fixed directions, plus how the result is
    validated.  Raises Unknown."""
    sw = [s for s in h.walk() if s.k == "SwitchStmt" and s.d.get("enum") == "topology_direction"]
    if len(sw) != 1:
        raise Unknown(h.root, "no single switch on the direction")
    sw = sw[0]
    top = h.root.children
    pre, post = [], []
    seen = False
    for st in top:
        if st is sw:
            seen = True
        elif seen:
            post.append(st)
        else:
            pre.append(st)
    bodies = case_bodies(sw)
    # the final return: `(x < W && y < H) ? linear : INVALID` (bounded) or a plain value (always valid)
    rets = [s for s in post if s.k == "ReturnStmt"]
    if len(rets) != 1 or len([s for s in post if not is_assert(s)]) != 1:
        raise Unknown(post[0] if post else sw, "code after the switch is not a single return")
    r = X.strip(rets[0].children[0], casts=True)
    bounded = None
    if r.k == "ConditionalOperator":
        cond, tv, fv = X.strip(r.children[0]), X.strip(r.children[1], casts=True), X.strip(r.children[2], casts=True)
        if not _is_invalid(fv) or _is_invalid(tv):
            raise Unknown(r, "the validating return is not `inside ? id : INVALID_DIRECTION`")
        conj = _conjuncts(cond)
        got = set()
        for c in conj:
            c = X.strip(c)
            if c.k == "BinaryOperator" and c.op in ("<", ">"):
                a, b = (c.children[0], c.children[1]) if c.op == "<" else (c.children[1], c.children[0])
                a, b = X.strip(a, casts=True), X.strip(b, casts=True)
                if a.k == "DeclRefExpr" and b.k == "MemberExpr" and (a.name, b.name) in (("x", "width"), ("y", "height")):
                    got.add(a.name)
                    continue
            raise Unknown(c, "validity test `%s` is not x < width / y < height" % X.show(c))
        bounded = got
    elif any(_is_invalid(x) for x in r.walk()):
        raise Unknown(r, "return mixes INVALID_DIRECTION in an unrecognised way")
    else:
        bounded = set()      # no test at all: every move must stay inside by construction (torus: modulo)
        wraps = True
    # the identifier of the cell moved to is the inverse of the decomposition y = from / width, x = from - y * width
    idexpr = X.strip(r.children[1], casts=True) if r.k == "ConditionalOperator" else r
    ok_id = False
    if idexpr.k == "BinaryOperator" and idexpr.op == "+":
        for a_, b_ in ((idexpr.children[0], idexpr.children[1]), (idexpr.children[1], idexpr.children[0])):
            a_, b_ = X.strip(a_, casts=True), X.strip(b_, casts=True)
            if b_.k == "DeclRefExpr" and b_.name == "x" and a_.k == "BinaryOperator" and a_.op == "*":
                f1, f2 = X.strip(a_.children[0], casts=True), X.strip(a_.children[1], casts=True)
                names = {(f1.name if f1.k in ("DeclRefExpr", "MemberExpr") else None), (f2.name if f2.k in ("DeclRefExpr", "MemberExpr") else None)}
                if names == {"y", "width"}:
                    ok_id = True
    if not ok_id:
        raise Wrong(idexpr, "a valid move returns `%s`, not y * width + x: the region returned is not the cell moved to (on a map that is not square it can lie outside the map)" % X.show(idexpr)[:60])
    valid = {}
    for d, stmts in bodies.items():
        if d in ("default", "DIRECTION_RANDOM") or d not in dirs:
            continue
        per_p = {}
        for p in (0, 1):
            ab = Abs(h, {"A": False, "B": False, "C": False, "D": False, "P": bool(p)})
            ab.run(pre)
            if ab.env.get("x") != ("X", 0) or ab.env.get("y") != ("Y", 0):
                raise Unknown(h.root, "x / y are not the column and row of `from`")
            try:
                res = ab.run(stmts)
            except Unknown as u:
                if r.k != "ConditionalOperator":
                    # modulo arithmetic of the torus: accept `v += k; v %= extent` pairs as staying inside
                    if _torus_moves(stmts):
                        per_p[p] = (0, 0)
                        continue
                raise
            if res is None or res[0] != "break":
                raise Unknown(stmts[0], "case %s does not end in break" % d)
            xv, yv = ab.env["x"], ab.env["y"]
            if xv[0] != "X" or yv[0] != "Y" or abs(xv[1]) > 1 or abs(yv[1]) > 1:
                raise Unknown(stmts[0], "case %s moves by more than one cell" % d)
            per_p[p] = (xv[1], yv[1])
        valid[d] = (per_p, bounded)
    return valid


def _torus_moves(stmts):
    real = [s for s in stmts if s.k != "BreakStmt" and not is_assert(s)]
    if len(real) % 2:
        return False
    for a, b in zip(real[::2], real[1::2]):
        a, b = X.strip(a), X.strip(b)
        if not (a.k == "CompoundAssignOperator" and a.op == "+=" and b.k == "CompoundAssignOperator" and b.op == "%="):
            return False
        va, vb = X.strip(a.children[0]), X.strip(b.children[0])
        ext = X.strip(b.children[1], casts=True)
        if va.k == "DeclRefExpr" and vb.k == "DeclRefExpr" and va.name == vb.name and ext.k == "MemberExpr" and va.name in ("x", "y") \
                and ext.name in ("width", "height") and (va.name, ext.name) not in (("x", "width"), ("y", "height")):
            raise Wrong(b, "the %s coordinate is reduced modulo the map's %s: on a map that is not square the move leaves the map (or never reaches its last %s)"
                        % (va.name, ext.name, "columns" if va.name == "x" else "rows"))
        if not (va.k == "DeclRefExpr" and vb.k == "DeclRefExpr" and va.name == vb.name and ext.k == "MemberExpr"
                and (va.name, ext.name) in (("x", "width"), ("y", "height"))):
            return False
    return True


def _conjuncts(c):
    c = X.strip(c)
    if c.k == "BinaryOperator" and c.op == "&&":
        return _conjuncts(c.children[0]) + _conjuncts(c.children[1])
    return [c]


def _is_invalid(n):
    return "INVALID_DIRECTION" in ((n.d.get("m") or []) + (n.d.get("me") or []))


def is_valid(per_p, bounded, a):
    dx, dy = per_p[int(a["P"])]
    if "x" in bounded or dx:
        if dx == -1 and a["A"]:
            return False
        if dx == 1 and a["B"]:
            return False
    if dy == -1 and a["C"]:
        return False
    if dy == 1 and a["D"]:
        return False
    return True


def describe(a):
    col = "the only column" if a["A"] and a["B"] else "the first column" if a["A"] else "the last column" if a["B"] else "an inner column"
    row = "the only row" if a["C"] and a["D"] else "the first row" if a["C"] else "the last row" if a["D"] else "an inner row"
    return "%s, %s (%s)" % (col, row, "odd" if a["P"] else "even")
