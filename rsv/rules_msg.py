"""Message ownership / cancellation protocol rules (C06; shared with C02, C03, C11)."""
from . import expr as X
from . import query as Q
from . import typestate
from . import ceval
from .cfg import witness_text

M32 = (1 << 32) - 1


# --------------------------------------------------------------------------------------------------------------
# F3 typestate: use-after-release, double release, release while reachable, leak
# --------------------------------------------------------------------------------------------------------------
def check_typestate(ck, P, rid_uaf, rid_once, min_release_sites=13):
    cfgname = P.config
    E = typestate.Engine(P)
    n_sites = 0
    n_fn = 0
    for f in P.all_functions():
        if not f.d.get("cfg"):
            continue
        rel = [c for c in f.calls() if c.callee in typestate.RELEASE and c.callee != "free" and c.callee != "mm_free"]
        n_sites += len([c for c in rel if c.callee == "msg_allocator_free"])
        res = E.analyse(f)
        if not res["tracked"]:
            continue
        n_fn += 1
        if not res["complete"]:
            ck.inconclusive(rid_uaf, "fn:%s" % f.name, f.where, "state space bound reached; function not fully explored", cfgname)
            continue
        kinds = {}
        for x in res["findings"]:
            kinds.setdefault(x.kind, []).append(x)
        for x in kinds.get("use-after-release", []):
            ck.violated(rid_uaf, "uaf:%s:%s" % (f.name, x.var), x.node.where, x.detail, cfgname)
        for kind in ("double-release", "release-while-reachable", "leak"):
            for x in kinds.get(kind, []):
                ck.violated(rid_once, "%s:%s:%s" % (kind, f.name, x.var), x.node.where, x.detail, cfgname)
        if not kinds.get("use-after-release"):
            ck.holds(rid_uaf, "fn:%s" % f.name, f.where, "no dereference or argument use of a released message on any path (%d exits, vars %s)" % (
                len(res["exits"]), sorted(set(res["tracked"].values()))), cfgname)
        if not any(kinds.get(k) for k in ("double-release", "release-while-reachable", "leak")):
            ck.holds(rid_once, "fn:%s" % f.name, f.where, "every owned message is released or handed over exactly once on every path", cfgname)
    ck.expect(rid_uaf, n_sites, min_release_sites, "call sites of msg_allocator_free")
    ck.expect(rid_uaf, n_fn, 25, "functions handling message pointers")
    # the extracted message: consumed on every path of process_msg (summary-level statement of exactly-once)
    s = E.summary("handle_anti_msg")
    pm = P.fn("process_msg")
    if s is not None and 1 in s:
        eff = s[1]["T"] | s[1]["F"]
        if eff <= {"D", "E", "G"}:
            ck.holds(rid_once, "summary:handle_anti_msg", P.fn("handle_anti_msg").where, "consumes the anti-message on every path (%s)" % sorted(eff), cfgname)
        else:
            ck.violated(rid_once, "summary:handle_anti_msg", P.fn("handle_anti_msg").where, "an anti-message can leave handle_anti_msg without being released or stored (%s)" % sorted(eff), cfgname)
    s = E.summary("check_early_anti_messages")
    if s is not None and 1 in s:
        if s[1]["T"] <= {"D"} and s[1]["F"] == {"P"}:
            ck.holds(rid_once, "summary:check_early_anti_messages", P.fn("check_early_anti_messages").where, "releases the event iff it returns true", cfgname)
        else:
            ck.violated(rid_once, "summary:check_early_anti_messages", P.fn("check_early_anti_messages").where,
                        "effect on the event does not agree with the returned value: true->%s false->%s" % (sorted(s[1]["T"]), sorted(s[1]["F"])), cfgname)
    return E


# --------------------------------------------------------------------------------------------------------------
# F5b  RMW decides, with the protocol's polarity
# --------------------------------------------------------------------------------------------------------------
def flag_rmws(f, P):
    """RMWs on lp_msg.flags in f: list of (atomic node, effect string like '+ANTI', base text)."""
    ANTI, PROC = P.enum_const("MSG_FLAG_ANTI"), P.enum_const("MSG_FLAG_PROCESSED")
    names = {ANTI: "ANTI", PROC: "PROCESSED"}
    out = []
    for a in Q.atomics(f):
        if Q.atomic_kind(a) != "rmw":
            continue
        tgt, txt = Q.atomic_target(a)
        if tgt is None or tgt.k != "MemberExpr" or tgt.rec != "lp_msg" or tgt.name not in ("flags", "raw_flags"):
            continue
        op = Q.RMW_OPS[a.aop]
        v = X.const_int(a.children[1]) if len(a.children) > 1 else None
        eff = None
        if v is not None:
            v &= M32
            if op in ("add", "or") and v in names:
                eff = "+" + names[v]
            elif op == "add" and ((-v) & M32) in names:
                eff = "-" + names[(-v) & M32]
            elif op == "sub" and v in names:
                eff = "-" + names[v]
            elif op == "and" and ((~v) & M32) in names:
                eff = "-" + names[(~v) & M32]
        out.append((a, eff, X.show(tgt.children[0])))
    return out


def _guard_on_paths(f, rmw, target, bit, polarity, var):
    """Every CFG path from the RMW's block to `target` takes a branch (var & bit) with the given truth."""
    paths, complete = Q.path_conditions(f, target, start_block=f.cfg.position(rmw)[0])
    if not paths:
        return None, "no path"
    for conds in paths:
        okp = False
        for core, truth in conds:
            if Q.is_bit_test(core, bit, var_did=var.did) and truth == polarity:
                okp = True
            if Q.is_bit_test(core, bit, var_did=var.did) and truth != polarity:
                okp = False
                break
        if not okp:
            return False, "a path reaches it with guards [%s]" % ", ".join("%s=%s" % (X.show(c), t) for c, t in conds)
    return True, "%d path(s)%s" % (len(paths), "" if complete else " (bounded)")


def check_rmw_protocol(ck, P, rid):
    cfgname = P.config
    ANTI, PROC = P.enum_const("MSG_FLAG_ANTI"), P.enum_const("MSG_FLAG_PROCESSED")
    roles = [
        # (role, function, effect, action callee, bit tested, polarity, explanation)
        ("sender-cancel", "send_anti_messages", "+ANTI", "msg_queue_insert", PROC, True,
         "after adding ANTI the sender re-queues the message iff the value it replaced had PROCESSED (the receiver already consumed it and must be told to roll back)"),
        ("receiver-undo", "send_anti_messages", "-PROCESSED", "msg_queue_insert", ANTI, False,
         "after removing PROCESSED the receiver re-queues its own undone event iff the value it replaced lacked ANTI (a cancelled event must not come back)"),
    ]
    for role, fname, eff, act, bit, pol, why in roles:
        f = P.fn(fname)
        rm = [r for r in flag_rmws(f, P) if r[1] == eff]
        inst = "%s@%s" % (role, fname)
        if len(rm) != 1:
            ck.violated(rid, inst, f.where, "expected exactly one atomic read-modify-write with effect %s on lp_msg.flags, found %d: the %s update is not a single RMW" % (eff, len(rm), role), cfgname)
            continue
        a, _, base = rm[0]
        kind, dst = Q.result_var(a)
        if kind != "var":
            ck.violated(rid, inst, a.where, "the value returned by the RMW is %s; the decision to re-queue must be taken on it" % ("discarded" if kind == "discarded" else "not kept in a variable"), cfgname)
            continue
        allr = {r[0].id for r in flag_rmws(f, P)}
        g = f.cfg
        reach = g.reachable_from(g.position(a), barrier_ids=allr - {a.id} | {a.id})
        acts = [c for c in f.calls(act) if c.id in reach]
        if not acts:
            ck.violated(rid, inst, a.where, "no %s follows the RMW: the %s decision is missing" % (act, role), cfgname)
            continue
        bad = False
        for c in acts:
            okp, detail = _guard_on_paths(f, a, c, bit, pol, dst)
            if okp is None:
                continue
            if not okp:
                bad = True
                ck.violated(rid, inst, c.where, "%s is not guarded by (%s & %s) %s on every path from the RMW: %s. Rule: %s" % (
                    act, dst.name, "PROCESSED" if bit == PROC else "ANTI", "set" if pol else "clear", detail, why), cfgname)
        # no second read of the flag word between the RMW and the decision
        for x in f.walk():
            if x.k == "AtomicExpr" and Q.atomic_kind(x) == "load" and x.id in reach:
                t, _ = Q.atomic_target(x)
                if t is not None and t.k == "MemberExpr" and t.name in ("flags", "raw_flags"):
                    bad = True
                    ck.violated(rid, inst + ":reload", x.where, "the flag word is read again after the RMW; only the value the RMW returned may decide", cfgname)
        if not bad:
            ck.holds(rid, inst, a.where, "%s returns into `%s`; %d %s call(s) guarded by (%s & %s) %s on every path" % (
                a.aop.replace("__c11_atomic_", ""), dst.name, len(acts), act, dst.name, "PROCESSED" if bit == PROC else "ANTI", "set" if pol else "clear"), cfgname)

    # receiver-extract in process_msg + dispatch on the previous value in handle_anti_msg
    f = P.fn("process_msg")
    inst = "receiver-extract@process_msg"
    rm = [r for r in flag_rmws(f, P) if r[1] == "+PROCESSED"]
    if len(rm) != 1:
        ck.violated(rid, inst, f.where, "expected exactly one RMW adding PROCESSED to the extracted message, found %d" % len(rm), cfgname)
    else:
        a = rm[0][0]
        kind, dst = Q.result_var(a)
        if kind != "var":
            ck.violated(rid, inst, a.where, "value returned by the RMW is not kept", cfgname)
        else:
            ok = True
            hs = list(f.calls("handle_anti_msg"))
            if len(hs) != 1:
                ck.violated(rid, inst, a.where, "handle_anti_msg is called %d times" % len(hs), cfgname)
                ok = False
            else:
                h = hs[0]
                okp, detail = _guard_on_paths(f, a, h, ANTI, True, dst)
                if not okp:
                    ck.violated(rid, inst, h.where, "handle_anti_msg is not guarded by (%s & ANTI) set: %s" % (dst.name, detail), cfgname)
                    ok = False
                args = X.callee_args(h)
                a3 = X.strip(args[2]) if len(args) > 2 else None
                if a3 is None or a3.k != "DeclRefExpr" or a3.did != dst.did:
                    ck.violated(rid, inst + ":arg", h.where, "handle_anti_msg does not receive the value the RMW returned (got %s)" % (X.show(args[2]) if len(args) > 2 else "nothing"), cfgname)
                    ok = False
            fw = Q.calls_via(P, f, "common_msg_process")
            if not fw:
                ck.violated(rid, inst + ":forward", a.where, "process_msg never reaches the forward dispatch", cfg)
                ok = False
            for c in fw:
                okp, detail = _guard_on_paths(f, a, c, ANTI, False, dst)
                if not okp:
                    ck.violated(rid, inst + ":forward", c.where, "an event whose previous flags had ANTI can reach forward processing: %s" % detail, cfgname)
                    ok = False
            if ok:
                ck.holds(rid, inst, a.where, "previous value `%s` alone routes: ANTI set -> handle_anti_msg(%s) and return; clear -> forward processing" % (dst.name, dst.name), cfgname)

    # finite-domain evaluation of handle_anti_msg's dispatch over the three classes of previous values
    h = P.fn("handle_anti_msg")
    if len(h.params) < 3:
        ck.inconclusive(rid, "dispatch@handle_anti_msg", h.where, "unexpected signature", cfgname)
        return
    pname = h.params[2]["name"]
    classes = [
        ("cancelled-before-processing", [ANTI], {"handle_remote_anti_msg": 0, "do_rollback": 0, "msg_allocator_free": 1}),
        ("cancelled-after-processing", [ANTI | PROC], {"handle_remote_anti_msg": 0, "do_rollback": 1, "msg_allocator_free": 1}),
        ("remote-anti", [ANTI | PROC | 4, ANTI | PROC | (1 << 2), ANTI | PROC | (4095 << 2), ANTI | PROC | (1 << 14) | 4, (0xFFFFFFFC | ANTI | PROC) & M32, ANTI | 4 | PROC],
         {"handle_remote_anti_msg": 1, "do_rollback": 0, "msg_allocator_free": 0}),
    ]
    for cname, values, expect in classes:
        inst = "dispatch:%s" % cname
        bad = None
        npaths = 0
        for v in values:
            for elems, decided, how in ceval.feasible_paths(h, {pname: v}):
                npaths += 1
                if not decided:
                    bad = ("inconclusive", "a branch of handle_anti_msg does not depend on the previous flags only")
                    break
                for callee, cnt in expect.items():
                    got = sum(1 for e in elems if e.k == "CallExpr" and e.callee == callee)
                    if got != cnt:
                        bad = ("violated", "previous flags %#x (%s): %s is called %d time(s), the protocol requires %d" % (v, cname, callee, got, cnt))
                        break
                if bad:
                    break
            if bad:
                break
        if bad is None:
            ck.holds(rid, inst, h.where, "values %s: %s on all %d feasible path(s)" % ([hex(v) for v in values[:3]], expect, npaths), cfgname)
        elif bad[0] == "violated":
            ck.violated(rid, inst, h.where, bad[1], cfgname)
        else:
            ck.inconclusive(rid, inst, h.where, bad[1], cfgname)


# --------------------------------------------------------------------------------------------------------------
# handle_remote_anti_msg: ANTI is set on the matched entry before the rollback that undoes it
# --------------------------------------------------------------------------------------------------------------
def check_anti_before_rollback(ck, P, rid):
    cfgname = P.config
    f = P.fn("handle_remote_anti_msg")
    ANTI = P.enum_const("MSG_FLAG_ANTI")
    inst = "mark-before-rollback@handle_remote_anti_msg"
    rbs = list(f.calls("do_rollback"))
    if len(rbs) != 1:
        ck.inconclusive(rid, inst, f.where, "expected one do_rollback call, found %d" % len(rbs), cfgname)
        return
    rb = rbs[0]
    a_param = f.params[1]["name"]
    marks = []
    for n in f.walk():
        if n.k in ("CompoundAssignOperator", "BinaryOperator") and n.op in ("|=", "+=", "="):
            l = X.strip(n.children[0])
            if l.k == "MemberExpr" and l.name in ("raw_flags", "flags") and l.rec == "lp_msg":
                base = X.show(l.children[0])
                if base != a_param and (X.const_int(n.children[1]) == ANTI or n.op == "="):
                    marks.append(n)
    for a in Q.atomics(f):
        t, _ = Q.atomic_target(a)
        if t is not None and t.k == "MemberExpr" and t.name in ("flags", "raw_flags") and X.show(t.children[0]) != a_param and Q.atomic_kind(a) in ("rmw", "store"):
            marks.append(a)
    dom = [m for m in marks if f.cfg.dominates(m, rb)]
    if dom:
        ck.holds(rid, inst, dom[0].where, "`%s` dominates do_rollback: the undo of the cancelled event sees ANTI and does not re-queue it before it is freed" % X.show(dom[0]), cfgname)
    else:
        ck.violated(rid, inst, rb.where, "the matched event is not marked ANTI before do_rollback (marks found: %s): the rollback re-queues an event that is freed right after" % [m.where for m in marks], cfgname)


# --------------------------------------------------------------------------------------------------------------
# F1: who touches the flag word
# --------------------------------------------------------------------------------------------------------------
FLAG_ACCESS_TABLE = {
    # function: (allowed kinds, reason)
    "ScheduleNewEvent": ({"atomic-store", "write", "read"}, "initialises the word of a message it has just allocated, before publishing it"),
    "process_lp_init": ({"write"}, "initialises the private LP_INIT message"),
    "process_lp_fini": ({"atomic-load", "read"}, "reads ANTI at shutdown to decide ownership"),
    "send_anti_messages": ({"atomic-rmw"}, "sender-cancel and receiver-undo RMWs"),
    "process_msg": ({"atomic-rmw"}, "receiver-extract RMW"),
    "handle_remote_anti_msg": ({"rmw-plain", "read", "write"}, "remote events and their anti copies are private to the receiving LP"),
    "check_early_anti_messages": ({"read"}, "matching on the remote identifier"),
    "msg_is_before_extended": ({"read"}, "cancellation bit is part of the order"),
    "gvt_remote_msg_send": ({"write"}, "stamps the remote identifier before the send"),
    "gvt_remote_anti_msg_send": ({"rmw-plain"}, "adds the anti colour before the send"),
    "gvt_remote_msg_receive": ({"rmw-plain", "read"}, "private receive buffer"),
    "gvt_remote_anti_msg_receive": ({"rmw-plain", "read"}, "private receive buffer"),
    "serial_simulation_init": ({"write"}, "serial runtime: no concurrency"),
    "ScheduleNewEvent_serial": ({"write"}, "serial runtime: no concurrency"),
}


def check_flag_access(ck, P, rid):
    cfgname = P.config
    n = 0
    seen_fn = set()
    owners = Q.owner_closure(P, FLAG_ACCESS_TABLE)
    for field in ("flags", "raw_flags"):
        for f, node, kind in Q.field_accesses(P, "lp_msg", field):
            n += 1
            seen_fn.add(f.name)
            inst = "%s:%s" % (f.name, kind)
            if f.name not in FLAG_ACCESS_TABLE and f.name in owners:
                # a static helper acting for an owner: it may do what that owner may
                allowed, reason = FLAG_ACCESS_TABLE[owners[f.name]]
                if kind in allowed:
                    ck.holds(rid, inst, node.where, "static helper of %s: %s" % (owners[f.name], reason), cfg)
                else:
                    ck.violated(rid, inst, node.where, "%s (helper of %s) performs a %s on lp_msg.%s; allowed there: %s" % (f.name, owners[f.name], kind, field, sorted(allowed)), cfg)
                continue
            if f.name not in FLAG_ACCESS_TABLE:
                ck.violated(rid, "outsider:%s" % f.name, node.where, "%s of lp_msg.%s in %s, which is not one of the functions that own the flag word" % (kind, field, f.name), cfgname)
                continue
            allowed, reason = FLAG_ACCESS_TABLE[f.name]
            if kind not in allowed:
                ck.violated(rid, inst, node.where, "%s performs a %s on lp_msg.%s; allowed there: %s (%s)" % (f.name, kind, field, sorted(allowed), reason), cfgname)
            else:
                ck.holds(rid, inst, node.where, reason, cfgname)
    ck.expect(rid, n, 20, "accesses to lp_msg.flags/raw_flags")
    # history tag macros stay inside process.c / fossil.c
    for f in P.all_functions():
        for node in f.walk():
            ms = node.macros
            if ms and ms[0] in ("mark_msg_sent", "mark_msg_remote", "unmark_msg_sent", "unmark_msg_remote", "unmark_msg", "is_msg_sent", "is_msg_remote", "is_msg_local_sent", "is_msg_past"):
                if not (f.file.endswith("lp/process.c") or f.file.endswith("gvt/fossil.c")):
                    ck.violated(rid, "tagmacro:%s" % f.name, node.where, "history tag macro %s used outside process.c / fossil.c" % ms[0], cfgname)


# --------------------------------------------------------------------------------------------------------------
# Ownership table when entries of the history are released (fossil collection, LP shutdown)
# --------------------------------------------------------------------------------------------------------------
def _tag_test(core, bitmask):
    """core tests ((uintptr_t)p & bitmask)."""
    core = X.strip(core)
    if core is None or core.k != "BinaryOperator" or core.op != "&":
        return None
    l, r = X.strip(core.children[0]), X.strip(core.children[1])
    if X.const_int(r) == bitmask:
        rv = typestate.root_var(l)
        if rv is not None and rv.d.get("tp"):
            return rv          # a history entry pointer whose low bits carry the tag
    return None


def _anti_test(core, ANTI):
    """core tests (flags & MSG_FLAG_ANTI) on an integer flag value (not a tagged pointer)."""
    core = X.strip(core)
    if core is None or core.k != "BinaryOperator" or core.op != "&" or X.const_int(core.children[1]) != ANTI:
        return False
    l = X.strip(core.children[0])
    if l.k == "DeclRefExpr" and not l.d.get("tp"):
        return True
    if l.k == "MemberExpr" and l.name in ("flags", "raw_flags"):
        return True
    if l.k == "AtomicExpr":
        return True
    return False


def check_release_ownership(ck, P, rid):
    cfgname = P.config
    ANTI = P.enum_const("MSG_FLAG_ANTI")
    for fname, need_anti in (("fossil_lp_collect", False), ("process_lp_fini", True)):
        f0 = P.fn(fname)
        frees = [(g, c) for g in Q.with_helpers(P, f0) for c in g.calls("msg_allocator_free")]
        inst = "release@%s" % fname
        if not frees:
            ck.violated(rid, inst, f0.where, "%s no longer releases the history entries it drops" % fname, cfgname)
            continue
        for f, c in frees:
            paths, complete = Q.path_conditions(f, c)
            ok = True
            why = ""
            for conds in paths:
                local_excluded = False
                remote = False
                anti_clear = False
                for core, truth in conds:
                    if _tag_test(core, 1) is not None and truth is False:
                        local_excluded = True
                    if _tag_test(core, 3) is not None and truth is False:
                        local_excluded = True      # untagged entry
                    if (_tag_test(core, 2) is not None and truth is True):
                        remote = True
                    if core.k == "DeclRefExpr" and truth is True and _is_remote_flag(f, core):
                        remote = True
                    if _anti_test(core, ANTI) and truth is False:
                        anti_clear = True
                if not local_excluded:
                    ok = False
                    why = "a path frees an entry without excluding locally sent messages (tag bit 0): they belong to their receiver"
                    break
                if need_anti and not (remote or anti_clear):
                    ok = False
                    why = "at shutdown a processed entry whose ANTI bit is set sits in a queue, which frees it; a path frees it here too"
                    break
            if ok and paths:
                ck.holds(rid, inst, c.where, "%d path(s): local-sent entries excluded%s" % (len(paths), "; untagged entries freed only when ANTI is clear, remote-sent always" if need_anti else ""), cfgname)
            elif not paths:
                ck.inconclusive(rid, inst, c.where, "no path found to the release", cfgname)
            else:
                ck.violated(rid, inst, c.where, why, cfgname)


def _ancestors(n):
    q = n.parent
    while q is not None:
        yield q
        q = q.parent


def check_foreign_entries_untouched(ck, P, rid):
    """A history entry tagged local-sent points to a message that belongs to its RECEIVER (who may already have released it when the
    sender's history is dropped).  fossil_lp_collect and process_lp_fini may read or write through an entry only on paths where the
    local-sent tag was tested and found clear."""
    cfgname = P.config
    n = 0
    for fname in ("fossil_lp_collect", "process_lp_fini"):
        f = P.fn(fname)
        inst = "foreign-untouched@%s" % fname
        # accesses through a history entry: msg->field and atomics on &msg->field, where msg was loaded from p_msgs
        # entries loaded per iteration of a loop over the whole history (the commit scan of fossil_lp_collect starts at the newest
        # entry, which is a processed event by the history discipline C01.3, and then only moves to entries tested is_msg_past)
        ents = set()
        for v in f.walk():
            if v.k == "VarDecl" and v.children and "p_msgs" in X.show(v.children[-1]):
                q = v.parent
                in_body = False
                while q is not None:
                    if q.k == "CompoundStmt" and q.parent is not None and q.parent.k in ("ForStmt", "WhileStmt", "DoStmt"):
                        in_body = True
                    q = q.parent
                if in_body:
                    ents.add(v.did)
        acc = []
        for x in f.walk():
            if x.k == "MemberExpr" and x.arrow and x.rec == "lp_msg":
                b = X.strip(x.children[0])
                if b.k == "DeclRefExpr" and b.did in ents:
                    acc.append(x)
        bad = None
        seen = 0
        for x in acc:
            # the scan loop of fossil_lp_collect reads dest_t of *processed* entries only after is_msg_past: handled by the same test
            tgt = x
            while tgt is not None and tgt.id not in f.cfg.pos:
                tgt = tgt.parent
            if tgt is None:
                continue
            seen += 1
            paths, complete = Q.path_conditions(f, tgt)
            for conds in paths:
                excluded = False
                for core, truth in conds:
                    if _tag_test(core, 1) is not None and truth is False:
                        excluded = True
                    if _tag_test(core, 3) is not None and truth is False:
                        excluded = True
                if not excluded and bad is None:
                    bad = x
        n += seen
        if bad is not None:
            ck.violated(rid, inst, bad.where, "%s accesses `%s->%s` of a history entry on a path that has not excluded locally sent messages: such a message belongs to its receiver, which may have "
                        "released it already (a large payload is then freed memory)" % (fname, X.show(X.strip(bad.children[0])), bad.name or next((q.name for q in _ancestors(bad) if q.k == "MemberExpr" and q.name), "?")), cfgname)
        elif seen:
            ck.holds(rid, inst, f.where, "all %d access(es) through a history entry are on paths where the local-sent tag is clear" % seen, cfgname)
        else:
            ck.holds(rid, inst, f.where, "no field of a history entry is accessed while the history is dropped (entries are only handed to the release call)", cfgname)
    ck.expect(rid, n, 1, "accesses through history entries in the two dropping functions")


def _is_remote_flag(f, ref):
    """Is variable `ref` defined as the remote tag test of a history entry (bool remote = is_msg_remote(msg))?"""
    for n in f.walk():
        if n.k == "VarDecl" and n.did == ref.did and n.children:
            init = X.strip(n.children[0])
            core, neg = X.strip_bool(init)
            return _tag_test(core, 2) is not None and not neg
    return False


# --------------------------------------------------------------------------------------------------------------
# Deferred release of remotely cancelled messages (MPI_Isend may still be reading the buffer)
# --------------------------------------------------------------------------------------------------------------
def check_deferred_free(ck, P, rid):
    cfgname = P.config
    n = 0
    for f in P.all_functions():
        for c in f.calls("mpi_remote_anti_msg_send"):
            n += 1
            inst = "deferred-free@%s" % f.name
            rv = typestate.root_var(X.callee_args(c)[0])
            if rv is None:
                ck.inconclusive(rid, inst, c.where, "buffer argument is not a variable", cfgname)
                continue
            g = f.cfg
            good = {x.id for x in f.calls("msg_allocator_free_at_gvt") if (typestate.root_var(X.callee_args(x)[0]) or rv).did == rv.did}
            bad = {x.id for x in f.calls() if x.callee in ("msg_allocator_free", "mm_free", "free") and X.callee_args(x) and
                   typestate.root_var(X.callee_args(x)[0]) is not None and typestate.root_var(X.callee_args(x)[0]).did == rv.did}
            redefs = {x.id for x in f.walk() if x.k == "BinaryOperator" and x.op == "=" and X.strip(x.children[0]).k == "DeclRefExpr" and X.strip(x.children[0]).did == rv.did}
            w = g.escapes(g.position(c), good, goal="none", goal_ids=bad)
            if w:
                ck.violated(rid, inst, c.where, "the buffer handed to the non-blocking anti-message send is released immediately (%s); MPI may still be reading it" % witness_text(f, w), cfgname)
                continue
            w = g.escapes(g.position(c), good | bad, goal="exit", goal_ids=redefs)
            if w:
                ck.violated(rid, inst, c.where, "the cancelled remote message is never queued for release at GVT (%s): leak" % witness_text(f, w), cfgname)
                continue
            ck.holds(rid, inst, c.where, "every path from the send passes msg_allocator_free_at_gvt(%s) before the variable is reused" % rv.name, cfgname)
    ck.expect(rid, n, 1, "call sites of mpi_remote_anti_msg_send")


# --------------------------------------------------------------------------------------------------------------
# the per-LP list of early (overtaking) remote anti-messages
# --------------------------------------------------------------------------------------------------------------
def check_early_list(ck, P, rid):
    cfg = P.config
    # (a) matched entry is unlinked before it is released, through the very slot it was loaded from
    f = P.fn("check_early_anti_messages")
    a_frees = [c for c in f.calls("msg_allocator_free")]
    mparam = f.params[1]["name"]
    cand = [c for c in a_frees if X.show(X.callee_args(c)[0]) != mparam]
    inst = "unlink-before-release@check_early_anti_messages"
    if len(cand) != 1 or X.strip(X.callee_args(cand[0])[0]).k != "DeclRefExpr":
        ck.inconclusive(rid, inst, f.where, "early list walk not recognised", cfg)
    else:
        fr = cand[0]
        node = X.strip(X.callee_args(fr)[0])
        # every definition of the cursor loads it from some slot (an lvalue holding a node pointer)
        sources = set()
        for d in f.walk():
            src = None
            if d.k == "VarDecl" and d.did == node.did and d.children:
                src = d.children[0]
            elif d.k == "BinaryOperator" and d.op == "=" and X.strip(d.children[0]).k == "DeclRefExpr" and X.strip(d.children[0]).did == node.did:
                src = d.children[1]
            if src is not None:
                sources.add(X.show(src))
        unl = [n for n in f.walk() if n.k == "BinaryOperator" and n.op == "=" and X.show(n.children[1]) == "%s->next" % node.name and f.cfg.dominates(n, fr)]
        if not unl:
            ck.violated(rid, inst, fr.where, "the matched early anti-message is released while the LP's list still points to it: the next arrival walks freed memory", cfg)
        else:
            slot = X.show(unl[0].children[0])
            if sources == {slot}:
                ck.holds(rid, inst, unl[0].where, "`%s = %s->next` writes the slot the node was loaded from (%s) and dominates its release" % (slot, node.name, slot), cfg)
            else:
                ck.violated(rid, inst, unl[0].where, "the node is reached through %s but unlinked by writing `%s`: when it is not the first element, every early anti-message in front of it is dropped from the list (their events are never cancelled, their buffers leak)" % (
                    sorted(sources), slot), cfg)
    # (b) an early anti-message is linked completely before it becomes the list head
    h = P.fn("handle_remote_anti_msg")
    a = h.params[1]["name"]
    # the two stores may live in a helper extracted from the handler: look for the function that publishes, use its own parameter name
    for cand_fn in Q.with_helpers(P, h):
        for pn in [p_["name"] for p_ in cand_fn.params]:
            if any(n.k == "BinaryOperator" and n.op == "=" and X.show(n.children[0]).endswith("early_antis") and X.show(n.children[1]) == pn for n in cand_fn.walk()):
                h, a = cand_fn, pn
    link = [n for n in h.walk() if n.k == "BinaryOperator" and n.op == "=" and X.show(n.children[0]) == "%s->next" % a and "early_antis" in X.show(n.children[1])]
    pub = [n for n in h.walk() if n.k == "BinaryOperator" and n.op == "=" and X.show(n.children[0]).endswith("early_antis") and X.show(n.children[1]) == a]
    inst = "link-then-publish@handle_remote_anti_msg"
    if link and pub and h.cfg.dominates(link[0], pub[0]):
        ck.holds(rid, inst, pub[0].where, "%s->next = old head; head = %s" % (a, a), cfg)
    elif pub:
        ck.violated(rid, inst, pub[0].where, "an early anti-message becomes the list head without its link being set to the old head first: the rest of the list is lost or garbage is followed", cfg)
    else:
        ck.violated(rid, inst, h.where, "an anti-message that finds no match is not stored for the event it overtook: that event will never be cancelled", cfg)
    # (c) the list starts empty
    i = P.fn("process_lp_init")
    st = [n for n in i.walk() if n.k == "BinaryOperator" and n.op == "=" and X.show(n.children[0]).endswith("early_antis")]
    if st and X.is_null(st[0].children[1]):
        ck.holds(rid, "init@process_lp_init", st[0].where, "early_antis = NULL", cfg)
    else:
        ck.violated(rid, "init@process_lp_init", i.where, "the early anti-message list is not initialised to empty", cfg)


# --------------------------------------------------------------------------------------------------------------
# the flag word of a freshly allocated message is initialised before the message is published
# --------------------------------------------------------------------------------------------------------------
def check_flags_initialised(ck, P, rid):
    """The comparator reads the ANTI bit and the cancellation protocol reads the whole word; buffers are recycled, so a
    message obtained from msg_allocator_pack/alloc carries stale flags until something stores to them."""
    cfg = P.config
    n = 0
    for f in P.all_functions():
        if not f.file.startswith("src/") or f.name in ("msg_allocator_pack", "msg_allocator_alloc"):
            continue
        for c in f.calls():
            if c.callee not in ("msg_allocator_pack", "msg_allocator_alloc"):
                continue
            kind, mv = Q.result_var(c)
            if kind != "var":
                continue
            n += 1
            g = f.cfg
            inst = "flags-init@%s" % f.name
            inits = set()
            for x in f.walk():
                # direct store to flags / raw_flags of this message (plain or atomic)
                if x.k in ("BinaryOperator", "CompoundAssignOperator") and x.op == "=":
                    t = X.strip(x.children[0])
                    if t.k == "MemberExpr" and t.name in ("flags", "raw_flags") and X.show(t.children[0]) == mv.name:
                        inits.add(x.id)
                if x.k == "AtomicExpr" and Q.atomic_kind(x) == "store":
                    t, _ = Q.atomic_target(x)
                    if t is not None and t.k == "MemberExpr" and t.name in ("flags", "raw_flags") and X.show(t.children[0]) == mv.name:
                        inits.add(x.id)
                # helpers that write the whole word, and receives that overwrite the transmitted part (which contains it)
                if x.k == "CallExpr" and x.callee in ("mpi_remote_msg_send", "gvt_remote_msg_send", "MPI_Mrecv") and any(
                        r.k == "DeclRefExpr" and r.did == mv.did for a in X.callee_args(x) for r in a.walk()):
                    inits.add(x.id)
            pubs = []
            records = []        # pushes into the sender's own history: nobody reads the flags there before the function returns
            for x in f.walk():
                if x.k == "CallExpr" and x.callee in ("msg_queue_insert", "common_msg_process") and any(r.k == "DeclRefExpr" and r.did == mv.did for a in X.callee_args(x) for r in a.walk()):
                    pubs.append(x)
                if x.k == "StmtExpr" and x.macros and x.macros[0] in ("heap_insert", "array_push") and any(r.k == "DeclRefExpr" and r.did == mv.did for r in x.walk()):
                    first = next((y for y in x.walk() if y.id in g.pos), None)
                    if first is not None:
                        (pubs if x.macros[0] == "heap_insert" else records).append(first)
            if not pubs and not records:
                continue
            w = g.escapes(g.position(c), inits, goal="none", goal_ids={p.id for p in pubs}) if pubs else None
            if not w:
                for r_ in records:
                    w1 = g.escapes(g.position(c), inits, goal="none", goal_ids={r_.id})
                    w2 = g.escapes(g.position(r_), inits, goal="exit") if w1 else None
                    if w1 and w2:
                        w = w1 + w2
                        break
            if w:
                ck.violated(rid, inst, c.where, "a message from %s() is published (%s) without its flag word having been written: the buffer is recycled, so the event order and the cancellation protocol read a previous message's flags" % (
                    c.callee, witness_text(f, w)), cfg)
            else:
                ck.holds(rid, inst, c.where, "flags/raw_flags written on every path between allocation and publication", cfg)
    ck.expect(rid, n, 5, "allocation sites of messages")


def check_rmw_tag_discipline(ck, P, rid):
    """In send_anti_messages the receiver-undo RMW may only be applied to an entry tested fully untagged (both tag bits
    clear: it is then a real message pointer), the sender-cancel RMW only to an entry tested local-sent, and the remote
    cancellation only to an entry tested remote-sent.  Otherwise a tagged pointer is dereferenced."""
    cfg = P.config
    f = P.fn("send_anti_messages")
    rm = flag_rmws(f, P)
    targets = []
    for a, eff, base in rm:
        if eff == "-PROCESSED":
            targets.append((a, "undo", {"untagged"}))
        elif eff == "+ANTI":
            targets.append((a, "cancel-local", {"local"}))
    for c in f.calls("mpi_remote_anti_msg_send"):
        targets.append((c, "cancel-remote", {"remote"}))
    targets = [(f, n, r, nd) for (n, r, nd) in targets]
    # the coast forward re-dispatches history entries: only untagged ones are events
    se = P.fn("silent_execution")
    from .rules_rollback import dispatch_points
    for c, inner, helper in dispatch_points(P, se):
        targets.append((se, c, "redispatch", {"untagged"}))
    for f, node, role, need in targets:
        inst = "tag:%s@%s" % (role, f.name)
        from .rules_index import ordered_paths
        paths, complete = ordered_paths(f, node)
        bad = None
        for seq in paths:
            m1 = m2 = m3 = None     # truth of the last test of (ptr & 1), (ptr & 2), (ptr & 3) since the pointer was last assigned
            infeasible = False
            for ev in seq:
                if ev[0] == "e":
                    n0 = ev[1]
                    if (n0.k == "BinaryOperator" and n0.op == "=" and X.strip(n0.children[0]).k == "DeclRefExpr" and X.strip(n0.children[0]).d.get("tp")) or \
                            (n0.k == "VarDecl" and n0.d.get("tp")):
                        # a new entry is loaded (or the tag stripped): earlier tests no longer describe the variable's value,
                        # except that stripping a tested tag yields an untagged pointer
                        rhs = n0.children[1] if n0.k == "BinaryOperator" else (n0.children[0] if n0.children else None)
                        stripped = rhs is not None and any(mm in ("unmark_msg", "unmark_msg_sent", "unmark_msg_remote") for x in rhs.walk() for mm in x.macros)
                        if stripped:
                            keep = (m1, m2, m3)
                        else:
                            m1 = m2 = m3 = None
                    continue
                core, t = ev[1], ev[2]
                tt = None
                cc = X.strip(core)
                if cc.k == "BinaryOperator" and cc.op == "&" and X.const_int(cc.children[1]) in (1, 2, 3):
                    rv = typestate.root_var(cc.children[0])
                    if rv is not None and rv.d.get("tp"):
                        tt = X.const_int(cc.children[1])
                # the same bits tested twice with different outcomes and no assignment in between: not a real path
                prev = {1: m1, 2: m2, 3: m3}.get(tt)
                if tt is not None and prev is not None and prev != t:
                    infeasible = True
                if tt == 3 and t is False and (m1 or m2):
                    infeasible = True
                if tt in (1, 2) and t and m3 is False:
                    infeasible = True
                if tt == 1:
                    m1 = t
                elif tt == 2:
                    m2 = t
                elif tt == 3:
                    m3 = t
            if infeasible:
                continue
            if "untagged" in need:
                ok = (m3 is False) or (m1 is False and m2 is False)
                why = "an entry that may still carry a tag (a sent message) is treated as a processed event here: a tagged pointer is dereferenced and a message the LP merely SENT is undone / re-executed as if it had been received"
            elif "local" in need:
                ok = (m2 is False and (m3 is True or m1 is True)) or (m1 is True and m2 is not True)
                why = "the local cancellation can be applied to an entry not tested local-sent"
            else:
                ok = m2 is True
                why = "the remote cancellation can be applied to an entry not tested remote-sent"
            if not ok:
                bad = why + " (tests on the path: &1=%s &2=%s &3=%s)" % (m1, m2, m3)
        if bad:
            ck.violated(rid, inst, node.where, bad, cfg)
        elif paths:
            ck.holds(rid, inst, node.where, "reached only after the entry's tag bits were tested accordingly (%d paths)" % len(paths), cfg)
        else:
            ck.inconclusive(rid, inst, node.where, "no path", cfg)
    ck.expect(rid, len(targets), 4, "tag-sensitive operations on history entries")


# ---------------------------------------------------------------------------------------------------------------
# event construction: what ScheduleNewEvent was given is what the message carries

def check_pack(ck, P, rid):
    """msg_allocator_pack stores its parameters in the fields of their role and copies exactly the declared payload; both
    ScheduleNewEvent implementations forward their own five parameters position by position."""
    cfg = P.config
    f = P.fn("msg_allocator_pack")
    inst = "pack@msg_allocator_pack"
    if len(f.params) != 5:
        ck.inconclusive(rid, inst, f.where, "msg_allocator_pack does not take the five event attributes", cfg)
        return
    p = [x["name"] for x in f.params]
    roles = {"dest": p[0], "dest_t": p[1], "m_type": p[2]}
    bad = None
    found = {}
    for n in f.walk():
        if n.k == "BinaryOperator" and n.op == "=":
            t = X.strip(n.children[0])
            if t.k == "MemberExpr" and t.rec == "lp_msg" and t.name in roles:
                v = X.strip(n.children[1], casts=False)
                # an explicit cast that is at least as wide as the field changes nothing; a narrower one truncates
                while v is not None and v.k == "CStyleCastExpr" and v.d.get("ti") and t.d.get("ti") and v.d["ti"][0] >= t.d["ti"][0]:
                    v = X.strip(v.children[0], casts=False)
                found[t.name] = n
                if not (v.k == "DeclRefExpr" and v.name == roles[t.name]):
                    if v.k == "CStyleCastExpr":
                        bad = bad or (n, "`%s` is set from `%s` narrowed to %s by an explicit cast" % (t.name, X.show(v), v.t))
                    else:
                        bad = bad or (n, "`%s` is set from `%s`, not from the parameter `%s`" % (t.name, X.show(v), roles[t.name]))
    for fld in roles:
        if fld not in found:
            bad = bad or (f.root, "the field `%s` is never set" % fld)
    allocs = list(f.calls("msg_allocator_alloc"))
    if len(allocs) != 1 or X.show(X.strip(X.callee_args(allocs[0])[0], casts=True)) != p[4]:
        bad = bad or ((allocs[0] if allocs else f.root), "the buffer is not allocated for `%s` bytes of payload" % p[4])
    cps = [c for c in f.calls() if c.callee in ("memcpy", "__builtin_memcpy", "__builtin___memcpy_chk")]
    if len(cps) != 1:
        bad = bad or (f.root, "the payload copy was not recognised")
    else:
        d, s, l = [X.strip(a, casts=True) for a in X.callee_args(cps[0])[:3]]
        if not (d.k == "MemberExpr" and d.name == "pl" and d.rec == "lp_msg"):
            bad = bad or (cps[0], "the payload is copied to `%s`, not to the message's payload area" % X.show(d))
        elif not (s.k == "DeclRefExpr" and s.name == p[3]):
            bad = bad or (cps[0], "the payload is copied from `%s`, not from the parameter `%s`" % (X.show(s), p[3]))
        elif not (l.k == "DeclRefExpr" and l.name == p[4]):
            bad = bad or (cps[0], "the payload copy has length `%s`, not `%s`" % (X.show(l), p[4]))
        else:
            # the copy may be skipped only when there is nothing to copy
            for core, B in Q.deciding_branches(f, cps[0], transitive=False):
                names = {x.name for x in core.walk() if x.k == "DeclRefExpr"}
                if names - {p[4], "__builtin_expect"}:
                    bad = bad or (core, "the payload copy depends on `%s`" % X.show(core))
    if bad:
        ck.violated(rid, inst, bad[0].where, "msg_allocator_pack: %s — the event delivered is not the event that was scheduled" % bad[1], cfg)
    else:
        ck.holds(rid, inst, f.where, "receiver -> dest, timestamp -> dest_t, type -> m_type, %s bytes of %s -> pl" % (p[4], p[3]), cfg)
    n = 0
    for c in P.callers("msg_allocator_pack"):
        g = c.fn
        if not g.file.startswith("src/") or len(g.params) != 5:
            continue
        n += 1
        inst = "forward@%s" % g.name
        gp = [x["name"] for x in g.params]
        args = [X.strip(a, casts=True) for a in X.callee_args(c)]
        wrong = [(i, X.show(a)) for i, a in enumerate(args) if not (a.k == "DeclRefExpr" and a.name == gp[i])]
        if wrong:
            ck.violated(rid, inst, c.where, "%s passes `%s` as the %s of the new event instead of its own parameter `%s`" % (g.name, wrong[0][1], ("receiver", "timestamp", "type", "payload", "payload size")[wrong[0][0]], gp[wrong[0][0]]), cfg)
        else:
            ck.holds(rid, inst, c.where, "%s forwards (%s) unchanged" % (g.name, ", ".join(gp)), cfg)
    ck.expect(rid, n, 2, "ScheduleNewEvent implementations that build an event")


# ---------------------------------------------------------------------------------------------------------------
# history entries are dereferenced only when proven to be real message pointers
# ---------------------------------------------------------------------------------------------------------------
def _history_load(rhs, hint="p_msgs"):
    """rhs reads an element of the LP history: array_get_at(<..p_msgs..>, i) / array_peek(..) / items[i]."""
    if rhs is None:
        return None
    for x in rhs.walk():
        if x.k == "ArraySubscriptExpr" and hint in X.show(x.children[0]):
            return x
    return None


def _entry_paths(f, node, did, loads, initial=None):
    """Walk every path of f to `node` and follow what is known about the history element held by variable `did`:
    returns (relevant, bad, complete, n_paths).  `initial` = "hist" when the variable is a parameter that receives an element."""
    from .rules_index import ordered_paths
    paths, complete = ordered_paths(f, node, revisit=True)
    bad = None
    relevant = False
    for seq in paths:
        src = initial          # None: not a history element; "hist"; "last"
        m1 = m2 = m3 = None
        infeasible = False
        for ev in seq:
            if ev[0] == "e":
                n0 = ev[1]
                tgt = None
                if n0.k == "VarDecl" and n0.did == did:
                    tgt = n0
                elif n0.k == "BinaryOperator" and n0.op == "=" and X.strip(n0.children[0]).k == "DeclRefExpr" and X.strip(n0.children[0]).did == did:
                    tgt = n0
                if tgt is not None:
                    m1 = m2 = m3 = None
                    if tgt.id in loads:
                        src = "last" if _is_last_entry(f, loads[tgt.id][1], tgt) else "hist"
                    else:
                        src = None
                continue
            core, t = ev[1], ev[2]
            tt = None
            cc = X.strip(core)
            if cc.k == "BinaryOperator" and cc.op == "&" and X.const_int(cc.children[1]) in (1, 2, 3):
                rv = typestate.root_var(cc.children[0])
                if rv is not None and rv.did == did:
                    tt = X.const_int(cc.children[1])
            prev = {1: m1, 2: m2, 3: m3}.get(tt)
            if tt is not None and prev is not None and prev != t:
                infeasible = True
            if tt == 3 and t is False and (m1 or m2):
                infeasible = True
            if tt in (1, 2) and t and m3 is False:
                infeasible = True
            if tt == 1:
                m1 = t
            elif tt == 2:
                m2 = t
            elif tt == 3:
                m3 = t
        if infeasible or src is None:
            continue
        relevant = True
        if src == "last":
            continue
        if not ((m3 is False) or (m1 is False and m2 is False)):
            bad = "tests on the path since the element was loaded: &1=%s &2=%s &3=%s" % (m1, m2, m3)
    return relevant, bad, complete, len(paths)


def _derefs_param(g, k, _memo={}):
    """g dereferences its k-th parameter on some path on which g itself has not tested the tag bits clear."""
    key = (g.name, g.config, k)
    if key in _memo:
        return _memo[key]
    _memo[key] = False
    p = g.params[k]
    out = False
    for n in g.walk():
        if n.k == "MemberExpr" and n.arrow:
            b = X.strip(n.children[0])
            if b.k == "DeclRefExpr" and b.did == p["did"] and not Q.unevaluated(n):
                if not g.d.get("cfg"):
                    out = True
                    break
                rel, bad, complete, _ = _entry_paths(g, n, p["did"], {}, "hist")
                if bad or not complete:
                    out = True
                    break
    _memo[key] = out
    return out


def check_entry_derefs(ck, P, rid, floor=10, only=None):
    """An element of the LP history is a tagged word: a real message pointer only when both tag bits are clear.  Every dereference of a
    variable that holds a history element (directly, or as an argument of a function that dereferences that parameter) is reached only
    after tests that prove the element untagged -- or the element is the LAST one of the history, which the layout makes a processed
    message.  (Stripping the tag with unmark_msg* gives a different expression and is not a dereference of the element.)"""
    from .rules_index import ordered_paths
    cfg = P.config
    n_sites = 0
    for f in P.all_functions():
        if not (f.file.endswith("lp/process.c") or f.file.endswith("gvt/fossil.c")) or not f.d.get("cfg"):
            continue
        if only and f.name not in only:
            continue
        # variables ever loaded from the history
        loads = {}       # assignment / VarDecl node id -> (did, subscript node)
        for n in f.walk():
            if n.k == "VarDecl" and n.children and typestate.is_msg_ptr_type(n.t):
                rhs = n.children[0]
                if not any(mm.startswith("unmark_msg") for x in rhs.walk() for mm in x.macros):
                    s = _history_load(rhs)
                    if s is not None:
                        loads[n.id] = (n.did, s)
            elif n.k == "BinaryOperator" and n.op == "=" and X.strip(n.children[0]).k == "DeclRefExpr" and typestate.is_msg_ptr_type(X.strip(n.children[0]).t):
                rhs = n.children[1]
                if not any(mm.startswith("unmark_msg") for x in rhs.walk() for mm in x.macros):
                    s = _history_load(rhs)
                    if s is not None:
                        loads[n.id] = (X.strip(n.children[0]).did, s)
        if not loads:
            continue
        dids = {d for d, s in loads.values()}
        sites = []
        for n in f.walk():
            if Q.unevaluated(n):
                continue
            if n.k == "MemberExpr" and n.arrow:
                b = X.strip(n.children[0])
                if b.k == "DeclRefExpr" and b.did in dids:
                    sites.append((n, b, "->%s" % n.name))
            elif n.k == "CallExpr" and n.callee:
                g = P.fn_opt(n.callee)
                if g is None:
                    continue
                for k, a in enumerate(X.callee_args(n)):
                    b = X.strip(a)
                    if b.k == "DeclRefExpr" and b.did in dids and k < len(g.params) and _derefs_param(g, k):
                        sites.append((n, b, "argument of %s" % n.callee))
        seen_inst = {}
        for node, var, what in sites:
            inst = "entry-deref@%s:%s:%s" % (f.name, var.name, what)
            seen_inst[inst] = seen_inst.get(inst, 0) + 1
            if seen_inst[inst] > 1:
                inst += "#%d" % seen_inst[inst]
            relevant, bad, complete, n_paths = _entry_paths(f, node, var.did, loads)
            if not relevant:
                continue
            n_sites += 1
            if bad:
                ck.violated(rid, inst, node.where, "a history element that may carry a tag (a message the LP SENT, bit 0 or bit 1 set) is dereferenced as if it were a processed message: the read goes through a misaligned pointer into another LP's message (%s)" % bad, cfg)
            elif not complete:
                ck.inconclusive(rid, inst, node.where, "path bound reached", cfg)
            else:
                ck.holds(rid, inst, node.where, "reached only with an element proven untagged, or with the last element of the history (%d paths)" % n_paths, cfg)
    ck.expect(rid, n_sites, floor, "dereferences of history elements")


def _is_last_entry(f, sub, load):
    """The subscript is count-1 of the same array: `--i` (or i - 1) where i's only earlier definition is `i = array_count(A)`, the
    load is outside every loop and precedes every other write of i."""
    idx = X.strip(sub.children[1])
    v = None
    if idx.k == "BinaryOperator" and idx.op == "-" and X.const_int(idx.children[1]) == 1:
        # array_peek(A): A.items[A.count - 1]
        c_ = X.strip(idx.children[0])
        if c_.k == "MemberExpr" and c_.name == "count":
            norm = lambda t: t.replace("(", "").replace(")", "").replace(" ", "")
            if norm(X.show(c_.children[0])) == norm(X.show(sub.children[0])).replace(".items", "").replace("->items", ""):
                return True
    if idx.k == "UnaryOperator" and idx.op == "--" and not idx.d.get("postfix"):
        v = X.strip(idx.children[0])
    elif idx.k == "BinaryOperator" and idx.op == "-" and X.const_int(idx.children[1]) == 1:
        v = X.strip(idx.children[0])
    if v is None or v.k != "DeclRefExpr":
        return False
    decl = [n for n in f.walk() if n.k == "VarDecl" and n.did == v.did]
    if not decl or not decl[0].children:
        return False
    init = decl[0].children[0]
    arr = X.show(sub.children[0])
    if not any("array_count" in x.macros for x in init.walk()):
        return False
    base = arr.replace(".items", "").replace("(", "").replace(")", "")
    if base not in X.show(init).replace("(", "").replace(")", ""):
        return False
    g = f.cfg
    pos = g.position(load)
    if pos is None:
        return False
    if load.id in g.reachable_from(pos):
        return False        # inside a loop
    for w in f.walk():
        if w.k == "DeclRefExpr" and w.did == v.did and X.is_write_target(w) and not any(w is y for y in idx.walk()):
            if not g.dominates(load, w):
                return False
    return True


def check_teardown_after_barrier(ck, P, rid):
    """A worker releases the histories of its LPs (lp_fini -> process_lp_fini) and the content of its queue only after a thread barrier
    that follows the main loop: until every thread has left its loop another thread can still roll back and touch (flag RMW, re-queue)
    a message that sits in this thread's history or queue."""
    cfg = P.config
    f = P.fn_opt("worker_thread_fini")
    if f is None:
        ck.broken("%s: worker_thread_fini not found" % rid)
        return
    g = f.cfg

    def always_barrier(fn, depth=0):
        """fn passes a thread barrier on every path from entry to exit."""
        if fn is None or not fn.d.get("cfg") or depth > 3:
            return False
        cand = [c for c in fn.calls() if c.callee == "sync_thread_barrier" or (c.callee and c.callee != fn.name and always_barrier(P.fn_opt(c.callee), depth + 1))]
        for c in cand:
            pos = fn.cfg.position(c)
            if pos is None:
                continue
            if fn.cfg.escapes(fn.cfg.entry_point(), {c.id}, goal="exit") is None:
                return True
        return False
    barriers = [c for c in f.calls() if c.callee == "sync_thread_barrier" or (c.callee and always_barrier(P.fn_opt(c.callee)))]
    n = 0
    for name in ("lp_fini", "msg_queue_fini"):
        for c in f.calls(name):
            n += 1
            inst = "teardown-after-barrier:%s" % name
            if any(g.dominates(b, c) for b in barriers):
                ck.holds(rid, inst, c.where, "a thread barrier (directly or inside %s) dominates the call" % ", ".join(sorted({b.callee for b in barriers if g.dominates(b, c)})), cfg)
            else:
                ck.violated(rid, inst, c.where, "%s runs before any thread barrier that follows the main loop: another thread that is still processing can roll back and modify or re-queue a message this thread has just released (use after free)" % name, cfg)
    ck.expect(rid, n, 2, "teardown calls in worker_thread_fini")
