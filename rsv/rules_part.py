"""LP partitioning and routing rules (C14; shared with C02, C08, C09, C15)."""
from . import expr as X
from . import query as Q
from .cfg import witness_text

ROUTING = ("lid_to_nid", "lid_to_rid")


def macro_args(top, macro):
    """Maximal subtrees below an expansion's top node that were NOT produced by the macro body itself: the arguments."""
    out = []
    stack = [top]
    while stack:
        n = stack.pop()
        ms = n.macros
        if not ms or macro not in ms:
            out.append(n)
            continue
        stack.extend(reversed(n.children))
    return out


def monotone(n, arg_ids, notes):
    """Direction of an expression as a function of the macro argument: 'up', 'const', 'down', 'none' (definitely not
    monotone) or 'unknown'."""
    n0 = n
    n = X.strip(n, casts=False)
    if n.id in arg_ids or any(n.is_inside(a) for a in arg_ids.values()):
        return "up"
    if n.k in ("CStyleCastExpr", "ImplicitCastExpr", "ParenExpr"):
        d = monotone(n.children[0], arg_ids, notes)
        if n.k != "ParenExpr" and n.d.get("ti") and n.children[0].d.get("ti") and n.d["ti"][0] < n.children[0].d["ti"][0]:
            notes.add("narrowing conversion to %s assumed not to wrap (ids far below 2^%d)" % (n.t, n.d["ti"][0]))
        return d
    if not any(x.id in arg_ids for x in n.walk()):
        return "const"
    if n.k == "BinaryOperator":
        a, b = monotone(n.children[0], arg_ids, notes), monotone(n.children[1], arg_ids, notes)
        op = n.op
        if op == "+":
            if "none" in (a, b):
                return "none"
            if {a, b} <= {"up", "const"}:
                return "up"
            return "unknown"
        if op == "-":
            if b == "const":
                return a
            if a == "const" and b == "up":
                return "down"
            return "none" if "none" in (a, b) else "unknown"
        if op in ("*", "/", ">>", "<<"):
            if b == "const" and a in ("up", "down", "none"):
                if a != "none":
                    notes.add("`%s` assumed positive and loop-invariant" % X.show(n.children[1]))
                return a
            if op == "*" and a == "const" and b in ("up", "down"):
                notes.add("`%s` assumed positive and loop-invariant" % X.show(n.children[0]))
                return b
            return "none" if "none" in (a, b) else "unknown"
        if op in ("%", "^", "&", "|"):
            return "none"
        return "unknown"
    if n.k == "UnaryOperator" and n.op == "-":
        d = monotone(n.children[0], arg_ids, notes)
        return {"up": "down", "down": "up"}.get(d, d)
    return "unknown"


def check_monotone_routing(ck, P, rid):
    cfg = P.config
    seen = {}
    for f in P.all_functions():
        for macro in ROUTING:
            for top in X.expansions(f.root, macro):
                args = macro_args(top, macro)
                arg_ids = {a.id: a for a in args if not (X.const_int(a) is not None and a.k != "DeclRefExpr") and a.k not in ("IntegerLiteral",)}
                # globals referenced by the macro body itself (n_nodes, global_config...) carry the macro in their stack: not args
                notes = set()
                d = monotone(top, arg_ids, notes)
                seen.setdefault(macro, []).append((f, top, d, notes))
    for macro in ROUTING:
        sites = seen.get(macro, [])
        inst = "monotone:%s" % macro
        if not sites:
            ck.inconclusive(rid, inst, "", "no expansion of %s found" % macro, cfg)
            continue
        dirs = {s[2] for s in sites}
        f, top, d, notes = sites[0]
        for n in notes:
            ck.assume(n)
        if dirs == {"up"}:
            ck.holds(rid, inst, top.where, "%s is non-decreasing in the LP id at all %d expansion sites: %s" % (macro, len(sites), X.show(top)[:90]), cfg)
        elif "none" in dirs or "down" in dirs:
            bad = next(s for s in sites if s[2] in ("none", "down"))
            ck.violated(rid, inst, bad[1].where, "%s = %s is not monotone in the LP id: ownership ranges derived from it are not contiguous, and two owners (or none) can claim one LP" % (macro, X.show(bad[1])[:90]), cfg)
        else:
            ck.inconclusive(rid, inst, top.where, "monotonicity of %s not decided by the calculus: %s" % (macro, X.show(top)[:90]), cfg)
    ck.expect(rid, sum(len(v) for v in seen.values()), 6, "routing macro expansions")
    # count-like divisors are positive: lps == 0 is rejected at init
    ri = P.fn("RootsimInit")
    ok = False
    for r in [x for x in ri.walk() if x.k == "ReturnStmt" and X.const_int(x.children[0]) not in (0, None)]:
        paths, _ = Q.path_conditions(ri, r)
        for conds in paths:
            for core, t in conds:
                if "lps" in X.show(core) and ((X.strip(core).k == "BinaryOperator" and X.strip(core).op == "==" and t) or (X.strip(core).k == "MemberExpr" and not t)):
                    ok = True
    if ok:
        ck.holds(rid, "positive-lps", ri.where, "RootsimInit rejects lps == 0", cfg)
    else:
        ck.violated(rid, "positive-lps", ri.where, "a configuration with 0 LPs is not rejected: the routing macros divide by it", cfg)


# --------------------------------------------------------------------------------------------------------------
def partition_calls(f):
    """Decode every partition_start expansion in f: routing macro, partition id expression, loop thresholds."""
    out = []
    for s in f.walk():
        if s.k != "StmtExpr" or not s.macros or s.macros[0] != "partition_start":
            continue
        loops = [l for l in s.walk() if l.k == "WhileStmt"]
        info = {"node": s, "fn": None, "id": None, "down": None, "up": None, "lo": None}
        for l in loops:
            cond = [c for c in l.children if c.k != "Null"][0]
            body = [c for c in l.children if c.k != "Null"][-1]
            step = [x for x in body.walk() if x.k == "UnaryOperator" and x.op in ("--", "++")]
            direction = step[0].op if step else None
            for c in cond.walk():
                if c.k == "BinaryOperator" and c.op in ("<", "<=", ">", ">="):
                    for macro in ROUTING:
                        tops = X.expansions(c.children[0], macro) or ([c.children[0]] if macro in c.children[0].macros else [])
                        if tops:
                            info["fn"] = macro
                            info["id"] = X.show(c.children[1])
                            info["down" if direction == "--" else "up"] = c.op
                    l0, r0 = X.strip(c.children[0]), X.strip(c.children[1])
                    if c.op == ">" and l0.k == "DeclRefExpr" and not any(m in ROUTING for m in c.children[0].macros) and direction == "--" and not X.expansions(c.children[0], "lid_to_nid") and not X.expansions(c.children[0], "lid_to_rid"):
                        info["lo"] = X.show(r0)
        out.append(info)
    return out


RANGE_ARGS = {"lid_to_nid": ("n_nodes", "0", "global_config.lps"), "lid_to_rid": ("global_config.n_threads", "lid_node_first", "n_lps_node")}


def _mcall_args(node):
    txt = node.d.get("mcall") or ""
    if "(" not in txt:
        return None
    inner = txt[txt.find("(") + 1: txt.rfind(")")]
    args, depth, cur = [], 0, ""
    for ch in inner:
        if ch == "," and depth == 0:
            args.append(cur.strip()); cur = ""
        else:
            depth += ch in "(["; depth -= ch in ")]"
            cur += ch
    args.append(cur.strip())
    return args


BOUNDS = {
    # variable: (function, routing macro, partition id, minus)
    "lid_node_first": ("lp_global_init", "lid_to_nid", "nid", None),
    "n_lps_node": ("lp_global_init", "lid_to_nid", "(nid + 1)", "lid_node_first"),
    "lid_thread_first": ("lp_init", "lid_to_rid", "rid", None),
    "lid_thread_end": ("lp_init", "lid_to_rid", "(rid + 1)", None),
}


def check_bounds_from_routing(ck, P, rid):
    cfg = P.config
    for var, (fname, macro, pid, minus) in BOUNDS.items():
        n_w = 0
        for f, node, kind in Q.global_accesses(P, var):
            if kind not in ("write", "rmw-plain"):
                continue
            n_w += 1
            inst = "bound:%s@%s" % (var, f.name)
            if f.name == "serial_simulation_init" and var == "n_lps_node":
                ck.holds(rid, inst, node.where, "serial runtime: one owner hosts every LP", cfg)
                continue
            if f.name != fname:
                ck.violated(rid, inst, node.where, "%s writes the ownership bound %s" % (f.name, var), cfg)
                continue
            asg = node.parent
            while asg is not None and not (asg.k == "BinaryOperator" and asg.op == "="):
                asg = asg.parent
            rhs = asg.children[1]
            pcs = [p for p in partition_calls(f) if p["node"].is_inside(rhs) or p["node"] is X.strip(rhs)]
            if not pcs:
                # the search result may sit in a single-definition local (`next_first = partition_start(...); n = next_first - first`)
                for x in rhs.walk():
                    if x.k == "DeclRefExpr" and x.d.get("sc") == "local":
                        r2 = Q.resolve_local(f, x)
                        if r2 is not None and not (r2.k == "DeclRefExpr" and r2.did == x.did):
                            pcs += [p for p in partition_calls(f) if p["node"].is_inside(r2) or p["node"] is X.strip(r2) or r2.is_inside(p["node"])]
            if len(pcs) != 1:
                ck.violated(rid, inst, asg.where, "%s is not computed by partition_start (%s): ownership bounds must be derived from the routing function itself" % (var, X.show(rhs)[:70]), cfg)
                continue
            pc = pcs[0]
            problems = []
            if pc["fn"] != macro:
                problems.append("uses %s instead of %s" % (pc["fn"], macro))
            if pc["id"] != pid:
                problems.append("partition id is %s, expected %s" % (pc["id"], pid))
            if pc["down"] != ">=" or pc["up"] != "<":
                problems.append("search thresholds are (down while %s, up while %s), expected (>=, <): the result is not the least index routed to the partition or later" % (pc["down"], pc["up"]))
            args = _mcall_args(pc["node"])
            want_args = RANGE_ARGS.get(macro)
            if args is not None and want_args is not None and len(args) == 5:
                got = (args[1].replace(" ", ""), args[3].replace(" ", ""), args[4].replace(" ", ""))
                if got != tuple(w.replace(" ", "") for w in want_args):
                    problems.append("searched over (parts=%s, start=%s, total=%s), but %s routes identifiers of (parts=%s, start=%s, total=%s): the two ends of a partition are computed over different ranges" % (args[1], args[3], args[4], macro, want_args[0], want_args[1], want_args[2]))
            if minus:
                r = X.strip(rhs)
                if not (r.k == "BinaryOperator" and r.op == "-" and X.show(r.children[1]) == minus):
                    problems.append("count is not `start of next partition - %s`" % minus)
            if problems:
                ck.violated(rid, inst, asg.where, "; ".join(problems), cfg)
            else:
                ck.holds(rid, inst, asg.where, "%s = partition_start(%s, ..., %s, ...)%s: least index the routing sends to partition %s or later" % (var, pid, macro, (" - " + minus) if minus else "", pid), cfg)
        ck.expect(rid, n_w, 1, "stores to %s" % var)


def check_routing_users(ck, P, rid):
    cfg = P.config
    f = P.fn("ScheduleNewEvent")
    recv = f.params[0]["name"]
    tops = X.expansions(f.root, "lid_to_nid")
    inst = "user:remote-decision@ScheduleNewEvent"
    if len(tops) == 1 and any(x.k == "DeclRefExpr" and x.name == recv for a in macro_args(tops[0], "lid_to_nid") for x in a.walk()):
        kind, dv = Q.result_var(tops[0])
        sends = list(f.calls("mpi_remote_msg_send"))
        ins = list(f.calls("msg_queue_insert"))
        ok = kind == "var" and len(sends) == 1 and len(ins) == 1
        if ok:
            for c, want in ((sends[0], True), (ins[0], False)):
                paths, _ = Q.path_conditions(f, c)
                for conds in paths:
                    hit = False
                    for core, t in conds:
                        cc = X.strip(core)
                        if cc.k == "BinaryOperator" and cc.op in ("!=", "==") and {X.show(cc.children[0]), X.show(cc.children[1])} == {dv.name, "nid"}:
                            hit = ((cc.op == "!=") == t) == want
                    if not hit:
                        ok = False
            if ok and X.show(X.callee_args(sends[0])[1]) != dv.name:
                ok = False
        if ok:
            ck.holds(rid, inst, tops[0].where, "remote iff lid_to_nid(%s) != nid; sent to that rank" % recv, cfg)
        else:
            ck.violated(rid, inst, tops[0].where, "the local/remote decision or the destination rank is not lid_to_nid(receiver)", cfg)
    else:
        ck.violated(rid, inst, f.where, "ScheduleNewEvent does not route with lid_to_nid(receiver)", cfg)
    f = P.fn("send_anti_messages")
    inst = "user:anti-destination@send_anti_messages"
    sends = list(f.calls("mpi_remote_anti_msg_send"))
    tops = X.expansions(f.root, "lid_to_nid")
    if len(sends) == 1 and len(tops) == 1:
        kind, dv = Q.result_var(tops[0])
        m = X.show(X.callee_args(sends[0])[0])
        arg_ok = any(X.show(a) == "%s->dest" % m for a in macro_args(tops[0], "lid_to_nid"))
        if kind == "var" and X.show(X.callee_args(sends[0])[1]) == dv.name and arg_ok:
            ck.holds(rid, inst, tops[0].where, "anti-message goes to lid_to_nid(%s->dest)" % m, cfg)
        else:
            ck.violated(rid, inst, sends[0].where, "the remote anti-message is not sent to the rank that owns the destination LP", cfg)
    else:
        ck.inconclusive(rid, inst, f.where, "anti-message routing not recognised", cfg)
    f = P.fn("msg_queue_insert")
    inst = "user:queue@msg_queue_insert"
    sub = [v for v in f.walk() if v.k == "ArraySubscriptExpr" and X.show(v.children[0]) == "queues"]
    mparam = f.params[0]["name"]
    if len(sub) == 1 and X.expansions(sub[0].children[1], "lid_to_rid") and any(X.show(a) == "%s->dest" % mparam for t in X.expansions(sub[0].children[1], "lid_to_rid") for a in macro_args(t, "lid_to_rid")):
        ck.holds(rid, inst, sub[0].where, "queues[lid_to_rid(%s->dest)]" % mparam, cfg)
    else:
        ck.violated(rid, inst, f.where, "the destination queue is not chosen by lid_to_rid(msg->dest)", cfg)


def check_lp_loops(ck, P, rid):
    """lp_init / lp_fini iterate [lid_thread_first, lid_thread_end) and run the per-LP init / fini once per iteration."""
    cfg = P.config
    for fname, callee in (("lp_init", "process_lp_init"), ("lp_fini", "process_lp_fini")):
        f = P.fn(fname)
        inst = "range@%s" % fname
        loops = [l for l in f.walk() if l.k == "ForStmt" and not l.macros]
        if len(loops) != 1:
            ck.inconclusive(rid, inst, f.where, "expected one for loop", cfg)
            continue
        l = loops[0]
        init, cond, inc = l.children[0], X.strip(l.children[2]), X.strip(l.children[3])
        iv = [x for x in init.walk() if x.k == "VarDecl"]
        def _res(n):
            n = X.strip(n)
            r = Q.resolve_local(f, n) if n is not None and n.k == "DeclRefExpr" and n.d.get("sc") == "local" else n
            return X.show(r) if r is not None else "?"
        ok = bool(iv) and iv[0].children and _res(iv[0].children[0]) == "lid_thread_first"
        ok = ok and cond.k == "BinaryOperator" and cond.op == "<" and X.show(cond.children[0]) == iv[0].name and _res(cond.children[1]) == "lid_thread_end"
        ok = ok and inc.k == "UnaryOperator" and inc.op == "++" and X.show(inc.children[0]) == iv[0].name
        if not ok:
            # the same range walked with a pointer: for(lp = &lps[first]; lp != / < &lps[end]; ++lp) callee(lp)
            ptr_ok = bool(iv) and iv[0].children and _res(iv[0].children[0]).replace(" ", "") in ("&lps[lid_thread_first]", "(lps+lid_thread_first)", "lps+lid_thread_first")
            ptr_ok = ptr_ok and cond.k == "BinaryOperator" and cond.op in ("<", "!=") and X.show(cond.children[0]) == iv[0].name and \
                _res(cond.children[1]).replace(" ", "") in ("&lps[lid_thread_end]", "(lps+lid_thread_end)", "lps+lid_thread_end")
            ptr_ok = ptr_ok and inc.k == "UnaryOperator" and inc.op == "++" and X.show(inc.children[0]) == iv[0].name
            if ptr_ok:
                calls = [c for c in f.calls(callee) if c.is_inside(l)]
                body_entry, condB = Q.loop_body_entry(f, l)
                once = len(calls) == 1 and X.show(X.strip(X.callee_args(calls[0])[0])) == iv[0].name and not f.cfg.escapes(
                    f.cfg.edge_point(body_entry), {calls[0].id}, goal="none", goal_ids={e.id for e in condB.elems} | {x.id for x in inc.walk()})
                if once:
                    ck.holds(rid, inst, l.where, "walks &lps[lid_thread_first] .. &lps[lid_thread_end] with a pointer, %s once per element" % callee, cfg)
                else:
                    ck.violated(rid, inst, l.where, "%s is not called exactly once per element of the thread's range" % callee, cfg)
                continue
            index_form = bool(iv) and iv[0].d.get("ti") and cond.k == "BinaryOperator" and any(x.k == "DeclRefExpr" and x.name == iv[0].name for x in cond.walk()) and \
                inc.k in ("UnaryOperator", "CompoundAssignOperator") and any(x.k == "DeclRefExpr" and x.name == iv[0].name for x in inc.walk())
            if index_form:
                ck.violated(rid, inst, l.where, "%s does not iterate exactly [lid_thread_first, lid_thread_end): %s; %s; %s" % (fname, X.show(iv[0]) if iv else "?", X.show(cond), X.show(inc)), cfg)
            else:
                ck.inconclusive(rid, inst, l.where, "the loop over the thread's LPs has a form that was not recognised: %s; %s" % (X.show(cond)[:50], X.show(inc)[:30]), cfg)
            continue
        calls = [c for c in f.calls(callee) if c.is_inside(l)]
        g = f.cfg
        body_entry, condB = Q.loop_body_entry(f, l)
        bad = len(calls) != 1
        if not bad:
            w = g.escapes(g.edge_point(body_entry), {calls[0].id}, goal="none", goal_ids={e.id for e in condB.elems} | {x.id for x in inc.walk()})
            if w:
                bad = True
            a = X.strip(X.callee_args(calls[0])[0])
            lpv = [v for v in l.walk() if v.k == "VarDecl" and v.name == X.show(a)]
            if not lpv or X.show(lpv[0].children[0]) != "&lps[%s]" % iv[0].name:
                bad = True
        if bad:
            ck.violated(rid, inst, l.where, "%s is not called exactly once per iteration on &lps[%s]" % (callee, iv[0].name), cfg)
        else:
            ck.holds(rid, inst, l.where, "for(%s = lid_thread_first; %s < lid_thread_end; ++%s) %s(&lps[%s]) once per iteration" % (iv[0].name, iv[0].name, iv[0].name, callee, iv[0].name), cfg)


def _refute_routing(tops, parts, start, total, P=None):
    """Evaluate a routing macro of unknown shape on small numbers.  Returns (expansion, x, value, parts, total, start, kind) for an
    identifier of the range that is sent outside 0..parts-1 (kind 'range'), or for the first identifier past the range that is NOT
    sent to partition >= parts (kind 'end': the search for the end of the last partition then runs past the range), or None."""
    from . import ceval
    from . import query as Q
    for top in tops[:1]:
        leaves = {}

        def collect(x):
            if x.k in ("DeclRefExpr", "MemberExpr"):
                t = X.show(x)
                if t not in (parts, start, total) and not (x.k == "DeclRefExpr" and x.d.get("dk") == "enum"):
                    leaves[t] = x
                return
            for c in x.children:
                collect(c)
        collect(top)
        derived = {}
        argtxt = None
        for t, x in leaves.items():
            if x.k == "DeclRefExpr" and x.d.get("sc") not in ("local", "param") and P is not None:
                ws = [(fn, node) for fn, node, kind in Q.global_accesses(P, x.name) if kind == "write"]
                if len(ws) == 1:
                    asg = ws[0][1].parent
                    while asg is not None and not (asg.k == "BinaryOperator" and asg.op == "="):
                        asg = asg.parent
                    if asg is not None:
                        derived[t] = asg.children[1]
                        continue
            if argtxt is not None:
                argtxt = False
            elif argtxt is None:
                argtxt = t
        if not argtxt:
            continue
        for np in range(1, 6):
            for tot in range(np, 111):
                for st in ((0, 7) if start != "0" else (0,)):
                    env = {parts: np, total: tot}
                    if start != "0":
                        env[start] = st
                    okd = True
                    for t, rhs in derived.items():
                        dv = ceval.ev(rhs, env)
                        if dv is None:
                            okd = False
                        env[t] = dv
                    if not okd:
                        return None
                    for xv in range(st, st + tot + 1):
                        env[argtxt] = xv
                        v = ceval.ev(top, env)
                        if v is None:
                            return None
                        if xv < st + tot and not (0 <= v < np):
                            return (top, xv, v, np, tot, st, "range")
                        if xv == st + tot and v < np:
                            return (top, xv, v, np, tot, st, "end")
    return None


def check_routing_range(ck, P, rid):
    """The routing macro used by a partition_start call maps [start, start + total) onto [0, parts): it has the form
    ((x - start) * parts / total) with the very (parts, start, total) that call passes (start 0 may be omitted)."""
    cfg = P.config
    want = {"lid_to_nid": ("lp_global_init", "n_nodes", "0", "global_config.lps"), "lid_to_rid": ("lp_init", "global_config.n_threads", "lid_node_first", "n_lps_node")}
    for macro, (fname, parts, start, total) in want.items():
        f = P.fn(fname)
        # arguments the partition_start expansion was given (macro call text is the resolved invocation)
        pcs = [p_ for p_ in partition_calls(f) if p_["fn"] == macro]
        inst = "range:%s" % macro
        if not pcs:
            ck.inconclusive(rid, inst, f.where, "no partition_start over %s" % macro, cfg)
            continue
        txt = pcs[0]["node"].d.get("mcall") or ""
        inner = txt[txt.find("(") + 1: txt.rfind(")")]
        args, depth, cur = [], 0, ""
        for ch in inner:
            if ch == "," and depth == 0:
                args.append(cur.strip()); cur = ""
            else:
                depth += ch in "([" ; depth -= ch in ")]"
                cur += ch
        args.append(cur.strip())
        if len(args) != 5:
            ck.inconclusive(rid, inst, pcs[0]["node"].where, "partition_start arguments not recognised", cfg)
            continue
        p_cnt, p_start, p_tot = args[1], args[3], args[4]
        # canonical body of the routing macro at one of its expansions
        tops = []
        for g in P.all_functions():
            tops += X.expansions(g.root, macro)
        top = X.strip(tops[0], casts=True)
        shape = None
        if top.k == "BinaryOperator" and top.op == "/":
            num, den = X.strip(top.children[0]), X.strip(top.children[1])
            if num.k == "BinaryOperator" and num.op == "*":
                a, b = X.strip(num.children[0]), X.strip(num.children[1])
                base = "0"
                arg_side = a
                if a.k == "BinaryOperator" and a.op == "-":
                    base = X.show(a.children[1])
                shape = (X.show(b), base, X.show(den))
        if shape is None:
            cex = _refute_routing(tops, parts, start, total, P)
            if cex and cex[6] == "range":
                ck.violated(rid, inst, cex[0].where, "%s(%d) = %d with %s = %d, %s = %d%s: identifier %d is routed to partition %d, but only 0..%d exist — it has no owner (expansion `%s`)"
                            % (macro, cex[1], cex[2], parts, cex[3], total, cex[4], (", %s = %d" % (start, cex[5])) if start != "0" else "", cex[1], cex[2], cex[3] - 1, X.show(cex[0])[:60]), cfg)
            elif cex:
                ck.violated(rid, inst, cex[0].where, "%s(%d) = %d with %s = %d, %s = %d%s: the first identifier past the range is still routed to partition %d, so the search for the end of the last "
                            "partition runs past the range — identifiers that do not exist are initialised and counted (expansion `%s`)"
                            % (macro, cex[1], cex[2], parts, cex[3], total, cex[4], (", %s = %d" % (start, cex[5])) if start != "0" else "", cex[2], X.show(cex[0])[:60]), cfg)
            else:
                ck.inconclusive(rid, inst, tops[0].where, "routing macro is not of the form ((x - start) * parts / total): %s" % X.show(tops[0])[:80], cfg)
            continue
        if shape == (p_cnt, p_start, p_tot):
            ck.holds(rid, inst, tops[0].where, "%s(x) = (x - %s) * %s / %s with the (parts, start, total) of its partition_start call: values 0..parts-1 over the range" % (macro, shape[1], shape[0], shape[2]), cfg)
        else:
            ck.violated(rid, inst, tops[0].where, "%s computes (x - %s) * %s / %s but its ownership bounds are searched with parts=%s start=%s total=%s: some identifiers of the range are routed to a partition that does not exist (no owner) or two ranges overlap" % (
                macro, shape[1], shape[0], shape[2], p_cnt, p_start, p_tot), cfg)


def check_lp_table(ck, P, rid):
    """The LP table is indexed with GLOBAL LP ids everywhere (lps[msg->dest], lps[i] for i in the ownership range).  A rank
    allocates only its own n_lps_node entries, so the base pointer must be shifted down by the first hosted id after the
    allocation, and shifted back before it is released."""
    cfg = P.config
    ini, fin = P.fn("lp_global_init"), P.fn("lp_global_fini")
    inst = "lp-table@lp_global_init"
    allocs = [a for a in ini.walk() if a.k == "BinaryOperator" and a.op == "=" and X.show(X.strip(a.children[0])) == "lps"]
    shifts = [a for a in ini.walk() if a.k == "CompoundAssignOperator" and X.show(X.strip(a.children[0])) == "lps"]
    if len(allocs) != 1:
        ck.inconclusive(rid, inst, ini.where, "allocation of the LP table not recognised", cfg)
    else:
        call = X.strip(allocs[0].children[1])
        size = X.strip(X.callee_args(call)[0], casts=True) if call.k == "CallExpr" and X.callee_args(call) else None
        size_ok = size is not None and size.k == "BinaryOperator" and size.op == "*" and "n_lps_node" in X.show(size) and any(x.k == "UnaryExprOrTypeTraitExpr" for x in size.walk())
        if not size_ok:
            ck.violated(rid, inst + ":size", allocs[0].where, "the LP table is not allocated with n_lps_node entries: %s" % (X.show(size)[:60] if size is not None else "?"), cfg)
        else:
            ck.holds(rid, inst + ":size", allocs[0].where, "n_lps_node entries", cfg)
        ok_shift = len(shifts) == 1 and shifts[0].op == "-=" and X.show(X.strip(shifts[0].children[1])) == "lid_node_first" and ini.cfg.dominates(allocs[0], shifts[0])
        if ok_shift:
            ck.holds(rid, inst + ":rebase", shifts[0].where, "lps -= lid_node_first after the allocation: lps[global id] addresses entry (id - first hosted id)", cfg)
        else:
            ck.violated(rid, inst + ":rebase", allocs[0].where, "the table holds only this rank's LPs but is indexed with global LP ids without being shifted by lid_node_first: on every rank but the first, "
                        "lps[id] is outside the allocation", cfg)
    inst = "lp-table@lp_global_fini"
    back = [a for a in fin.walk() if a.k == "CompoundAssignOperator" and X.show(X.strip(a.children[0])) == "lps"]
    frees = [c for c in fin.calls() if c.callee in ("mm_free", "free") and X.show(X.strip(X.callee_args(c)[0])) == "lps"]
    if len(frees) != 1:
        ck.inconclusive(rid, inst, fin.where, "release of the LP table not recognised", cfg)
    elif len(back) == 1 and back[0].op == "+=" and X.show(X.strip(back[0].children[1])) == "lid_node_first" and fin.cfg.dominates(back[0], frees[0]):
        ck.holds(rid, inst, frees[0].where, "shifted back by lid_node_first before it is released", cfg)
    else:
        ck.violated(rid, inst, frees[0].where, "the pointer released is not the one that was allocated (it is still shifted by lid_node_first)", cfg)


def check_ownership_tiling(ck, P, rid):
    """F15: lp_global_init and the head of lp_init are interpreted for small configurations (1..12 LPs, 1..4 ranks, 1..4 threads, every rank
    and thread id).  The ranges [lid_node_first, +n_lps_node) of the ranks tile 0..lps-1, the ranges [lid_thread_first, lid_thread_end) of a
    rank's threads tile the rank's range, and the routing macros send every identifier of a range to the rank / thread that owns it."""
    from . import interp, ceval
    cfg = P.config
    gi, li = P.fn("lp_global_init"), P.fn("lp_init")
    inst = "tiling@lp_init"
    loops = [n for n in li.walk() if n.k == "ForStmt"]
    if len(loops) != 1:
        ck.inconclusive(rid, inst, li.where, "the loop over the thread's LPs was not recognised", cfg)
        return
    stop = {x.id for x in loops[0].walk()}
    tops = {}
    for macro in ("lid_to_nid", "lid_to_rid"):
        for g in P.all_functions():
            for t in X.expansions(g.root, macro):
                a = macro_args(t, macro)
                if a and X.strip(a[0]).k in ("DeclRefExpr", "MemberExpr") and macro not in tops:
                    tops[macro] = (t, X.show(X.strip(a[0])))
    if len(tops) != 2:
        ck.inconclusive(rid, inst, li.where, "no expansion of the routing macros with a plain argument was found", cfg)
        return
    stubs = {"mm_alloc": lambda a, e: 4096, "logger": lambda a, e: 0, "vlogger": lambda a, e: 0}
    bad = None
    n_cfg = 0
    for lps in range(1, 13):
        for nn in range(1, 5):
            if nn > lps:
                continue
            nxt = 0
            for nid in range(nn):
                for thr in (1, 2, 3, 4):
                    env = {"nid": nid, "n_nodes": nn, "global_config.lps": lps, "global_config.n_threads": thr}
                    o1 = [o for o in interp.Interp(gi, stubs=stubs, max_visits=64).run(env) if o.how == "exit"]
                    if len(o1) != 1 or not o1[0].decided:
                        ck.inconclusive(rid, inst, gi.where, "lp_global_init could not be evaluated for %d LPs on %d ranks" % (lps, nn), cfg)
                        return
                    e1 = o1[0].env
                    first, cnt, T = e1.get("lid_node_first"), e1.get("n_lps_node"), e1.get("global_config.n_threads")
                    if first is None or cnt is None or not T:
                        ck.inconclusive(rid, inst, gi.where, "lp_global_init leaves the rank's range undetermined", cfg)
                        return
                    if thr == 1:
                        if first != nxt and bad is None:
                            bad = "with %d LPs on %d ranks, rank %d hosts [%d, %d) but the previous rank's range ends at %d" % (lps, nn, nid, first, first + cnt, nxt)
                        nxt = first + cnt
                        if nid == nn - 1 and nxt != lps and bad is None:
                            bad = "with %d LPs on %d ranks the ranges of the ranks end at %d" % (lps, nn, nxt)
                    tnext = first
                    for r in range(T):
                        env2 = dict(e1)
                        env2["rid"] = r
                        o2 = [o for o in interp.Interp(li, stubs=stubs, max_visits=64).run(env2, stop=stop)]
                        if len(o2) != 1 or o2[0].how != "stop" or not o2[0].decided:
                            ck.inconclusive(rid, inst, li.where, "the head of lp_init could not be evaluated (%d LPs, %d ranks, %d threads)" % (lps, nn, T), cfg)
                            return
                        tf, te = o2[0].env.get("lid_thread_first"), o2[0].env.get("lid_thread_end")
                        n_cfg += 1
                        if tf is None or te is None:
                            ck.inconclusive(rid, inst, li.where, "lp_init leaves the thread's range undetermined", cfg)
                            return
                        if te == tf and cnt >= T and bad is None:
                            bad = "with %d LPs on %d ranks and %d threads, thread %d of rank %d owns no LP although the rank hosts %d LPs (at least as many as threads)" % (lps, nn, T, r, nid, cnt)
                        if (tf != tnext or te < tf) and bad is None:
                            bad = "with %d LPs on %d ranks and %d threads, thread %d of rank %d owns [%d, %d) but the range of the rank's previous thread ends at %d: an LP is initialised and run by two threads, or by none" % (lps, nn, T, r, nid, tf, te, tnext)
                        tnext = te
                        for lid in range(tf, te):
                            for macro, want in (("lid_to_nid", nid), ("lid_to_rid", r)):
                                top, arg = tops[macro]
                                envm = dict(e1)
                                envm[arg] = lid
                                v = ceval.ev(top, envm)
                                if v is None:
                                    ck.inconclusive(rid, inst, top.where, "%s is not evaluable" % macro, cfg)
                                    return
                                if v != want and bad is None:
                                    bad = "with %d LPs on %d ranks and %d threads, LP %d is initialised by thread %d of rank %d but %s sends its events to %d" % (lps, nn, T, lid, r, nid, macro, v)
                    if tnext != first + cnt and bad is None:
                        bad = "with %d LPs on %d ranks and %d threads the ranges of rank %d's threads end at %d, the rank's range at %d" % (lps, nn, T, nid, tnext, first + cnt)
    if bad:
        ck.violated(rid, inst, li.where, bad, cfg)
    else:
        ck.holds(rid, inst, li.where, "%d (LPs, ranks, rank, threads, thread) combinations: the ranges tile the identifier space, agree with the routing macros and leave no thread without an LP" % n_cfg, cfg)


def check_routing_width(ck, P, rid):
    """The product in a routing macro is formed in the full width of an LP identifier at every expansion: a cast that narrows the
    offset before the multiplication makes (offset * parts) wrap for large identifier counts."""
    cfg = P.config
    n = 0
    bad = {}
    for macro in ("lid_to_nid", "lid_to_rid"):
        for g in P.all_functions():
            for t in X.expansions(g.root, macro):
                muls = [x for x in t.walk() if x.k == "BinaryOperator" and x.op == "*" and macro in x.macros]
                for m in muls:
                    n += 1
                    ti = m.d.get("ti")
                    if ti and ti[0] < 64 and macro not in bad:
                        bad[macro] = (m, ti[0], g)
    for macro in ("lid_to_nid", "lid_to_rid"):
        inst = "width:%s" % macro
        if macro in bad:
            m, w, g = bad[macro]
            ck.violated(rid, inst, m.where, "in %s the product `%s` is computed in %d bits: for (identifier offset x partitions) >= 2^%d it wraps and the identifier is routed to a thread / rank that does not own it (expansion in %s)" % (macro, X.show(m)[:60], w, w, g.name), cfg)
        else:
            ck.holds(rid, inst, P.fn("lp_init").where, "the product is 64 bits wide at every expansion", cfg)
    ck.expect(rid, n, 6, "products inside routing macro expansions")
